#!/bin/sh
# usage: confirm_seed.sh <id> <worktree>   -- confirms a seeded change: demo fails with it / passes without, pinned suite unchanged
id=$1; wt=$2
cd $wt || exit 2
git checkout -q -- . 
/venv/bin/python seed/demo.py >/dev/null 2>&1; clean=$?
git apply seed/patch.diff || { echo "$id: patch does not apply"; exit 2; }
/venv/bin/python seed/demo.py >/dev/null 2>&1; seeded=$?
res=$(/venv/bin/python -m pytest -q -p no:cacheprovider --timeout=900 --continue-on-collection-errors 2>&1 | tail -1)
git checkout -q -- .
echo "$id: demo clean=$clean seeded=$seeded ; suite with change: $res"
