#!/usr/bin/env python3
"""Regenerates MANIFEST.json from the table below (keeps it valid at all times)."""
import json, os
HERE = os.path.dirname(os.path.dirname(os.path.abspath(__file__)))
props = [json.loads(l) for l in open(os.path.join(HERE, 'properties.jsonl'))]
ids = [p['id'] for p in props]

E1 = ('bounded symbolic execution of the real Python functions (proxy values over z3, every feasible path within '
      'the bound) + SMT validity of the property on each path; counterexamples replayed on the real code')

CLAIMED = {
 'C02': dict(
    technique='symbolic execution of kcenters with an uninterpreted metric; z3 (QF_UFLRA) validity per path',
    text='Every feasible path of the real kcenters/_kcenters_iteration (function and estimator form) for N<=5 (thorough 7) '
         'frames under an arbitrary metric is explored; on each path z3 proves the greedy farthest-point rule, monotone radius, '
         'exact stopping, 2-approximation (all k-subsets) and equality of the triangle-shortcut run, for all metrics and cut-offs at once.',
    note='Trusted: the symnp shim (validated per path against real NumPy on a solver witness), z3, the token/metric abstraction '
         '(code observes frames only via len/index/metric). Real arithmetic, not floats. Bounds: see evidence.',
    ref='DESIGN.md section 8 C02'),
}
CLAIMED.update({
 'C01': dict(
    technique='symbolic execution of kcenters/kmedoids/hybrid (functions + estimators) with an uninterpreted metric; inductive PAM step; z3 validity per path',
    text='All feasible paths of the real clustering entry points are explored for small N with frames as tokens and the metric an '
         'uninterpreted function; z3 proves on each path that centers are the frames at their indices, distances are to the assigned '
         'center, no center is strictly closer, labels in range, centers self-labelled at distance zero, inputs unmodified. K-medoids '
         'histories are covered by one PAM sweep from an arbitrary consistent state (inductive step).',
    note='Trusted: symnp shim (validated per path against real NumPy on a solver witness), z3, random-generator stub contract, token/metric '
         'abstraction. Real arithmetic, not floats. Bounds in evidence.',
    ref='DESIGN.md section 8 C01'),
 'C09': dict(
    technique='inductive step: one symbolic PAM sweep from an arbitrary consistent state; squares abstracted (UF) with exact refinement; z3',
    text='One _kmedoids_pam_update sweep from an arbitrary state satisfying the clustering invariant, with arbitrary random draws or '
         'explicit proposals, is executed symbolically; z3 proves cost non-increase (reported distances AND true distances to the labelled centers), cluster count kept, centers are input frames, no RNG '
         'use when proposals are given; hybrid cost <= k-centers cost end-to-end; fixed-seed reproducibility replayed on counterexamples.',
    note='Trusted: shim, z3, generator stub (NumPy generators deterministic in their seed is assumed). Real arithmetic. Squares are '
         'uninterpreted in proofs (sound), exact when models are extracted.',
    ref='DESIGN.md section 8 C09'),
 'C10': dict(
    technique='symbolic execution of assign_to_nearest_center / find_cluster_centers / ClusterResult.partition / partition_indices (unbounded lengths); z3 LIA/LRA validity',
    text='Both branches of nearest-center assignment, predict, the per-label center finder and the per-trajectory partitioning are run '
         'symbolically (arbitrary metric, arbitrary center tokens incl. duplicates, opaque values); partition_indices and compute_batches are '
         'decided for trajectory lengths of unbounded size.',
    note='Trusted: shim, z3. batch_reassign/reassign (file I/O, joblib) are outside the claim.',
    ref='DESIGN.md section 8 C10'),
})
CLAIMED.update({
 'C20': dict(
    technique='symbolic execution of is_buffered_transition/get_gates/_rotamers (step lemma over real-valued angle and buffer, LRA) and of disorder.transitions (LIA)',
    text='Step lemma: for every boundary set used by the library and every current state, with angle and buffer width as real solver '
         'variables, z3 proves exit <=> angle outside the basin widened by the buffer modulo 360; since the loop body depends only on '
         '(state, angle) this covers sequences of any length; bounded end-to-end runs check the composition, first-frame rule, int16 and '
         'zero-buffer binning. transitions(): every state sequence within the bound, 1-D and 2-D.',
    note='Trusted: shim, z3, np.digitize model. Angles exclude the exact gate values as the property states.',
    ref='DESIGN.md section 8 C20'),
})
CLAIMED.update({
 'C03': dict(
    technique='symbolic execution of assigns_to_counts/_transitions_helper with symbolic state ids; COO contract stub; z3 LIA validity',
    text='For every trajectory-length vector in the bound (incl. lengths below the lag), every lag, sliding on/off, ragged and padded '
         'input, explicit and inferred state count, the real counting code is executed on symbolic state ids and z3 proves that entry (i,j) '
         'equals the number of lagged pairs inside one trajectory, the matrix is square and the total is sum max(0,len-lag).',
    note='Trusted: shim, z3, the SymCOO contract (duplicates summed; scipy doc). Additivity/reordering follow from the proved sum formula.',
    ref='DESIGN.md section 8 C03'),
 'C11': dict(
    technique='symbolic execution of trim_disconnected with symbolic counts/threshold; SCC stub = symbolic Warshall closure; z3 validity vs an independent closure oracle',
    text='trim_disconnected runs on symbolic count matrices (n<=3, thorough 4) and a symbolic threshold, forking over the component '
         'structure; z3 proves the kept set is a maximal strongly connected class of maximal population, the trimmed matrix keeps exactly the '
         'counts between kept states (both variants), the mapping is the order-preserving bijection and its inverse, container type and the '
         "caller's matrix are preserved.",
    note='Trusted: shim, z3, connected_components contract (partition into SCCs; numbering unspecified), scipy.sparse shadow. Dense, COO (also with '
         'repeated coordinates) and the six other sparse containers.',
    ref='DESIGN.md section 8 C11'),
})
CLAIMED.update({
 'C17': dict(
    technique='symbolic execution of top_path/paths (Dijkstra widest path) per concrete edge pattern with symbolic positive weights; z3 LRA validity against an enumeration of all simple paths',
    text='For every edge pattern on 3 nodes (and the acyclic ones on 4), both removal schemes, the real path-finding code runs on symbolic '
         'positive weights; z3 proves each returned path is simple, source-to-sink, on positive residual edges, its flux is its minimum edge and '
         'equals the maximum bottleneck over ALL simple source-sink paths, fluxes never increase, their sum stays within the source outflow, the '
         "path limit and stopping rule are honoured and the caller's matrix is untouched.",
    note='Trusted: shim, z3. Real arithmetic. Known finding: bottleneck scheme on non-conserved flux over-counts (known_findings.jsonl).',
    ref='DESIGN.md section 8 C17'),
})
CLAIMED.update({
 'C07': dict(
    technique='symbolic execution of committors/mfpts on a symbolic row-stochastic matrix; solve/inv as contracts; z3 QF_NRA validity of the first-step equations',
    text='committors() and mfpts() run on matrices whose entries are real solver variables (row-stochastic, irreducible by positivity or by '
         'an enumerated zero pattern), for every source/sink set pair in the bound; z3 proves the boundary values, the first-step equations, the '
         '[0,1] range, the all-pairs table against the single-sink equations (n=2) and that the inputs are unchanged.',
    note='Trusted: shim, z3, the linear-solver contracts (A.x=b; Z.M=I), the conformance-checked scipy.sparse shadow (symnp/sparse.py). Also run: '
         'column-major / non-contiguous inputs and each of the 7 sparse containers (tolil path, sparse right-hand sides of spsolve). Float conditioning is outside the claim.',
    ref='DESIGN.md section 8 C07'),
 'C08': dict(
    technique='symbolic execution of reactive_fluxes/net_fluxes/reactive_populations on a symbolic reversible chain; z3 QF_NRA validity',
    text='The flux routines run on a symbolic reversible chain (detailed balance with symbolic populations); z3 proves the flux formula cell by '
         'cell (catches transposed broadcasting), positive-part net flux, one-directional net flux, conservation at intermediates, no flow into '
         'sources / out of sinks, source outflow = sink inflow and the reactive-population vector, for every source/sink set pair at n<=3 and a '
         'chain pattern at n=4.',
    note='Trusted: shim, z3, spsolve contract, the conformance-checked scipy.sparse shadow (each of the 7 containers at n=3).',
    ref='DESIGN.md section 8 C08'),
})
CLAIMED.update({
 'C04': dict(
    technique='symbolic execution of normalize/transpose/_row_normalize/_apply_prior_counts and bounded sweeps of _prinz_mle_py on symbolic real count matrices; eig as Perron contract; z3 QF_NRA (fresh-solver and external-z3 fallback)',
    text='The builders run on dense count matrices and on every scipy.sparse container (symbolic shadow) whose entries (and prior counts) are real solver variables; z3 proves T = counts/row totals '
         '(zero rows stay zero), returned counts, stationarity and normalisation of the populations, detailed balance for transpose and for '
         "the MLE output after a bounded number of real sweeps, calculate_eq_probs=False => None, and that the caller's matrix is unchanged.",
    note='Trusted: shim, z3 (two versions), eig/sqrt/log contracts, and the scipy.sparse shadow (symnp/sparse.py: result formats, element types, '
         'copy/share rules; checked against the installed scipy on every run by the sparse-shadow-conformance job; replays use the real classes). '
         'normalize/transpose also run on each of the 7 sparse containers with integer and float counts. builders.mle runs on sparse containers with its solver bounded to one sweep (np.matrix semantics of todense() are modelled: SymMatrix). '
         'Outside: float rounding, convergence of the MLE iteration.',
    ref='DESIGN.md section 8 C04'),
 'C16': dict(
    technique='symbolic execution of MSM.fit against the composed function pipeline on symbolic assignments; eigenspectrum/timescales under the eig contract; ensemble propagation as polynomial identity; z3',
    text='MSM.fit is executed on symbolic state sequences for every configuration in the bound (lag, builder, trim, sliding window, state '
         'count) and z3 proves cell-wise equality with assigns_to_counts -> trim_disconnected -> builder run with the same arguments, and that '
         'config reports them; eigenspectrum post-processing (order, leading value 1, normalised stationary first vector, n_eigs, left/right), '
         'implied timescales = -lag/log(eigenvalue) and ensemble propagation = p.T^s are proved for small n.',
    note='Trusted: shim, z3, eig/COO/SCC contracts, scipy.sparse shadow (the default path hands the builders sparse counts; both that path and the '
         'dense callable-method API are run). Outside: save/load round trip (file formats), ARPACK path.',
    ref='DESIGN.md section 8 C16'),
})
E2 = ('interpretation of the kernels from the TYPED syntax tree of the installed Cython front end (per fused specialisation) over z3 values: '
      'per-access bounds obligations for unbounded extents, prange iteration-independence obligations, exact-integer arithmetic with a '
      'representability obligation per C operation, functional equality at small extents; counterexamples replayed on the extension built from the current .pyx')
CLAIMED.update({
 'C13': dict(engine='cy2smt',
    technique='Cython typed tree -> SMT: bounds + prange-independence obligations with unbounded symbolic extents; exact-integer functional obligations with C-type representability; z3',
    text='Every fused specialisation of _euclidean/_manhattan/_hamming and the wrappers is interpreted from the tree Cython itself typed. With '
         'extents as unbounded solver integers z3 proves every buffer access under boundscheck(False) in range (or the wrapper rejects the '
         'input), and that no prange iteration touches a location another one writes (=> thread/schedule independence). With 2x2 (2x3) symbolic '
         'contents over the full range of each element type it proves the value is the 2-norm / 1-norm / mismatch fraction and that no C integer '
         'operation can overflow; result is 1-D float64 and is the out buffer when given.',
    note='Trusted: Cython front end (types), the small interpreter (validated on every witness against the compiled kernel in C/F/strided '
         'layouts and 1/4/16 threads), z3, Cython-generated buffer acquisition. Floats are reals. Out-of-bounds counterexamples are replayed '
         'on a bounds-checked build of the same source; races are reported separately as UB-CANDIDATE.',
    ref='DESIGN.md sections 4 and 8 C13'),
 'C18': dict(engine='symnp + cy2smt',
    technique='kernel: Cython typed tree -> SMT (bounds under the function assertions, prange independence, exact counts); Python: symbolic execution of mutual_information/channel_capacity_normalization/shannon_entropy/kl_divergence with log uninterpreted; z3',
    text='matrix_bincount2d is interpreted from its typed tree: exact joint counts for every integer element type at small extents, memory '
         'safety for unbounded extents under its own assertions (state ids out of range and mismatched lengths rejected), prange independence. '
         'mutual_information is proved invariant under relabelling of states and under swapping the two sides, equal to the Shannon entropy on '
         'diagonal tables, KL(P,P)=0, and the normalisation divides entry (i,j) by log(min(n_x[i], n_y[j])) for different feature/state counts.',
    note='Trusted: both engines, z3, log as uninterpreted function with the instances log(1)=0, log(1/p)=-log p. Relative entropy of two different distributions is proved non-negative, zero only for equal distributions and +inf on support mismatch with log '
         'abstracted to a real satisfying the tangent bounds 1-1/x <= log x <= x-1; weighted_mi runs with symbolic weights (symmetry, no exception, '
         'independence from uninitialised memory). MI >= 0 is proved the same way on 2x2 tables. Outside: MI<=min(H); equality of weighted_mi with the count-based estimator is only replayed.',
    ref='DESIGN.md section 8 C18'),
 'C19': dict(engine='symnp + cy2smt',
    technique='2-safety on uninitialised-memory variables (fresh cells of arbitrary IEEE kind) in symbolic runs of the routines that allocate masked-ufunc outputs; prange independence obligations; AST scan of uninitialised-output sites; z3',
    text='Memory NumPy does not initialise (masked ufunc without out=, np.empty) is modelled as fresh cells that may be finite, inf or NaN; z3 '
         'proves the results of shannon_entropy, mutual_information, weighted_mi and the builders do not depend on them; an AST scan lists every such site in the anchored '
         'files and reports the ones no harness executes. Thread independence comes from the prange obligations of the kernels; input '
         'immutability is an obligation of every other harness. Counterexamples are replayed by calling the real function after freeing '
         'NaN/inf-filled blocks.',
    note='Trusted: shim, z3. Worker processes and the allocator itself are outside the claim.',
    ref='DESIGN.md section 8 C19'),
})
CLAIMED.update({
 'C05': dict(
    technique='symbolic execution of RaggedArray.__getitem__/where/flatten/attributes: element values and scalar indices symbolic (all integer indices at once), boolean masks symbolic, slice expressions enumerated on a stated grid; z3 validity of equality with the list-of-rows model',
    text='For every lengths vector with <=3 rows of length 1..3 and both constructor forms, reads are executed on arrays whose element values are '
         'solver variables and compared with the same expression on the list of rows: element access with symbolic integer indices (in range => '
         'exactly that element, otherwise IndexError, never a neighbour), ragged boolean masks and where() with symbolic truth values, rows, row '
         'slices/lists, (row, column) slices on a grid of positive/negative bounds and steps, paired fancy indices, iteration, flatten and '
         'the lengths/starts/shape/size/dtype attributes. Arrays whose elements are vectors (frames x features) are read through the same expressions. Deviations are classified by region of the '
         'index grammar; two regions deviate on this tree and are recorded known findings (seven others were repaired), any other deviation is a violation.',
    note='Trusted: shim, z3. Slice bounds are enumerated (stated grid), not symbolic. Elements with more than one extra dimension / object elements are outside the claim.',
    ref='DESIGN.md section 8 C05'),
 'C06': dict(
    technique='inductive step: one symbolic mutating operation (element/row/2-D slice/mask assignment, append, +=) or binary operator from an arbitrary constructor-built RaggedArray, then z3 validity of the representation invariant and observer/model agreement',
    text='From any constructor-reachable state (lengths vector x symbolic contents, both constructor forms) one write / append / augmented '
         'operation with symbolic operands is executed and z3 proves that _data, _array, lengths, starts and row reads all equal the list-of-rows '
         'model after the same operation - one step from an arbitrary state covers histories of any length. Binary operators between ragged arrays '
         'and with scalars are proved element-wise, structure-preserving, returning a new object that shares no storage, with operands unaltered; '
         'constructing by copy never aliases the caller data.',
    note='Trusted: shim (NumPy view/copy semantics come from the real object ndarray underneath), z3. The defects found were repaired; no known finding is left for this property.',
    ref='DESIGN.md section 8 C06'),
})
CLAIMED.update({
 'C12': dict(engine='symnp + cy2smt',
    technique='statement blocks of _prinz_mle_py extracted from the current source (AST) and the loop bodies of _mle_prinz_dense (typed Cython tree) executed symbolically from an arbitrary invariant state; RelErr float model (QF_NRA) and bit-precise FP model for the final assertions; z3',
    text='From an ARBITRARY state satisfying the sweep invariant, z3 proves that the diagonal and the pair update of the current source each '
         'establish their Prinz stationarity equation, keep X symmetric with X_rs its row sums, and that `assert c <= 0` cannot fire - neither from the exact invariant nor from a '
         'state whose incrementally updated row sums have drifted by rounding (relative 2^-30; this job found and now guards the repaired defect '
         '76ce601) - (so every fixed point satisfies the self-consistency equations); that the compiled and the Python update blocks compute the same state; that '
         'the final normalisation assertions cannot fire under rounding (RelErr model, u=2^-53); and that a run reaching max_iter warns instead '
         'of raising, in both implementations.',
    note='Trusted: both engines, z3, sqrt/log contracts. NOT decided (cannot be encoded): convergence of the iteration and the global '
         'maximum-likelihood claim at the limit; the differing stopping metrics (log vs log10). Sparse containers (incl. COO with repeated coordinates) are covered for one bounded sweep of the public builder.',
    ref='DESIGN.md section 8 C12'),
})
CLAIMED.update({
 'C14': dict(engine='symnp + spmd',
    technique='symbolic execution of kcenters(mpi_mode=True) and mpi.ops under an SPMD simulator (W ranks in lock-step, collective matching checked) against the serial run on the concatenation; uninterpreted tie-free metric; z3',
    text='The unmodified distributed k-centers runs once per rank under a simulator that gives allgather/bcast/Bcast/allreduce/Barrier their MPI '
         'semantics and checks that all ranks issue the same collective sequence (no deadlock); after the repo reassembly routines z3 proves '
         'centers (global indices), labels and distances equal the serial algorithm on the concatenated data, for every trajectory-length '
         'vector and world size in the bound and every tie-free metric. Striped max / mean / random choice / gather and the local<->global '
         'index conversions are proved against their serial definitions.',
    note='Trusted: shim, simulator (MPI semantics incl. arrival-order independence of matched collectives), z3. The distributed hybrid (k-centers + one PAM sweep with (rank, index) medoids) runs under the same simulator. Outside: real transport, '
         'striped file loading under W>1.',
    ref='DESIGN.md sections 6 and 8 C14'),
})
CLAIMED.update({
 'C15': dict(
    technique='symbolic execution of ra.save/ra.load, load_as_concatenated, sound_trajectory and the striped loaders over in-memory I/O stubs (symbolic cell values, unbounded frame counts for the length formula); z3 LIA/LRA validity; real PyTables replays',
    text='Decidable core: the unmodified save/load code runs against an in-memory store with symbolic cell values and z3 proves values, row '
         'order (zero-padded key names across the 9->10 digit boundary; 99->100 in the thorough tier), row lengths and element type come back, '
         'and that stride / key subsets equal slicing the full load; sound_trajectory equals ceil(n/stride) for UNBOUNDED frame counts; the '
         'parallel loader returns the concatenation in file order of the individually loaded (strided, frame-selected, atom-selected) '
         'trajectories and their lengths for both task orders, and rejects a wrong lengths hint; the striped npy/h5 loaders return strided data '
         'with matching lengths.',
    note='Trusted: shim, z3, the three I/O stubs (listing order checked against real PyTables on every run; counterexamples are replayed with '
         'real PyTables / np.save files). NOT decided: HDF5/zlib byte fidelity, dtype preservation by PyTables, mdtraj parsers and selection '
         'language, real multiprocessing scheduling and shared memory.',
    ref='DESIGN.md section 8 C15'),
})
PENDING = 'check not built yet in this session (work in progress; see DESIGN.md section 8 for the plan)'
NA = {}

checks = []
for i in ids:
    if i in CLAIMED:
        c = CLAIMED[i]
        checks.append({
            'property_id': i,
            'quick_cmd': './check %s --tier quick' % i,
            'thorough_cmd': './check %s --tier thorough' % i,
            'evidence_file': 'evidence/%s.json' % i,
            'replay_cmd_template': './check replay {path}',
            'engine': c.get('engine', 'symnp'),
            'level_claimed': {'category': c.get('category', 'model_checking'), 'text': c['text'], 'design_ref': c['ref']},
            'level_note': c['note'],
            'technique': c['technique'],
        })
na = [{'property_id': i, 'reason': NA.get(i, PENDING)} for i in ids if i not in CLAIMED]
m = {
 'version': 1,
 'setup_cmd': './setup.sh',
 'hooks': {'guard': 'ENSPARA_VERIF', 'enable': 'no source hooks are needed: module globals of /repo are rebound from outside at import time',
           'baseline_off_cmd': 'cd /repo && /venv/bin/python -m pytest -ra -q -p no:cacheprovider --timeout=900 --continue-on-collection-errors',
           'source_commits': [], 'add_only': True},
 'engines': [
   {'name': 'symnp', 'path': 'symnp/', 'serves_properties': sorted(CLAIMED), 'kind_free_text': E1},
   {'name': 'spmd', 'path': 'spmd/', 'serves_properties': ['C14'], 'kind_free_text': 'deterministic SPMD simulator (fake mpi4py) with collective-matching check'},
   {'name': 'cy2smt', 'path': 'cy2smt/', 'serves_properties': ['C12', 'C13', 'C18', 'C19'], 'kind_free_text': E2},
 ],
 'checks': checks,
 'not_applicable': na,
 'notes': 'Solver-based checking only. ./check <id> --tier quick|thorough; exit 0 = held on everything explored, 1 = replayed violation, 2 = harness error. known_findings.jsonl lists recorded/fixed defects.',
}
json.dump(m, open(os.path.join(HERE, 'MANIFEST.json'), 'w'), indent=1)
print('claimed', sorted(CLAIMED), 'n/a', len(na))
