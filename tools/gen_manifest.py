#!/usr/bin/env python3
"""Regenerates MANIFEST.json from the table below (keeps it valid at all times)."""
import json, os
HERE = os.path.dirname(os.path.dirname(os.path.abspath(__file__)))
props = [json.loads(l) for l in open(os.path.join(HERE, 'properties.jsonl'))]
ids = [p['id'] for p in props]

E1 = ('bounded symbolic execution of the real Python functions (proxy values over z3, every feasible path within '
      'the bound) + SMT validity of the property on each path; counterexamples replayed on the real code')

CLAIMED = {
 'C02': dict(
    technique='symbolic execution of kcenters with an uninterpreted metric; z3 (QF_UFLRA) validity per path',
    text='Every feasible path of the real kcenters/_kcenters_iteration (function and estimator form) for N<=5 (thorough 7) '
         'frames under an arbitrary metric is explored; on each path z3 proves the greedy farthest-point rule, monotone radius, '
         'exact stopping, 2-approximation (all k-subsets) and equality of the triangle-shortcut run, for all metrics and cut-offs at once.',
    note='Trusted: the symnp shim (validated per path against real NumPy on a solver witness), z3, the token/metric abstraction '
         '(code observes frames only via len/index/metric). Real arithmetic, not floats. Bounds: see evidence.',
    ref='DESIGN.md section 8 C02'),
}
PENDING = 'check not built yet in this session (work in progress; see DESIGN.md section 8 for the plan)'
NA = {}

checks = []
for i in ids:
    if i in CLAIMED:
        c = CLAIMED[i]
        checks.append({
            'property_id': i,
            'quick_cmd': './check %s --tier quick' % i,
            'thorough_cmd': './check %s --tier thorough' % i,
            'evidence_file': 'evidence/%s.json' % i,
            'replay_cmd_template': './check replay {path}',
            'engine': c.get('engine', 'symnp'),
            'level_claimed': {'category': c.get('category', 'model_checking'), 'text': c['text'], 'design_ref': c['ref']},
            'level_note': c['note'],
            'technique': c['technique'],
        })
na = [{'property_id': i, 'reason': NA.get(i, PENDING)} for i in ids if i not in CLAIMED]
m = {
 'version': 1,
 'setup_cmd': './setup.sh',
 'hooks': {'guard': 'ENSPARA_VERIF', 'enable': 'no source hooks are needed: module globals of /repo are rebound from outside at import time',
           'baseline_off_cmd': 'cd /repo && /venv/bin/python -m pytest -ra -q -p no:cacheprovider --timeout=900 --continue-on-collection-errors',
           'source_commits': [], 'add_only': True},
 'engines': [
   {'name': 'symnp', 'path': 'symnp/', 'serves_properties': sorted(CLAIMED), 'kind_free_text': E1},
 ],
 'checks': checks,
 'not_applicable': na,
 'notes': 'Solver-based checking only. ./check <id> --tier quick|thorough; exit 0 = held on everything explored, 1 = replayed violation, 2 = harness error. known_findings.jsonl lists recorded/fixed defects.',
}
json.dump(m, open(os.path.join(HERE, 'MANIFEST.json'), 'w'), indent=1)
print('claimed', sorted(CLAIMED), 'n/a', len(na))
