#!/bin/sh
# re-runs stored seeded changes against the current checks: scratch worktree of /repo under /tmp per seed (removed afterwards),
# patch applied there, check pointed at it with VERIF_REPO.  /repo itself is never modified.
# usage: rerun_seeds.sh [round letters, default "a b c d e f g"]   (e.g. "g f" = only the two latest rounds, latest first)
cd /verif
rounds=${1:-"a b c d e f g"}
for r in $rounds; do
for d in seeded/C*-$r; do
  [ -d "$d" ] || continue
  sid=$(basename $d); id=${sid%%-*}
  wt=/tmp/wt_re_$sid
  git -C /repo worktree add -q $wt HEAD 2>/dev/null
  pf=$PWD/$d/patch.diff; for alt in $PWD/$d/patch_rebased_*.diff; do [ -f "$alt" ] && pf=$alt; done
  if git -C $wt apply $pf 2>/dev/null || git -C $wt apply --3way $pf 2>/dev/null; then
    VERIF_REPO=$wt ./check $id > /tmp/re_$sid.txt 2>&1; ec=$?
    echo "$sid exit=$ec $(grep -c '^VIOLATION' /tmp/re_$sid.txt) violations, $(grep -c '^HARNESS' /tmp/re_$sid.txt) harness errors"
  else
    echo "$sid PATCH-DOES-NOT-APPLY"
  fi
  git -C /repo worktree remove --force $wt
done
done
