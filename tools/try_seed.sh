#!/bin/sh
# usage: try_seed.sh <Cxx> <worktree> [other check ids...]  -- confirm a seeded change in its scratch worktree, then run the quick check(s) against it
id=$1; wt=$2; shift 2
sh /verif/tools/confirm_seed.sh $id $wt
cd $wt && git apply seed/patch.diff || exit 2
cd /verif
for c in $id "$@"; do
  VERIF_REPO=$wt ./check $c > /tmp/try_${c}_$(basename $wt).txt 2>&1; ec=$?
  echo "check $c exit=$ec: $(grep -c '^VIOLATION' /tmp/try_${c}_$(basename $wt).txt) violations, $(grep -c '^HARNESS' /tmp/try_${c}_$(basename $wt).txt) harness errors"
  grep '^VIOLATION' /tmp/try_${c}_$(basename $wt).txt | sed 's/.*signature=//' | sort | uniq -c | sort -rn | head -5
  tail -1 /tmp/try_${c}_$(basename $wt).txt | cut -c1-200
done
git -C $wt checkout -q -- .
