#!/bin/sh
# Build the overlay interpreter used by every check (offline; wheelhouse only).
set -e
cd "$(dirname "$0")"
if [ ! -x .venv/bin/python ] || ! .venv/bin/python -c "import z3, crosshair, numpy" 2>/dev/null; then
  rm -rf .venv
  /venv/bin/python -m venv .venv
  echo "import site; site.addsitedir('/venv/lib/python3.12/site-packages')" \
      > .venv/lib/python3.12/site-packages/_base.pth
  PIP_NO_INDEX=1 .venv/bin/pip install -q --no-index --find-links /opt/veriftools/wheels z3-solver crosshair-tool
fi
.venv/bin/python -c "import z3, crosshair, numpy, scipy, Cython; print('setup ok: z3', z3.get_version_string(), 'numpy', numpy.__version__, 'Cython', Cython.__version__)"
