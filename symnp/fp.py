"""Bit-precise IEEE-754 scalar for the FP float model (z3 FloatingPoint sort, round-to-nearest-even).
Used only by harnesses that ask whether an exact floating-point comparison can fail."""
import numbers

import z3

from . import core
from .core import SVal, SBool

RM = z3.RNE()
SORTS = {'fp16': z3.Float16(), 'fp32': z3.Float32(), 'fp64': z3.Float64()}


class SFP(SVal):
    __slots__ = ('t',)

    def __init__(self, t):
        self.t = t

    @staticmethod
    def lift(x, sort):
        if isinstance(x, SFP):
            return x.t
        if isinstance(x, (int, float)):
            return z3.FPVal(float(x), sort)
        if isinstance(x, core.SFloat) and core._isc(x.k) and core._isc(x.v):
            return z3.FPVal(float(x.v), sort)
        raise core.Unsupported('cannot mix %r with an FP-model value' % type(x).__name__)

    def _b(self, o, f, rev=False):
        s = self.t.sort()
        a, b = self.t, SFP.lift(o, s)
        if rev:
            a, b = b, a
        return SFP(f(RM, a, b))

    def __add__(self, o): return self._b(o, z3.fpAdd)
    def __radd__(self, o): return self._b(o, z3.fpAdd, True)
    def __sub__(self, o): return self._b(o, z3.fpSub)
    def __rsub__(self, o): return self._b(o, z3.fpSub, True)
    def __mul__(self, o): return self._b(o, z3.fpMul)
    def __rmul__(self, o): return self._b(o, z3.fpMul, True)
    def __truediv__(self, o): return self._b(o, z3.fpDiv)
    def __rtruediv__(self, o): return self._b(o, z3.fpDiv, True)
    def __neg__(self): return SFP(z3.fpNeg(self.t))
    def __abs__(self): return SFP(z3.fpAbs(self.t))
    def __pos__(self): return self

    def _c(self, o, f, rev=False):
        a, b = self.t, SFP.lift(o, self.t.sort())
        if rev:
            a, b = b, a
        return SBool.mk(f(a, b))

    def __lt__(self, o): return self._c(o, z3.fpLT)
    def __le__(self, o): return self._c(o, z3.fpLEQ)
    def __gt__(self, o): return self._c(o, z3.fpGT)
    def __ge__(self, o): return self._c(o, z3.fpGEQ)
    def __eq__(self, o): return self._c(o, z3.fpEQ)
    def __ne__(self, o): return core.snot(self._c(o, z3.fpEQ))
    __hash__ = None

    def __bool__(self):
        return bool(self != 0.0)

    def __repr__(self):
        return '<SFP>'

    def __format__(self, spec):
        return '<SFP>'

    @property
    def dtype(self):
        import numpy
        return numpy.dtype('float64')

    shape = ()
    ndim = 0


numbers.Real.register(SFP)


def fresh_fp(base, model='fp32', positive_normal=True):
    ctx = core.cur()
    t = z3.FP(ctx.name(base), SORTS[model])
    if positive_normal:
        ctx.add(z3.And(z3.fpIsNormal(t), z3.fpGT(t, z3.FPVal(0.0, SORTS[model]))))
    return SFP(t)


def fp_value(model, x):
    """python float of an SFP under a z3 model"""
    v = model.eval(x.t, model_completion=True)
    s = v.sort()
    # exact conversion through the bit pattern
    bv = model.eval(z3.fpToIEEEBV(v), model_completion=True).as_long()
    import struct
    if s.sbits() + s.ebits() == 32:
        return struct.unpack('>f', bv.to_bytes(4, 'big'))[0]
    if s.sbits() + s.ebits() == 64:
        return struct.unpack('>d', bv.to_bytes(8, 'big'))[0]
    if s.sbits() + s.ebits() == 16:
        return struct.unpack('>e', bv.to_bytes(2, 'big'))[0]
    raise core.Unsupported('fp sort')
