"""Element-wise (ufunc) semantics for SArr."""
import math
import operator

import numpy as _np

from . import core
from .core import (SVal, SBool, SInt, SFloat, Unsupported, ite, as_sfloat, fl_arith, fl_cmp,
                   fl_sqrt, fl_log, fl_exp, snot, AND, OR, NOT, I)
from .arr import (SArr, _raw, norm_cell, coerce, _unlazy, _scalar_dtype, _py_standin, LazyMasked)

_nd = _np.ndarray


def s_isnan(x):
    if type(x).__name__ == 'SFP':
        import z3
        return SBool.mk(z3.fpIsNaN(x.t))
    if isinstance(x, SFloat):
        return SBool.mk(x.nan)
    if isinstance(x, (SInt, SBool)):
        return False
    return bool(_np.isnan(x))


def _is_sfp(x):
    return type(x).__name__ == 'SFP'


def s_isinf(x):
    if _is_sfp(x):
        import z3
        return SBool.mk(z3.fpIsInf(x.t))
    if isinstance(x, SFloat):
        return SBool.mk(OR(x.pinf, x.ninf))
    if isinstance(x, (SInt, SBool)):
        return False
    return bool(_np.isinf(x))


def s_isfinite(x):
    if _is_sfp(x):
        import z3
        return SBool.mk(z3.Not(z3.Or(z3.fpIsInf(x.t), z3.fpIsNaN(x.t))))
    if isinstance(x, SFloat):
        return SBool.mk(x.fin)
    if isinstance(x, (SInt, SBool)):
        return True
    return bool(_np.isfinite(x))


def s_max(a, b, propagate_nan=True):
    """np.maximum semantics (NaN propagates); np.fmax when propagate_nan=False"""
    fa = isinstance(a, (float, SFloat)) or isinstance(b, (float, SFloat))
    if fa:
        an, bn = s_isnan(a), s_isnan(b)
        r = ite(a < b, b, a)
        if propagate_nan:
            return ite(an, a, ite(bn, b, r))
        return ite(an, b, ite(bn, a, r))
    return ite(a < b, b, a)


def s_min(a, b, propagate_nan=True):
    fa = isinstance(a, (float, SFloat)) or isinstance(b, (float, SFloat))
    if fa:
        an, bn = s_isnan(a), s_isnan(b)
        r = ite(b < a, b, a)
        if propagate_nan:
            return ite(an, a, ite(bn, b, r))
        return ite(an, b, ite(bn, a, r))
    return ite(b < a, b, a)


def _truediv(a, b):
    if type(a).__name__ == 'SFP' or type(b).__name__ == 'SFP':
        return a / b
    return fl_arith('/', as_sfloat(a), as_sfloat(b))


def _band(a, b):
    if isinstance(a, (bool, SBool)) and isinstance(b, (bool, SBool)):
        return a & b
    # integer & boolean: only bit 0 survives
    if isinstance(a, int) and isinstance(b, SBool):
        return ite(b, a & 1, 0)
    if isinstance(b, int) and isinstance(a, SBool):
        return ite(a, b & 1, 0)
    raise Unsupported('bitwise_and on symbolic integers')


def _bor(a, b):
    if isinstance(a, (bool, SBool)) and isinstance(b, (bool, SBool)):
        return a | b
    raise Unsupported('bitwise_or on symbolic integers')


def _bxor(a, b):
    if isinstance(a, (bool, SBool)) and isinstance(b, (bool, SBool)):
        return a ^ b
    raise Unsupported('bitwise_xor on symbolic integers')


def _binv(a):
    if isinstance(a, (bool, SBool)):
        return snot(a)
    raise Unsupported('invert on symbolic integers')


def _truth(a):
    if isinstance(a, (bool, SBool)):
        return a
    return a != 0


def _power(a, b):
    if isinstance(b, SVal):
        raise Unsupported('symbolic exponent')
    return a ** b


def _sign(a):
    return ite(a > 0, 1, ite(a < 0, -1, 0)) if not isinstance(a, (float, SFloat)) else \
        ite(a > 0, 1.0, ite(a < 0, -1.0, a * 0.0))


def _abs(a):
    return abs(a)


def _log2(a):
    return fl_log(a) / fl_log(2.0)


def _log10(a):
    return fl_log(a) / fl_log(10.0)


SYM = {
    'add': lambda a, b: a + b,
    'subtract': lambda a, b: a - b,
    'multiply': lambda a, b: a * b,
    'true_divide': _truediv,
    'divide': _truediv,
    'floor_divide': lambda a, b: a // b,
    'remainder': lambda a, b: a % b,
    'negative': lambda a: -a,
    'positive': lambda a: a,
    'absolute': _abs,
    'fabs': _abs,
    'square': lambda a: core.fl_square(a),
    'sqrt': lambda a: fl_sqrt(a),
    'log': lambda a: fl_log(a),
    'log2': _log2,
    'log10': _log10,
    'exp': lambda a: fl_exp(a),
    'power': _power,
    'less': lambda a, b: a < b,
    'less_equal': lambda a, b: a <= b,
    'greater': lambda a, b: a > b,
    'greater_equal': lambda a, b: a >= b,
    'equal': lambda a, b: a == b,
    'not_equal': lambda a, b: a != b,
    'logical_and': lambda a, b: _truth(a) & _truth(b),
    'logical_or': lambda a, b: _truth(a) | _truth(b),
    'logical_xor': lambda a, b: _truth(a) ^ _truth(b),
    'logical_not': lambda a: snot(_truth(a)),
    'bitwise_and': _band,
    'bitwise_or': _bor,
    'bitwise_xor': _bxor,
    'invert': _binv,
    'maximum': lambda a, b: s_max(a, b, True),
    'minimum': lambda a, b: s_min(a, b, True),
    'fmax': lambda a, b: s_max(a, b, False),
    'fmin': lambda a, b: s_min(a, b, False),
    'isnan': s_isnan,
    'isinf': s_isinf,
    'isfinite': s_isfinite,
    'sign': _sign,
    'conjugate': lambda a: a,
}


def _dry_dtype(ufunc, ins):
    """result dtype by running the real ufunc on empty typed arrays / python scalars"""
    args = []
    for x in ins:
        if isinstance(x, SArr):
            args.append(_np.empty((0,) * max(x.ndim, 1), dtype=x.ldtype) if x.ndim else _np.zeros((), dtype=x.ldtype))
        elif isinstance(x, _nd):
            args.append(_np.empty((0,) * max(x.ndim, 1), dtype=x.dtype) if x.ndim else _np.zeros((), dtype=x.dtype))
        else:
            args.append(_py_standin(x))
    with _np.errstate(all='ignore'):
        if all(not isinstance(a, _nd) for a in args):
            r = ufunc(*[_np.asarray(a) if not isinstance(a, _np.generic) else a for a in args])
        else:
            r = ufunc(*args)
    return r.dtype


def _in_dtype(x):
    if isinstance(x, SArr):
        return x.ldtype
    if isinstance(x, _nd):
        return x.dtype
    return _scalar_dtype(x)


def apply_cells(ufunc, cells, in_dts, out_dt):
    """one element of an element-wise operation"""
    if not any(isinstance(c, SVal) for c in cells):
        with _np.errstate(all='ignore'):
            if ufunc.__name__ in ('true_divide', 'divide') and in_dts and all(d.kind in 'iub' for d in in_dts):
                r = ufunc(*[_np.float64(c) for c in cells])
            else:
                try:
                    r = ufunc(*[(d.type(c) if d.kind != 'O' else c) for c, d in zip(cells, in_dts)])
                except (OverflowError,):
                    r = ufunc(*cells)
        return norm_cell(r)
    f = SYM.get(ufunc.__name__)
    if f is None:
        raise Unsupported('ufunc %s on symbolic cells' % ufunc.__name__)
    # numpy casts inputs to the loop dtype first: ints used by a float loop become floats
    if out_dt.kind == 'f' or ufunc.__name__ in ('true_divide', 'divide', 'sqrt', 'log', 'exp'):
        cells = [as_sfloat(c) if isinstance(c, (SInt, SBool)) else
                 (float(c) if isinstance(c, (int, bool)) and not isinstance(c, SVal) and out_dt.kind == 'f'
                  and ufunc.__name__ not in ('power',) else c)
                 for c in cells]
        cells = [SFloat.mk(c.k, c.v) if isinstance(c, SFloat) else c for c in cells]
    if any(type(c).__name__ == 'SFP' for c in cells):
        cells = [float(c) if isinstance(c, (int, bool)) and not isinstance(c, SVal) else c for c in cells]
    r = f(*cells)
    return r


def array_ufunc(ufunc, method, inputs, kwargs):
    inputs = tuple(_unlazy(x) for x in inputs)
    out = kwargs.pop('out', None)
    where = kwargs.pop('where', True)
    where = _unlazy(where)
    if isinstance(out, tuple):
        if len(out) != 1:
            raise Unsupported('multiple outputs')
        out = out[0]
    if method == '__call__':
        r = ufunc_call(ufunc, inputs, out, where, kwargs)
        if out is None and isinstance(r, SArr) and r.ndim == 2 and any(type(x).__name__ == 'SymMatrix' for x in inputs) \
                and type(r).__name__ != 'SymMatrix':
            from .arr import SymMatrix
            r2 = r.view(SymMatrix)
            r2.ldtype = r.ldtype
            return r2
        return r
    if method == 'reduce':
        from . import funcs
        return funcs.ufunc_reduce(ufunc, inputs[0], out=out, where=where, **kwargs)
    if method == 'outer':
        a, b = inputs
        a = a if isinstance(a, _nd) else _np.asarray(a)
        b = b if isinstance(b, _nd) else _np.asarray(b)
        a2 = a.reshape(a.shape + (1,) * b.ndim)
        return ufunc_call(ufunc, (a2, b), out, where, kwargs)
    if method == 'at':
        a, idx = inputs[0], inputs[1]
        vals = inputs[2] if len(inputs) > 2 else None
        from . import funcs
        return funcs.ufunc_at(ufunc, a, idx, vals)
    raise Unsupported('ufunc method %s' % method)


def _concrete_input(x):
    if isinstance(x, SArr):
        return x.is_concrete()
    if isinstance(x, SVal):
        return False
    return True


def ufunc_call(ufunc, inputs, out, where, kwargs):
    if ufunc.signature is not None:
        if ufunc.__name__ == 'matmul':
            from . import funcs
            r = funcs.np_matmul(*inputs)
            if out is not None:
                out[...] = r
                return out
            return r
        raise Unsupported('generalized ufunc %s' % ufunc.__name__)
    dtype_kw = kwargs.get('dtype', None)
    masked_no_out = (where is not True) and out is None
    all_conc = all(_concrete_input(x) for x in inputs) and _concrete_input(where) and \
        (out is None or _concrete_input(out))
    if all_conc and not masked_no_out and (core.active() or True):
        args = [x.typed() if isinstance(x, SArr) else x for x in inputs]
        kw = dict(kwargs)
        w = where.typed() if isinstance(where, SArr) else where
        if w is not True:
            kw['where'] = w
        with _np.errstate(all='ignore'):
            if out is not None:
                if isinstance(out, SArr):
                    tmp = out.typed()
                    ufunc(*args, out=tmp, **kw)
                    _raw(out)[...] = _raw(SArr.from_typed(tmp))
                    return out
                return ufunc(*args, out=out, **kw)
            r = ufunc(*args, **kw)
        if isinstance(r, _nd):
            return SArr.from_typed(r)
        return r   # numpy scalar
    # ---- symbolic element-wise path -----------------------------------------------------
    out_dt = _np.dtype(dtype_kw) if dtype_kw is not None else _dry_dtype(ufunc, inputs)
    in_dts = [_in_dtype(x) for x in inputs]
    arrs = []
    for x in inputs:
        if isinstance(x, _nd):
            arrs.append(_raw(x) if isinstance(x, SArr) else x)
        elif isinstance(x, (list, tuple)):
            arrs.append(_raw(SArr(list(x), _scalar_dtype(_first_leaf(x)))))
        else:
            o = _np.empty((), dtype=object)
            o[()] = norm_cell(x)
            arrs.append(o)
    wh = None
    if where is not True:
        wh = _raw(where) if isinstance(where, _nd) else _np.asarray(where)
        arrs.append(wh)
    bs = _np.broadcast_shapes(*[a.shape for a in arrs])
    barrs = [_np.broadcast_to(a, bs) for a in arrs]
    if out is not None:
        if not isinstance(out, SArr):
            raise Unsupported('symbolic result into a real ndarray out=')
        if out.shape != bs:
            raise ValueError('non-broadcastable output operand')
        res = _raw(out)
        res_dt = out.ldtype
    else:
        # NumPy allocates element-wise results in 'K' order: column-major when the array operands are column-major.
        # The layout is observable (ravel()/reshape() return views or copies depending on it), so it is reproduced by
        # asking NumPy itself on dummies of the same shapes and orders.
        order = 'C'
        if len(bs) >= 2:
            try:
                probe = None
                for a in arrs[:len(inputs)]:
                    if a.ndim == 0:
                        continue
                    d = _np.empty(a.shape, dtype=_np.int8, order='F' if (a.flags.f_contiguous and not a.flags.c_contiguous) else 'C')
                    if not (a.flags.f_contiguous or a.flags.c_contiguous):
                        d = _np.empty(a.shape, dtype=_np.int8)
                    probe = d if probe is None else _np.add(probe, d)
                if probe is not None and probe.shape == tuple(bs) and probe.flags.f_contiguous and not probe.flags.c_contiguous:
                    order = 'F'
            except Exception:
                order = 'C'
        res = _np.empty(bs, dtype=object, order=order)
        res_dt = out_dt
    nin = len(inputs)
    scalar_result = (out is None and all(not isinstance(x, _nd) or x.ndim == 0 for x in inputs)
                     and all(not isinstance(x, _nd) for x in inputs))
    for ix in _np.ndindex(bs):
        cells = [norm_cell(b[ix]) for b in barrs[:nin]]
        v = apply_cells(ufunc, cells, in_dts, out_dt)
        v = coerce(v, res_dt) if res_dt.kind != 'O' else v
        if wh is not None:
            m = norm_cell(barrs[nin][ix])
            if out is not None:
                old = res[ix]
            else:
                old = _garbage(res_dt)
            v = ite(m, v, old)
        res[ix] = v
    if out is not None:
        return out
    if bs == () and all(not isinstance(x, _nd) for x in inputs):
        return res[()]
    r = res.view(SArr)
    r.ldtype = res_dt
    if bs == ():
        # numpy returns a scalar for 0-d results
        c = res[()]
        return c if isinstance(c, SVal) else res_dt.type(c)
    return r


def _first_leaf(x):
    while isinstance(x, (list, tuple)) and len(x):
        x = x[0]
    return x


def _garbage(dt):
    """content of memory NumPy did not initialise"""
    if dt.kind == 'f':
        return core.fresh_garbage('uninit')
    if dt.kind in 'iu':
        return core.fresh_int('uninit')
    if dt.kind == 'b':
        return core.fresh_bool('uninit')
    raise Unsupported('uninitialised %s' % dt)


def scalar_ufunc(ufunc, args, kwargs):
    """ufunc called on scalars at least one of which is symbolic"""
    if kwargs:
        kwargs = {k: v for k, v in kwargs.items() if not (k == 'where' and v is True) and not (k == 'out' and v is None)}
        if kwargs:
            return ufunc_call(ufunc, tuple(args), kwargs.pop('out', None), kwargs.pop('where', True), kwargs)
    in_dts = [_scalar_dtype(a) for a in args]
    out_dt = _dry_dtype(ufunc, args)
    return apply_cells(ufunc, [norm_cell(a) for a in args], in_dts, out_dt)
