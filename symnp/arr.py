"""E1: SArr -- an ndarray subclass (dtype=object) whose cells are Python numbers or S* values.

Structure (shapes, views, write-through aliasing, basic/fancy indexing with concrete
indices, reshape, concatenate ...) is NumPy's own behaviour on the object array.  Values
are computed symbolically.  A logical dtype is carried in `.ldtype` and reported as `.dtype`.
Whenever every cell involved is concrete, operations are delegated to real NumPy on typed
arrays and re-wrapped.
"""
import builtins
import itertools
import math
import operator

import numpy as _np

from . import core
from .core import (SVal, SBool, SInt, SFloat, Unsupported, ite, is_sym, as_sfloat,
                   fl_arith, fl_cmp, fl_sqrt, fl_log, fl_exp, snot, AND, OR, NOT, I, EQ)

_nd = _np.ndarray


def _raw(a):
    """plain object ndarray view of an SArr"""
    return _nd.view(a, _nd) if isinstance(a, SArr) else a


def norm_cell(c):
    """numpy scalars -> python scalars"""
    if isinstance(c, _np.generic):
        return c.item()
    return c


def coerce(c, dt):
    """coerce one cell value to logical dtype dt"""
    c = norm_cell(c)
    k = dt.kind
    if k == 'f':
        if isinstance(c, SFloat) or type(c).__name__ == 'SFP':
            return c
        if isinstance(c, (SInt, SBool)):
            return SFloat.mk(0, as_sfloat(c).v)
        if isinstance(c, float):
            return c
        if isinstance(c, (int, bool)):
            return float(c)
        if isinstance(c, complex):
            return float(c.real)
        if c is None:
            return math.nan
        return float(c)
    if k in 'iu':
        if isinstance(c, SInt):
            if dt.itemsize < 8 and core.active():
                # mathematical integers stand in for machine words: a value stored into a narrow integer array must be
                # representable there, otherwise NumPy wraps silently (astype / in-place arithmetic) - recorded as an obligation
                info = _np.iinfo(dt)
                core.cur().wrap_obligations.append((str(dt), (c >= int(info.min)) & (c <= int(info.max))))
            return c
        if isinstance(c, SBool):
            return core._int_of_bool(c)
        if isinstance(c, SFloat):
            # a real that is the image of an integer term (int -> float -> int round trip) converts back exactly
            import z3 as _z3
            if core._isc(c.k) and c.k == 0 and isinstance(c.v, _z3.ExprRef) and _z3.is_app(c.v) \
                    and c.v.decl().kind() == _z3.Z3_OP_TO_REAL:
                return SInt.mk(c.v.arg(0))
            if core.active() and c.fin is True:
                # a finite float stored into an integer array is truncated toward zero (C cast); values beyond the range of
                # the element type are undefined behaviour in NumPy and are recorded as a wrap obligation
                t = core.fresh_int('trunc')
                tv, cv = _z3.ToReal(t.t), c.v
                core.cur().add(_z3.If(cv >= 0, _z3.And(tv <= cv, cv < tv + 1), _z3.And(tv - 1 < cv, cv <= tv)))
                info = _np.iinfo(dt)
                core.cur().wrap_obligations.append((str(dt), (t >= int(info.min)) & (t <= int(info.max))))
                return t
            raise Unsupported('possibly non-finite symbolic float stored into an integer array')
        if isinstance(c, float):
            if math.isnan(c) or math.isinf(c):
                raise ValueError('cannot convert float NaN/inf to integer')
            return int(c)
        return int(c)
    if k == 'b':
        if isinstance(c, SBool):
            return c
        if isinstance(c, SInt):
            return c != 0
        if isinstance(c, SFloat):
            return c != 0.0
        return bool(c)
    if k == 'O':
        return c
    if k == 'c':
        return c
    raise Unsupported('dtype %s' % dt)


def _scalar_dtype(x):
    if isinstance(x, (bool, SBool, _np.bool_)):
        return _np.dtype(bool)
    if isinstance(x, (SInt,)):
        return _np.dtype('int64')
    if isinstance(x, (SFloat,)):
        return _np.dtype('float64')
    if isinstance(x, _np.generic):
        return x.dtype
    if isinstance(x, int):
        return _np.dtype('int64')
    if isinstance(x, float):
        return _np.dtype('float64')
    if isinstance(x, complex):
        return _np.dtype('complex128')
    return _np.dtype(object)


def _py_standin(x):
    """python scalar standing in for a (possibly symbolic) scalar in dtype dry-runs"""
    if isinstance(x, (bool, SBool)):
        return False
    if isinstance(x, SInt):
        return 0
    if isinstance(x, SFloat):
        return 0.0
    return x


class SArr(_nd):
    """Symbolic array.  Always dtype=object underneath."""

    __array_priority__ = 100.0

    def __new__(cls, cells, ldtype, shape=None):
        ldtype = _np.dtype(ldtype)
        if isinstance(cells, _nd):
            src = _raw(cells)
            obj = _np.empty(src.shape, dtype=object)
            if src.size:
                flat = obj.reshape(-1)
                sflat = src.reshape(-1)
                for i in range(sflat.shape[0]):
                    flat[i] = coerce(sflat[i], ldtype)
        else:
            # nested python lists of cells (possibly containing SArr / arrays)
            if shape is None:
                shape = _infer_shape(cells)
            obj = _np.empty(shape, dtype=object)
            if obj.size:
                flat = obj.reshape(-1)
                for i, c in enumerate(_flatten_to(cells, len(shape))):
                    flat[i] = coerce(c, ldtype)
        obj = obj.view(cls)
        obj.ldtype = ldtype
        return obj

    def __array_finalize__(self, obj):
        if obj is None:
            return
        self.ldtype = getattr(obj, 'ldtype', None)

    # ---- logical dtype ------------------------------------------------------------------
    @property
    def dtype(self):
        return self.ldtype if self.ldtype is not None else _nd.dtype.__get__(self)

    @property
    def itemsize(self):
        return self.dtype.itemsize

    @property
    def nbytes(self):
        return self.dtype.itemsize * self.size

    def is_concrete(self):
        r = _raw(self)
        if not r.size:
            return True
        for c in r.flat:
            if isinstance(c, SVal):
                return False
        return True

    def typed(self):
        """real typed ndarray (cells must be concrete)"""
        r = _raw(self)
        out = _np.empty(r.shape, dtype=self.ldtype)
        if r.size:
            of = out.reshape(-1)
            for i, c in enumerate(r.flat):
                if isinstance(c, SVal):
                    raise Unsupported('typed() on symbolic cells')
                of[i] = c
        return out

    @staticmethod
    def from_typed(arr):
        arr = _np.asarray(arr)
        if arr.dtype == object:
            o = _np.empty(arr.shape, dtype=object)
            if arr.size:
                o.reshape(-1)[:] = [norm_cell(c) for c in arr.flat]
            o = o.view(SArr)
            o.ldtype = _np.dtype(object)
            return o
        o = _np.empty(arr.shape, dtype=object)
        if arr.size:
            of = o.reshape(-1)
            lst = arr.reshape(-1).tolist()
            for i in range(len(lst)):
                of[i] = lst[i]
        o = o.view(SArr)
        o.ldtype = arr.dtype
        return o

    def cells(self):
        return list(_raw(self).flat)

    # ---- conversions -----------------------------------------------------------------------
    def astype(self, dt, *a, **k):
        dt = _np.dtype(dt)
        r = SArr(_raw(self), dt)
        return r.view(type(self)) if type(self) is not SArr else r

    def copy(self, order='C'):
        r = _nd.copy(_raw(self), order=order).view(type(self))
        r.ldtype = self.ldtype
        return r

    def __copy__(self):
        return self.copy()

    def __deepcopy__(self, memo):
        return self.copy()

    def fill(self, v):
        v = coerce(v, self.ldtype)
        r = _raw(self)
        if r.ndim == 0:
            r[()] = v
        else:
            f = r.reshape(-1) if r.flags.c_contiguous else None
            if f is not None:
                for i in range(f.shape[0]):
                    f[i] = v
            else:
                for ix in _np.ndindex(r.shape):
                    r[ix] = v

    def tolist(self):
        return _raw(self).tolist()

    def item(self, *a):
        c = _raw(self).item(*a)
        return c

    def __bool__(self):
        if self.size != 1:
            raise ValueError('The truth value of an array with more than one element is ambiguous. '
                             'Use a.any() or a.all()')
        c = _raw(self).reshape(-1)[0]
        return bool(c)

    def __index__(self):
        if self.size != 1 or self.ldtype.kind not in 'iu':
            raise TypeError('only integer scalar arrays can be converted to a scalar index')
        return operator.index(_raw(self).reshape(-1)[0])

    def __int__(self):
        if self.size != 1:
            raise TypeError('only length-1 arrays can be converted to Python scalars')
        return int(_raw(self).reshape(-1)[0])

    def __float__(self):
        if self.size != 1:
            raise TypeError('only length-1 arrays can be converted to Python scalars')
        return float(_raw(self).reshape(-1)[0])

    def __repr__(self):
        return 'SArr(shape=%s, dtype=%s)' % (self.shape, self.ldtype)

    def __format__(self, spec):
        return repr(self)

    __str__ = __repr__

    def __iter__(self):
        if self.ndim == 0:
            raise TypeError('iteration over a 0-d array')
        for i in range(self.shape[0]):
            yield self[i]

    def __contains__(self, x):
        return bool((self == x).any())

    # ---- indexing --------------------------------------------------------------------------
    def _scalar_out(self, c):
        if isinstance(c, SVal) or self.ldtype is None or self.ldtype.kind == 'O':
            return c
        if isinstance(c, _nd):
            return c
        return self.ldtype.type(c)

    def __getitem__(self, idx):
        idx, sym = _norm_index(idx)
        if not sym:
            r = _nd.__getitem__(self, idx)
            if isinstance(r, SArr):
                return r
            return self._scalar_out(r)
        return _sym_getitem(self, idx)

    def __setitem__(self, idx, val):
        idx, sym = _norm_index(idx)
        if not sym:
            val = _unlazy(val)
            if self.ldtype is not None and self.ldtype.kind != 'O' and isinstance(val, (_nd, list, tuple)) and _np.ndim(val) > 0:
                # NumPy refuses to store a sequence in ONE cell of a numeric array; the object cells underneath would take it
                try:
                    single = _np.ndim(_np.empty(self.shape, dtype=bool)[idx]) == 0
                except Exception:
                    single = False
                if single:
                    raise ValueError('setting an array element with a sequence.')
            _nd.__setitem__(_raw(self), idx, _coerce_value(val, self.ldtype))
            return
        _sym_setitem(self, idx, val)

    # ---- ufuncs / functions ----------------------------------------------------------------
    def __array_ufunc__(self, ufunc, method, *inputs, **kwargs):
        from . import ufuncs
        return ufuncs.array_ufunc(ufunc, method, inputs, kwargs)

    def __array_function__(self, func, types, args, kwargs):
        from . import funcs
        return funcs.array_function(func, args, kwargs)

    def __array__(self, dtype=None, copy=None):
        # conversion to a real array is only possible when concrete
        if dtype is not None and _np.dtype(dtype) == object:
            return _raw(self)
        t = self.typed()
        return t.astype(dtype) if dtype is not None else t

    # ---- methods that must see symbolic cells ----------------------------------------------
    def _red(self, name, *a, **k):
        from . import funcs
        return getattr(funcs, 'np_' + name)(self, *a, **k)

    def sum(self, *a, **k): return self._red('sum', *a, **k)
    def max(self, *a, **k): return self._red('max', *a, **k)
    def min(self, *a, **k): return self._red('min', *a, **k)
    def argmax(self, *a, **k): return self._red('argmax', *a, **k)
    def argmin(self, *a, **k): return self._red('argmin', *a, **k)
    def all(self, *a, **k): return self._red('all', *a, **k)
    def any(self, *a, **k): return self._red('any', *a, **k)
    def mean(self, *a, **k): return self._red('mean', *a, **k)
    def prod(self, *a, **k): return self._red('prod', *a, **k)
    def cumsum(self, *a, **k): return self._red('cumsum', *a, **k)
    def dot(self, o): return self._red('dot', o)
    def nonzero(self): return self._red('nonzero')
    def argsort(self, *a, **k): return self._red('argsort', *a, **k)
    def searchsorted(self, *a, **k): return self._red('searchsorted', *a, **k)
    def round(self, *a, **k): return self._red('round', *a, **k)
    def clip(self, *a, **k): return self._red('clip', *a, **k)
    def trace(self, *a, **k): return self._red('trace', *a, **k)
    def diagonal(self, *a, **k): return self._red('diagonal', *a, **k)

    def sort(self, *a, **k):
        from . import funcs
        r = funcs.np_sort(self, *a, **k)
        _raw(self)[...] = _raw(r)

    def conj(self): return self
    conjugate = conj

    @property
    def real(self):
        return self

    @property
    def imag(self):
        from . import funcs
        return funcs.np_zeros(self.shape, dtype=self.ldtype)

    def flatten(self, order='C'):
        r = _nd.flatten(_raw(self), order).view(SArr)
        r.ldtype = self.ldtype
        return r

    def todense(self):
        return self

    def toarray(self):
        return self


# ------------------------------------------------------------------------------------------
# helpers
# ------------------------------------------------------------------------------------------

def _infer_shape(x):
    if isinstance(x, _nd):
        return tuple(x.shape)
    if isinstance(x, (list, tuple)):
        if len(x) == 0:
            return (0,)
        s0 = _infer_shape(x[0])
        for y in x[1:]:
            if _infer_shape(y) != s0:
                raise ValueError('setting an array element with a sequence. The requested array '
                                 'has an inhomogeneous shape')
        return (len(x),) + s0
    return ()


def _flatten_to(x, nd):
    if nd == 0:
        if isinstance(x, _nd):
            yield _raw(x)[()] if x.ndim == 0 else x
        else:
            yield x
        return
    if isinstance(x, _nd):
        for c in _raw(x).reshape(-1):
            yield c
        return
    for y in x:
        yield from _flatten_to(y, nd - 1)


def _coerce_value(val, dt):
    """value on the RHS of a concrete-index assignment -> object ndarray / scalar"""
    if isinstance(val, SArr):
        if val.ldtype == dt or dt.kind == 'O':
            return _raw(val)
        return _raw(SArr(_raw(val), dt))
    if isinstance(val, _nd):
        return _raw(SArr(SArr.from_typed(val), dt)) if val.dtype != object else val
    if isinstance(val, (list, tuple)):
        try:
            shape = _infer_shape(val)
        except ValueError:
            raise
        return _raw(SArr(val, dt, shape))
    return coerce(val, dt)


class SymMatrix(SArr):
    """np.matrix semantics on top of SArr (what scipy.sparse's todense() / sum(axis) / ndarray-sparse arithmetic return):
    always 2-D, indexing with one integer gives a (1, n) matrix, `*` is the matrix product, reductions keep two dimensions,
    and the class propagates through element-wise arithmetic."""
    __array_priority__ = 10.0

    def __new__(cls, data, ldtype=None, shape=None):
        if ldtype is None:
            # np.matrix(data): a 2-D matrix holding a copy of `data`
            from . import funcs
            a = funcs._as_sarr(_unlazy(data)).copy()
            if a.ndim == 1:
                a = a.reshape((1, -1))
            if a.ndim != 2:
                raise ValueError('matrix must be 2-dimensional')
            r = a.view(SymMatrix)
            r.ldtype = a.ldtype
            return r
        return SArr.__new__(cls, data, ldtype, shape)

    def __array_finalize__(self, obj):
        SArr.__array_finalize__(self, obj)

    def __getitem__(self, index):
        out = SArr.__getitem__(self, index)
        if not isinstance(out, _nd):
            return out
        if out.ndim == 0:
            return _raw(out)[()]
        if out.ndim == 1:
            sh = out.shape[0]
            try:
                n = len(index)
            except Exception:
                n = 0
            r = out.view(SymMatrix)
            r.ldtype = out.ldtype if isinstance(out, SArr) else self.ldtype
            if n > 1 and isinstance(index[1], (int, _np.integer)):
                return r.reshape((sh, 1))
            return r.reshape((1, sh))
        if isinstance(out, SArr) and not isinstance(out, SymMatrix):
            r = out.view(SymMatrix)
            r.ldtype = out.ldtype
            return r
        return out

    def reshape(self, *shape, **kw):
        r = SArr.reshape(self, *shape, **kw)
        if isinstance(r, SArr) and r.ndim == 2 and not isinstance(r, SymMatrix):
            r2 = r.view(SymMatrix)
            r2.ldtype = r.ldtype
            return r2
        return r

    def _collapse(self, r, axis):
        if axis is None:
            return r
        r = r if isinstance(r, SArr) else SArr.from_typed(_np.asarray(r))
        n, m = self.shape
        r = r.reshape((1, m) if axis in (0, -2) else (n, 1))
        r2 = r.view(SymMatrix)
        r2.ldtype = r.ldtype
        return r2

    def sum(self, axis=None, *a, **k): return self._collapse(SArr.sum(self.view_plain(), axis, *a, **k), axis)
    def max(self, axis=None, *a, **k): return self._collapse(SArr.max(self.view_plain(), axis, *a, **k), axis)
    def min(self, axis=None, *a, **k): return self._collapse(SArr.min(self.view_plain(), axis, *a, **k), axis)
    def mean(self, axis=None, *a, **k): return self._collapse(SArr.mean(self.view_plain(), axis, *a, **k), axis)

    def view_plain(self):
        r = self.view(SArr)
        r.ldtype = self.ldtype
        return r

    @property
    def A(self):
        return self.view_plain()

    @property
    def A1(self):
        return self.view_plain().reshape(-1)

    def flatten(self, order='C'):
        r = self.view_plain().reshape(-1).copy().reshape((1, -1)).view(SymMatrix)
        r.ldtype = self.ldtype
        return r

    def __mul__(self, other):
        if isinstance(other, (_nd, list, tuple)):
            from . import funcs
            r = funcs.np_dot(self.view_plain(), funcs._as_sarr(other))
            if isinstance(r, SArr) and r.ndim == 2:
                r2 = r.view(SymMatrix)
                r2.ldtype = r.ldtype
                return r2
            return r
        return SArr.__mul__(self, other)

    def __rmul__(self, other):
        if isinstance(other, (_nd, list, tuple)):
            from . import funcs
            r = funcs.np_dot(funcs._as_sarr(other), self.view_plain())
            if isinstance(r, SArr) and r.ndim == 2:
                r2 = r.view(SymMatrix)
                r2.ldtype = r.ldtype
                return r2
            return r
        return SArr.__rmul__(self, other)

    def __pow__(self, other):
        raise Unsupported('matrix power')


def as_matrix(a):
    """2-D SArr -> SymMatrix sharing the cells"""
    if a.ndim == 1:
        a = a.reshape(1, -1)
    r = a.view(SymMatrix)
    r.ldtype = a.ldtype
    return r


class LazyMasked:
    """`base[mask]` for a symbolic mask; concretised (fork per undecided guard) only on use
    other than as the RHS of an assignment through the same mask."""

    def __init__(self, base, mask):
        self.base = base
        self.mask = mask
        self._forced = None

    def force(self):
        if self._forced is None:
            pos = compress_positions(self.mask)
            b = self.base
            if self.mask.ndim == 1:
                self._forced = b[_np.array(pos, dtype=int)] if pos else b[:0]
            else:
                cols = tuple(_np.array([p[d] for p in pos], dtype=int) for d in range(self.mask.ndim))
                self._forced = b[cols]
        return self._forced

    def __getattr__(self, name):
        return getattr(self.force(), name)

    def __len__(self): return len(self.force())
    def __getitem__(self, i): return self.force()[i]
    def __setitem__(self, i, v): self.force()[i] = v      # the forced array is cached: later reads see the write
    def __iter__(self): return iter(self.force())
    def __array__(self, *a, **k): return self.force().__array__(*a, **k)


def same_mask(m1, m2):
    """identical object, or cell-wise structurally identical terms"""
    if m1 is m2:
        return True
    r1, r2 = _raw(m1), _raw(m2)
    if r1.shape != r2.shape:
        return False
    for a, b in zip(r1.flat, r2.flat):
        if isinstance(a, SBool) and isinstance(b, SBool):
            if not a.t.eq(b.t):
                return False
        elif isinstance(a, SVal) or isinstance(b, SVal):
            return False
        elif bool(a) != bool(b):
            return False
    return True


def _binop_forcer(name):
    def f(self, *a):
        # element-wise operations with a scalar or with another selection through the SAME mask stay lazy:
        # they are applied to every base position; positions outside the mask are never observed.
        if self._forced is None and self.base is not None and type(self) is LazyMasked and len(a) <= 1:
            o = a[0] if a else None
            if o is None or (not isinstance(o, (_nd, list, tuple, LazyMasked))):
                return LazyMasked(getattr(self.base, name)(*a), self.mask)
            if type(o) is LazyMasked and o._forced is None and o.base is not None and same_mask(o.mask, self.mask):
                return LazyMasked(getattr(self.base, name)(o.base), self.mask)
        return getattr(self.force(), name)(*a)
    return f


for _n in ['__add__', '__radd__', '__sub__', '__rsub__', '__mul__', '__rmul__', '__truediv__',
           '__rtruediv__', '__lt__', '__le__', '__gt__', '__ge__', '__eq__', '__ne__', '__neg__',
           '__and__', '__or__', '__invert__', '__pow__', '__floordiv__', '__mod__']:
    setattr(LazyMasked, _n, _binop_forcer(_n))
LazyMasked.__hash__ = None


class LazyIdx(LazyMasked):
    """One component of `np.where(mask)` for a symbolic mask."""

    def __init__(self, mask, axis):
        self.mask = mask
        self.axis = axis
        self.base = None
        self._forced = None

    def force(self):
        if self._forced is None:
            pos = compress_positions(self.mask)
            if self.mask.ndim == 1:
                vals = list(pos)
            else:
                vals = [p[self.axis] for p in pos]
            self._forced = SArr.from_typed(_np.array(vals, dtype=_np.intp))
        return self._forced


class LazyWhere(tuple):
    """Result of np.where(mask) / mask.nonzero() for a symbolic mask."""

    def __new__(cls, mask):
        t = tuple.__new__(cls, [LazyIdx(mask, ax) for ax in range(mask.ndim)])
        t.mask = mask
        return t


_COMPRESS_CACHE = {}


def compress_positions(mask):
    """Fork on every undecided guard of a boolean SArr; returns the list of set positions
    (ints for 1-D masks, index tuples otherwise) in C order."""
    ctx = core.cur()
    key = ('compress', id(mask))
    hit = ctx.memo.get(key)
    if hit is not None and hit[0] is mask:
        return hit[1]
    r = _raw(mask)
    out = []
    if r.ndim == 1:
        for i in range(r.shape[0]):
            if bool(r[i]):
                out.append(i)
    else:
        for ix in _np.ndindex(r.shape):
            if bool(r[ix]):
                out.append(ix)
    ctx.memo[key] = (mask, out)
    ctx.stats['fallback_forks'] = ctx.stats.get('fallback_forks', 0) + 1
    return out


def _unlazy(x):
    if isinstance(x, LazyMasked):
        return x.force()
    if isinstance(x, LazyWhere):
        return tuple(c.force() for c in x)
    return x


def _is_sym_mask(x):
    return isinstance(x, SArr) and x.ldtype is not None and x.ldtype.kind == 'b' and not x.is_concrete()


def _norm_index(idx):
    """Returns (index, symbolic?).  Concrete SArr components become typed arrays; SInt slice
    bounds are concretised; symbolic components are left in place."""
    sym = [False]

    def one(x):
        if isinstance(x, SArr):
            if x.is_concrete():
                return x.typed()
            sym[0] = True
            return x
        if isinstance(x, (SInt, SBool)):
            sym[0] = True
            return x
        if isinstance(x, LazyIdx):
            if x._forced is not None:
                return x._forced.typed()
            sym[0] = True
            return x
        if isinstance(x, LazyMasked):
            return one(x.force())
        if isinstance(x, slice):
            if any(isinstance(p, SVal) for p in (x.start, x.stop, x.step)):
                return slice(*[None if p is None else operator.index(p)
                               for p in (x.start, x.stop, x.step)])
            return x
        if isinstance(x, tuple):
            x = list(x)          # NumPy treats a tuple inside an index tuple as a sequence
        if isinstance(x, list):
            if any(isinstance(c, LazyMasked) for c in x):
                x = [c.force() if isinstance(c, LazyMasked) else c for c in x]
            if any(isinstance(c, SVal) for c in x):
                sym[0] = True
                dt = bool if all(isinstance(c, (bool, SBool)) for c in x) else int
                return SArr(x, dt)
            if any(isinstance(c, (SArr, list)) for c in x):
                return [one(c) for c in x]
            return x
        if isinstance(x, _np.generic):
            return x
        return x

    if isinstance(idx, tuple):
        idx = tuple(one(x) for x in idx)
    else:
        idx = one(idx)
    return idx, sym[0]


def ite_merge(c, a, b):
    """elementwise ite of scalars or same-shape arrays"""
    if isinstance(a, _nd) or isinstance(b, _nd):
        ra, rb = _raw(_np.asarray(a, dtype=object) if not isinstance(a, _nd) else a), \
            _raw(_np.asarray(b, dtype=object) if not isinstance(b, _nd) else b)
        ra, rb = _np.broadcast_arrays(ra, rb)
        out = _np.empty(ra.shape, dtype=object)
        for ix in _np.ndindex(ra.shape):
            out[ix] = ite(c, norm_cell(ra[ix]), norm_cell(rb[ix]))
        out = out.view(SArr)
        out.ldtype = a.ldtype if isinstance(a, SArr) else (b.ldtype if isinstance(b, SArr) else _np.dtype(object))
        return out
    return ite(c, norm_cell(a), norm_cell(b))


def _check_bounds(i, n):
    """NumPy index semantics for a symbolic int: IndexError when out of range; returns the
    non-negative position."""
    ok = (i >= -n) & (i < n)
    if not bool(ok):
        raise IndexError('index out of bounds for axis with size %d' % n)
    return ite(i < 0, i + n, i)


def _sym_getitem(a, idx):
    # mask forms --------------------------------------------------------------------
    m = _as_mask(a, idx)
    if m is not None:
        return LazyMasked(a, m)
    if not isinstance(idx, tuple):
        idx = (idx,)
    # expand Ellipsis-free simple tuple
    for p, x in enumerate(idx):
        if isinstance(x, SInt):
            ax = _axis_of(idx, p)
            n = a.shape[ax]
            pos = _check_bounds(x, n)
            res = None
            for v in range(n - 1, -1, -1):
                sub = a[idx[:p] + (v,) + idx[p + 1:]]
                res = sub if res is None else ite_merge(pos == v, sub, res)
            if res is None:
                raise IndexError('index into empty axis')
            return res
        if isinstance(x, SBool):
            raise Unsupported('SBool index')
    for p, x in enumerate(idx):
        if isinstance(x, SArr):
            if x.ldtype.kind in 'iu':
                others = idx[:p] + idx[p + 1:]
                if any(isinstance(o, (_nd, list)) for o in others):
                    raise Unsupported('symbolic index array combined with other fancy indices')
                if p != 0 and not all(isinstance(o, slice) and o == slice(None) for o in idx[:p]):
                    raise Unsupported('symbolic index array in non-leading position')
                parts = []
                rx = _raw(x)
                for ix in _np.ndindex(rx.shape):
                    parts.append(a[idx[:p] + (rx[ix],) + idx[p + 1:]])
                if parts and isinstance(parts[0], _nd):
                    if p != 0:
                        raise Unsupported('symbolic index array in non-leading position (array result)')
                    out = _np.empty(rx.shape + parts[0].shape, dtype=object)
                    for k, ix in enumerate(_np.ndindex(rx.shape)):
                        out[ix] = _raw(parts[k])
                else:
                    out = _np.empty(rx.shape, dtype=object)
                    for k, ix in enumerate(_np.ndindex(rx.shape)):
                        out[ix] = parts[k]
                out = out.view(SArr)
                out.ldtype = a.ldtype
                return out
            raise Unsupported('symbolic boolean mask in a mixed index')
        if isinstance(x, LazyIdx):
            return a[tuple(_unlazy(y) if isinstance(y, LazyIdx) else y for y in idx)]
    raise Unsupported('symbolic index %r' % (idx,))


def _axis_of(idx, p):
    ax = 0
    for x in idx[:p]:
        if x is None:
            continue
        if x is Ellipsis:
            raise Unsupported('Ellipsis with symbolic index')
        ax += 1
    return ax


def _as_mask(a, idx):
    """If idx denotes a (symbolic) boolean mask selection on `a`, return the mask SArr."""
    if isinstance(idx, SArr) and idx.ldtype.kind == 'b':
        return idx
    if isinstance(idx, LazyIdx) and idx.mask.ndim == 1:
        return idx.mask
    if isinstance(idx, tuple) and len(idx) >= 1 and all(isinstance(x, LazyIdx) for x in idx):
        m = idx[0].mask
        if len(idx) == m.ndim and all(x.mask is m and x.axis == k for k, x in enumerate(idx)):
            return m
    if isinstance(idx, tuple) and len(idx) == 1:
        return _as_mask(a, idx[0])
    return None


def _sym_setitem(a, idx, val):
    ra = _raw(a)
    m = _as_mask(a, idx)
    if m is not None:
        rm = _raw(m)
        if rm.shape != ra.shape[:rm.ndim]:
            raise IndexError('boolean index did not match indexed array')
        if core.cur().resolve_masks:
            rm2 = _np.empty(rm.shape, dtype=object)
            ctx = core.cur()
            for ix in _np.ndindex(rm.shape):
                c = rm[ix]
                if isinstance(c, SBool):
                    f = ctx.forced(c.t)
                    c = c if f is None else f
                rm2[ix] = c
            rm = rm2
        if isinstance(val, LazyMasked) and type(val) is LazyMasked and val._forced is None and val.base is not None \
                and same_mask(val.mask, m):
            src = _raw(val.base)
            for ix in _np.ndindex(rm.shape):
                ra[ix] = ite_merge(rm[ix], _cv(src[ix], a.ldtype), ra[ix]) if rm.ndim < ra.ndim else \
                    ite(rm[ix], coerce(src[ix], a.ldtype), ra[ix])
            return
        val = _unlazy(val)
        if not isinstance(val, (_nd, list, tuple)) or (isinstance(val, _nd) and val.ndim == 0):
            if isinstance(val, _nd):
                val = _raw(val)[()]
            v = coerce(val, a.ldtype)
            for ix in _np.ndindex(rm.shape):
                if rm.ndim < ra.ndim:
                    ra[ix] = _raw(ite_merge(rm[ix], v, a[ix]))
                else:
                    ra[ix] = ite(rm[ix], v, ra[ix])
            return
        # array-valued RHS of compressed length: concretise the mask
        pos = compress_positions(m)
        val = val if isinstance(val, _nd) else SArr(list(val), a.ldtype)
        if val.shape[0] != len(pos) and not (val.ndim >= 1 and val.shape[0] == 1):
            raise ValueError('NumPy boolean array indexing assignment cannot assign %d input values '
                             'to the %d output values where the mask is true' % (val.shape[0], len(pos)))
        for k, p in enumerate(pos):
            a[p] = val[k if val.shape[0] != 1 else 0]
        return
    val = _unlazy(val)
    if not isinstance(idx, tuple):
        idx = (idx,)
    for p, x in enumerate(idx):
        if isinstance(x, SInt):
            ax = _axis_of(idx, p)
            n = a.shape[ax]
            pos = _check_bounds(x, n)
            for v in range(n):
                sub_idx = idx[:p] + (v,) + idx[p + 1:]
                old = a[sub_idx]
                a[sub_idx] = ite_merge(pos == v, _cv(val, a.ldtype), old)
            return
    for p, x in enumerate(idx):
        if isinstance(x, SArr) and x.ldtype.kind in 'iu':
            rx = _raw(x).reshape(-1)
            if isinstance(val, _nd) and val.ndim >= 1:
                vv = _np.broadcast_to(_raw(val), rx.shape + _raw(val).shape[1:]) \
                    if val.shape[0] != rx.shape[0] else _raw(val)
                for k in range(rx.shape[0]):
                    a[idx[:p] + (rx[k],) + idx[p + 1:]] = vv[k]
            else:
                for k in range(rx.shape[0]):
                    a[idx[:p] + (rx[k],) + idx[p + 1:]] = val
            return
        if isinstance(x, LazyIdx):
            a[tuple(_unlazy(y) if isinstance(y, LazyIdx) else y for y in idx)] = val
            return
    raise Unsupported('symbolic assignment index %r' % (idx,))


def _cv(val, dt):
    if isinstance(val, _nd):
        return val if (isinstance(val, SArr) and val.ldtype == dt) else SArr(_raw(val) if isinstance(val, SArr) else SArr.from_typed(val), dt)
    return coerce(val, dt)


def wrap(x):
    """real ndarray (or nested containers of them) -> SArr when a symbolic context is active"""
    if isinstance(x, SArr):
        return x
    if isinstance(x, _nd):
        return SArr.from_typed(x)
    if isinstance(x, tuple) and type(x) is tuple:
        return tuple(wrap(y) for y in x)
    if isinstance(x, list):
        return [wrap(y) for y in x]
    return x


def unwrap(x):
    """SArr (concrete) -> typed ndarray, recursively through lists/tuples/dicts"""
    x = _unlazy(x)
    if isinstance(x, SArr):
        return x.typed()
    if isinstance(x, SVal):
        raise Unsupported('symbolic scalar passed to an unmodelled NumPy function')
    if type(x) is tuple:
        return tuple(unwrap(y) for y in x)
    if type(x) is list:
        return [unwrap(y) for y in x]
    if type(x) is dict:
        return {k: unwrap(v) for k, v in x.items()}
    return x


def has_sym(x):
    x = x.force() if isinstance(x, LazyMasked) and x._forced is not None else x
    if isinstance(x, LazyMasked) or isinstance(x, LazyWhere):
        return True
    if isinstance(x, SArr):
        return not x.is_concrete()
    if isinstance(x, SVal):
        return True
    if type(x) in (tuple, list):
        return any(has_sym(y) for y in x)
    if type(x) is dict:
        return any(has_sym(v) for v in x.values())
    return False
