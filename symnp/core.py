"""E1 core: path explorer (decision-trail re-execution) and symbolic scalar values.

Every scalar that reaches the code under test is either a plain Python number or one
of SBool / SInt / SFloat wrapping a z3 term.  Python constants are folded eagerly so
that terms stay small; `bool()`, `int()`, `__index__`, `__hash__` on a symbolic value
ask the explorer for a decision (fork).
"""
import math
import numbers
import time
from fractions import Fraction

import z3

__all__ = [
    'Unsupported', 'Inconclusive', 'Ctx', 'Explorer', 'cur', 'SVal', 'SBool', 'SInt',
    'SFloat', 'is_sym', 'ite', 'sand', 'sor', 'snot', 'to_z3_bool', 'to_z3_int',
    'to_z3_real', 'as_sfloat', 'seq', 'slt', 'sle', 'fresh_int', 'fresh_real',
    'fresh_bool', 'assume', 'branch', 'concretize_int', 'z3val', 'fl_square',
]


class Unsupported(BaseException):
    """The shim does not model a construct: the run is inconclusive, never a verdict."""


class Inconclusive(BaseException):
    """A solver query came back unknown / timed out."""


class PathLimit(BaseException):
    pass


class Vacuous(BaseException):
    """The path condition (harness assumptions) is unsatisfiable."""


_CUR = None


def cur():
    if _CUR is None:
        raise RuntimeError('no active symbolic context')
    return _CUR


def active():
    return _CUR is not None


class concrete_mode:
    """Temporarily leave symbolic mode (used to run the real code on a witness)."""

    def __enter__(self):
        global _CUR
        self.prev = _CUR
        _CUR = None

    def __exit__(self, *a):
        global _CUR
        _CUR = self.prev


# ----------------------------------------------------------------------------------
# context / explorer
# ----------------------------------------------------------------------------------

class Ctx:
    def __init__(self, trail, timeout_ms, stats):
        self.trail = trail          # list of [value(bool), pending_alternative(bool), forced(bool)]
        self.pos = 0
        self.solver = z3.Solver()
        self.solver.set('timeout', timeout_ms)
        self.timeout_ms = timeout_ms
        self.first_budget_ms = 4000   # incremental attempt before falling back to a fresh solver
        self.nonlinear = True
        self.pc = []                # list of z3 BoolRef added so far (for reporting / witnesses)
        self.model = None           # last model known to satisfy pc
        self.counter = {}
        self.stats = stats
        self.decisions = 0
        self.known = {}             # id of a decided condition -> (condition, value) on this path
        self.notes = []             # free-form per-path notes (e.g. fallback forks)
        self.defs = []              # definitional axioms (sqrt etc.)
        self.memo = {}              # per-path memo for stubs (function of structural argument)
        self.refine = []            # defining equations of abstracted operations (SQ(t) == t*t ...)
        self.wrap_obligations = []  # (dtype, condition): symbolic integers stored into narrow integer arrays must fit
        self.relerr = None          # harness option: RelErr float model, unit round-off u (e.g. Fraction(1, 2**53))
        self.abstract_log = False   # harness option: log(x) as a fresh real per distinct argument
        self.log_bounds = False     # with abstract_log: assert the tangent bounds 1 - 1/x <= log x <= x - 1 (strict off x = 1)
        self.abstract_terms = []    # (kind, variable, argument) of operations abstracted WITHOUT refinement
        self.purify_div = False     # harness option: quotients as fresh variables with q*b == a
        self.resolve_masks = False  # harness option: decide mask cells that the path condition already forces

    # --- naming -------------------------------------------------------------------
    def name(self, base):
        n = self.counter.get(base, 0)
        self.counter[base] = n + 1
        return '%s!%d' % (base, n)

    # --- solver -------------------------------------------------------------------
    def _solve(self, extra=(), need_model=True):
        """check pc /\\ extra.  Chain: incremental solver (short budget) -> fresh solver with the default
        (preprocessing) strategy -> external z3 binary (different version; unsat only).  Returns
        (z3 result, model-or-None)."""
        extra = [e for e in extra if e is not True]
        t0 = time.perf_counter()
        self.stats['queries'] += 1
        try:
            first = min(self.timeout_ms, self.first_budget_ms)
            self.solver.set('timeout', first)
            r = self.solver.check(*extra)
            if r == z3.sat:
                return r, self.solver.model()
            if r == z3.unsat:
                return r, None
            if not self.nonlinear:
                # (purely linear contexts never come back unknown in practice; do not retry)
                pass
            # fresh, non-incremental
            self.stats['fallback_fresh'] = self.stats.get('fallback_fresh', 0) + 1
            s2 = z3.Solver()
            s2.set('timeout', self.timeout_ms)
            for c in self.pc:
                s2.add(c)
            for e in extra:
                s2.add(e)
            r = s2.check()
            if r == z3.sat:
                return r, s2.model()
            if r == z3.unsat:
                return r, None
            # external solver (z3 4.8.12 binary): different code base version, used for unsat answers only
            ext = external_unsat(s2, self.timeout_ms)
            if ext:
                self.stats['fallback_external'] = self.stats.get('fallback_external', 0) + 1
                return z3.unsat, None
            return z3.unknown, None
        finally:
            self.stats['solver_s'] += time.perf_counter() - t0

    def _check(self, *extra):
        r, m = self._solve(extra)
        if r == z3.unknown:
            self.stats['unknown'] += 1
            raise Inconclusive('solver unknown')
        if r == z3.sat:
            self.model = m
        return r == z3.sat

    def add(self, c):
        """Add a constraint to the path condition (no feasibility check)."""
        if c is True:
            return
        if c is False:
            c = z3.BoolVal(False)
        self.solver.add(c)
        self.pc.append(c)
        if self.model is not None:
            try:
                if not z3.is_true(self.model.eval(c, model_completion=True)):
                    self.model = None
            except z3.Z3Exception:
                self.model = None

    def feasible(self, c):
        """Is pc /\\ c satisfiable?"""
        if c is True:
            return True
        if c is False:
            return False
        if self.model is not None:
            try:
                if z3.is_true(self.model.eval(c, model_completion=True)):
                    return True
            except z3.Z3Exception:
                pass
        saved = self.model
        ok = self._check(c)
        if not ok:
            self.model = saved
        return ok

    def get_model(self, exact=False):
        """A model of the path condition.  exact=True: also satisfying the defining equations of
        abstracted operations (needed before a model is turned into a concrete input)."""
        if exact and self.refine:
            r, m = self._solve(list(self.refine))
            if r == z3.sat:
                return m
            if r == z3.unsat:
                raise Vacuous('path infeasible once abstracted operations are given their exact meaning')
            self.stats['unknown'] += 1
            raise Inconclusive('solver unknown on exact model')
        if self.model is None:
            if not self._check():
                raise Vacuous('path condition infeasible')
        return self.model

    # --- decisions ------------------------------------------------------------------
    def choice(self, compute_payload, cond_of_payload):
        """Model-driven decision whose candidate must be the same on re-execution: the
        candidate (payload) is stored in the trail.  Returns (payload, bool)."""
        if self.pos < len(self.trail) and self.trail[self.pos][3] is not None:
            payload = self.trail[self.pos][3]
        else:
            payload = compute_payload(self.get_model())
        return payload, self.branch(cond_of_payload(payload), payload)

    def branch(self, c, payload=None):
        """Decide a symbolic condition: returns a Python bool, forks if both sides feasible."""
        if isinstance(c, bool):
            return c
        c = z3.simplify(c)
        if z3.is_true(c):
            return True
        if z3.is_false(c):
            return False
        # the same condition (structurally: z3 terms are hash-consed) decided earlier on this path keeps its value - no
        # solver call, no trail entry (re-executions rebuild this table in the same order)
        # (not for model-driven choices: their candidate is stored in the trail entry they create, so each of them must own one)
        hit = self.known.get(c.get_id()) if payload is None else None
        if hit is not None and hit[0].eq(c):
            return hit[1]
        val = self._branch(c, payload)
        self.known[c.get_id()] = (c, val)
        return val

    def _branch(self, c, payload):
        if self.pos < len(self.trail):
            val, _, forced, _p = self.trail[self.pos]
            self.pos += 1
            if not forced:
                self.add(c if val else z3.Not(c))
            return val
        # new decision
        self.decisions += 1
        self.stats['decisions'] += 1
        if self.stats['max_decisions'] and self.decisions > self.stats['max_decisions']:
            raise PathLimit('too many decisions on one path')
        nc = z3.Not(c)
        t_ok = self.feasible(c)
        f_ok = self.feasible(nc)
        if t_ok and f_ok:
            self.trail.append([True, True, False, payload])
            self.pos += 1
            self.add(c)
            return True
        if t_ok:
            self.trail.append([True, False, True, payload])
            self.pos += 1
            return True
        if f_ok:
            self.trail.append([False, False, True, payload])
            self.pos += 1
            return False
        raise RuntimeError('path condition infeasible at a branch')

    def forced(self, c):
        """True / False if the path condition forces the condition, else None"""
        c = _b(c)
        if isinstance(c, bool):
            return c
        if not self.feasible(z3.Not(c)):
            return True
        if not self.feasible(c):
            return False
        return None

    def assume(self, c):
        """Harness precondition.  Returns False if it makes the path infeasible."""
        if isinstance(c, SBool):
            c = c.t
        if c is True:
            return True
        self.add(c if c is not False else z3.BoolVal(False))
        return self._check()

    def prove(self, prop):
        """Returns (status, model): 'proved', 'refuted' (with model) or 'unknown'."""
        prop = _b(prop)
        if prop is True:
            return 'proved', None
        if prop is False:
            return 'refuted', self.get_model()
        r, m = self._solve([z3.Not(prop)])
        if r == z3.unknown:
            # identities that do not need the path condition: try to prove them in an empty context
            s2 = z3.Solver()
            s2.set('timeout', 5000)
            if s2.check(z3.Not(prop)) == z3.unsat:
                return 'proved', None
            self.stats['unknown'] += 1
            return 'unknown', None
        if r == z3.unsat:
            return 'proved', None
        if not self.refine:
            return 'refuted', m
        # candidate under the abstraction: re-check with the exact meaning of abstracted operations
        r, m = self._solve(list(self.refine) + [z3.Not(prop)])
        if r == z3.unsat:
            return 'proved', None
        if r == z3.sat:
            return 'refuted', m
        self.stats['unknown'] += 1
        return 'unknown', None


def external_unsat(solver, timeout_ms):
    """Ask /usr/bin/z3 (4.8.12) whether the assertions of `solver` are unsatisfiable."""
    import os
    import subprocess
    import tempfile
    exe = '/usr/bin/z3'
    if not os.path.exists(exe):
        return False
    d = '/dev/shm' if os.path.isdir('/dev/shm') else None
    fd, path = tempfile.mkstemp(suffix='.smt2', dir=d)
    try:
        with os.fdopen(fd, 'w') as f:
            f.write(solver.to_smt2())
        secs = max(1, int(timeout_ms / 1000))
        try:
            out = subprocess.run([exe, '-T:%d' % secs, path], capture_output=True, text=True, timeout=secs + 5).stdout
        except subprocess.TimeoutExpired:
            return False
        if '(error' in out:
            return False
        lines = [l.strip() for l in out.splitlines() if l.strip()]
        return bool(lines) and lines[0] == 'unsat'
    finally:
        try:
            os.unlink(path)
        except OSError:
            pass


class PathResult:
    def __init__(self, status, value, ctx, error=None):
        self.status = status      # 'ok' | 'exception' | 'unsupported' | 'inconclusive' | 'limit'
        self.value = value
        self.ctx = ctx
        self.error = error


class Explorer:
    """Depth-first exploration of all feasible paths of `fn` by re-execution."""

    def __init__(self, timeout_ms=20000, max_paths=100000, max_decisions=0, deadline=None):
        self.timeout_ms = timeout_ms
        self.max_paths = max_paths
        self.deadline = deadline
        self.stats = {'queries': 0, 'solver_s': 0.0, 'unknown': 0, 'decisions': 0,
                      'paths': 0, 'max_decisions': max_decisions}
        self.complete = False

    def explore(self, fn):
        global _CUR
        trail = []
        n = 0
        while True:
            ctx = Ctx(trail, self.timeout_ms, self.stats)
            prev = _CUR
            _CUR = ctx
            try:
                try:
                    val = fn(ctx)
                    res = PathResult('ok', val, ctx)
                except Unsupported as e:
                    res = PathResult('unsupported', None, ctx, e)
                except Inconclusive as e:
                    res = PathResult('inconclusive', None, ctx, e)
                except PathLimit as e:
                    res = PathResult('limit', None, ctx, e)
                except Vacuous as e:
                    res = PathResult('vacuous', None, ctx, e)
                except RecursionError as e:
                    res = PathResult('unsupported', None, ctx, e)
                except Exception as e:   # exception raised by the code under test
                    res = PathResult('exception', None, ctx, e)
                self.stats['paths'] += 1
                n += 1
                yield res
            finally:
                _CUR = prev
            # truncate to what this path actually used, then backtrack
            del trail[ctx.pos:]
            while trail and not trail[-1][1]:
                trail.pop()
            if not trail:
                self.complete = True
                return
            trail[-1] = [not trail[-1][0], False, False, trail[-1][3]]
            if n >= self.max_paths or (self.deadline and time.time() > self.deadline):
                return


# ----------------------------------------------------------------------------------
# helpers on maybe-constant booleans
# ----------------------------------------------------------------------------------

def _b(x):
    """normalise to python bool or z3 BoolRef"""
    if isinstance(x, SBool):
        return x.t
    if isinstance(x, (bool,)):
        return x
    if isinstance(x, z3.BoolRef):
        if z3.is_true(x):
            return True
        if z3.is_false(x):
            return False
        return x
    if hasattr(x, 'dtype') and not hasattr(x, '__len__'):
        return bool(x)
    if isinstance(x, numbers.Number):
        return bool(x)
    raise Unsupported('not a boolean: %r' % (x,))


def AND(*xs):
    out = []
    for x in xs:
        x = _b(x)
        if x is False:
            return False
        if x is True:
            continue
        out.append(x)
    if not out:
        return True
    if len(out) == 1:
        return out[0]
    return z3.And(*out)


def OR(*xs):
    out = []
    for x in xs:
        x = _b(x)
        if x is True:
            return True
        if x is False:
            continue
        out.append(x)
    if not out:
        return False
    if len(out) == 1:
        return out[0]
    return z3.Or(*out)


def NOT(x):
    x = _b(x)
    if isinstance(x, bool):
        return not x
    return z3.Not(x)


def _isc(x):
    return isinstance(x, (int, Fraction, bool)) and not isinstance(x, z3.ExprRef)


def _num(x):
    """constant or z3 arith -> z3 arith (keeps python constants)"""
    return x


def _z(x, real=False):
    if isinstance(x, z3.ExprRef):
        if real and x.sort() == z3.IntSort():
            return z3.ToReal(x)
        return x
    if isinstance(x, bool):
        x = int(x)
    if isinstance(x, int):
        return z3.RealVal(x) if real else z3.IntVal(x)
    if isinstance(x, Fraction):
        return z3.RealVal(x)
    raise Unsupported('cannot lift %r' % (x,))


def I(c, a, b, real=None):
    """if-then-else on maybe-constant terms"""
    c = _b(c)
    if c is True:
        return a
    if c is False:
        return b
    if _isc(a) and _isc(b) and a == b and type(a) is type(b):
        return a
    if isinstance(a, z3.ExprRef) and isinstance(b, z3.ExprRef) and a.eq(b):
        return a
    if isinstance(a, bool) or isinstance(b, bool) or isinstance(a, z3.BoolRef) or isinstance(b, z3.BoolRef):
        za = a if isinstance(a, z3.ExprRef) else z3.BoolVal(bool(a))
        zb = b if isinstance(b, z3.ExprRef) else z3.BoolVal(bool(b))
        return z3.If(c, za, zb)
    if real is None:
        real = any(isinstance(t, Fraction) or (isinstance(t, z3.ExprRef) and t.sort() == z3.RealSort())
                   for t in (a, b))
    return z3.If(c, _z(a, real), _z(b, real))


def EQ(a, b):
    if _isc(a) and _isc(b):
        return a == b
    real = any(isinstance(t, Fraction) or (isinstance(t, z3.ExprRef) and t.sort() == z3.RealSort())
               for t in (a, b))
    za, zb = _z(a, real), _z(b, real)
    if za.eq(zb):
        return True
    return za == zb


def LT(a, b):
    if _isc(a) and _isc(b):
        return a < b
    real = any(isinstance(t, Fraction) or (isinstance(t, z3.ExprRef) and t.sort() == z3.RealSort())
               for t in (a, b))
    return _z(a, real) < _z(b, real)


def LE(a, b):
    if _isc(a) and _isc(b):
        return a <= b
    real = any(isinstance(t, Fraction) or (isinstance(t, z3.ExprRef) and t.sort() == z3.RealSort())
               for t in (a, b))
    za, zb = _z(a, real), _z(b, real)
    if za.eq(zb):
        return True
    return za <= zb


def _arith(op, a, b, real):
    if _isc(a) and _isc(b):
        if isinstance(a, bool):
            a = int(a)
        if isinstance(b, bool):
            b = int(b)
        if op == '+':
            return a + b
        if op == '-':
            return a - b
        if op == '*':
            return a * b
        if op == '/':
            return Fraction(a) / Fraction(b)
    # cheap algebraic folds
    if op == '*':
        if _isc(a) and a == 0 or _isc(b) and b == 0:
            return 0
        if _isc(a) and a == 1:
            return b
        if _isc(b) and b == 1:
            return a
    if op == '+':
        if _isc(a) and a == 0:
            return b
        if _isc(b) and b == 0:
            return a
    if op == '-' and _isc(b) and b == 0:
        return a
    if op == '/' and _isc(b) and b == 1:
        return a
    za, zb = _z(a, real), _z(b, real)
    if op == '+':
        return za + zb
    if op == '-':
        return za - zb
    if op == '*':
        return za * zb
    if op == '/':
        return za / zb
    raise AssertionError(op)


# ----------------------------------------------------------------------------------
# symbolic values
# ----------------------------------------------------------------------------------

class SVal:
    __slots__ = ()

    def __getitem__(self, idx):
        """numpy-scalar indexing: x[()] / x[...] -> x ;  x[..., None] / x[None] -> array of shape (1,)*k"""
        if not isinstance(idx, tuple):
            idx = (idx,)
        if any(i is not Ellipsis and i is not None for i in idx):
            raise IndexError('invalid index to scalar variable.')
        k = sum(1 for i in idx if i is None)
        if k == 0:
            return self
        from .arr import SArr
        import numpy
        o = numpy.empty((1,) * k, dtype=object)
        o.reshape(-1)[0] = self
        r = o.view(SArr)
        r.ldtype = self.dtype
        return r

    # the methods of a NumPy scalar that reduce / convert it to itself
    def sum(self, *a, **k): return self
    def max(self, *a, **k): return self
    def min(self, *a, **k): return self
    def mean(self, *a, **k): return self
    def prod(self, *a, **k): return self
    def item(self, *a): return self
    def squeeze(self, *a, **k): return self
    def copy(self, *a, **k): return self
    ndim = 0
    shape = ()
    size = 1


def is_sym(x):
    return isinstance(x, SVal)


class SBool(SVal):
    __slots__ = ('t',)

    def __init__(self, t):
        self.t = t

    @staticmethod
    def mk(t):
        t = _b(t)
        if isinstance(t, bool):
            return t
        return SBool(t)

    def __bool__(self):
        return cur().branch(self.t)

    def __and__(self, o):
        if isinstance(o, (bool, SBool)) or _is_np_bool(o):
            return SBool.mk(AND(self.t, _b(o)))
        return NotImplemented
    __rand__ = __and__

    def __or__(self, o):
        if isinstance(o, (bool, SBool)) or _is_np_bool(o):
            return SBool.mk(OR(self.t, _b(o)))
        return NotImplemented
    __ror__ = __or__

    def __xor__(self, o):
        if isinstance(o, (bool, SBool)) or _is_np_bool(o):
            o = _b(o)
            if isinstance(o, bool):
                return SBool.mk(NOT(self.t) if o else self.t)
            return SBool.mk(z3.Xor(self.t, o))
        return NotImplemented
    __rxor__ = __xor__

    def __invert__(self):
        return SBool.mk(NOT(self.t))

    def __eq__(self, o):
        if isinstance(o, (bool, SBool)) or _is_np_bool(o):
            o = _b(o)
            if isinstance(o, bool):
                return SBool.mk(self.t if o else NOT(self.t))
            return SBool.mk(self.t == o)
        return _int_of_bool(self) == o

    def __ne__(self, o):
        r = self.__eq__(o)
        return snot(r)

    __hash__ = None

    # arithmetic: behaves as 0/1
    def _i(self):
        return _int_of_bool(self)

    def __add__(self, o): return self._i() + o
    def __radd__(self, o): return o + self._i()
    def __sub__(self, o): return self._i() - o
    def __rsub__(self, o): return o - self._i()
    def __mul__(self, o): return self._i() * o
    def __rmul__(self, o): return o * self._i()
    def __truediv__(self, o): return self._i() / o
    def __rtruediv__(self, o): return o / self._i()
    def __lt__(self, o): return self._i() < o
    def __le__(self, o): return self._i() <= o
    def __gt__(self, o): return self._i() > o
    def __ge__(self, o): return self._i() >= o
    def __neg__(self): return -self._i()
    def __index__(self): return int(bool(self))
    def __int__(self): return int(bool(self))
    def __float__(self): return float(bool(self))

    def __repr__(self):
        return '<SBool>'

    @property
    def dtype(self):
        import numpy
        return numpy.dtype(bool)

    def __format__(self, spec):
        return '<SBool>'


def _is_np_bool(o):
    return type(o).__name__ in ('bool_', 'bool') and hasattr(o, 'dtype')


def _int_of_bool(b):
    if isinstance(b, SBool):
        return SInt(z3.If(b.t, z3.IntVal(1), z3.IntVal(0)))
    return int(b)


def _is_intlike(o):
    return (isinstance(o, (int, SInt, SBool)) or
            (hasattr(o, 'dtype') and not hasattr(o, '__len__') and getattr(o.dtype, 'kind', '') in 'iub'))


def _is_floatlike(o):
    return (isinstance(o, (float, SFloat, Fraction)) or
            (hasattr(o, 'dtype') and not hasattr(o, '__len__') and getattr(o.dtype, 'kind', '') == 'f'))


def _it(o):
    """int-like -> python int or z3 Int term"""
    if isinstance(o, SInt):
        return o.t
    if isinstance(o, SBool):
        return z3.If(o.t, z3.IntVal(1), z3.IntVal(0))
    if isinstance(o, bool):
        return int(o)
    if isinstance(o, int):
        return o
    return int(o)


class SInt(SVal):
    __slots__ = ('t',)

    def __init__(self, t):
        self.t = t

    @staticmethod
    def mk(t):
        if isinstance(t, z3.ExprRef):
            if z3.is_int_value(t):
                return t.as_long()
            return SInt(t)
        return int(t)

    # arithmetic ---------------------------------------------------------------
    def _bin(self, o, op, rev=False):
        if _is_intlike(o):
            a, b = self.t, _it(o)
            if rev:
                a, b = b, a
            return SInt.mk(_arith(op, a, b, False))
        if _is_floatlike(o):
            a, b = as_sfloat(self), as_sfloat(o)
            if rev:
                a, b = b, a
            return fl_arith(op, a, b)
        return NotImplemented

    def __add__(self, o): return self._bin(o, '+')
    def __radd__(self, o): return self._bin(o, '+', True)
    def __sub__(self, o): return self._bin(o, '-')
    def __rsub__(self, o): return self._bin(o, '-', True)
    def __mul__(self, o): return self._bin(o, '*')
    def __rmul__(self, o): return self._bin(o, '*', True)

    def __truediv__(self, o):
        if _is_intlike(o) or _is_floatlike(o):
            return fl_arith('/', as_sfloat(self), as_sfloat(o), pyscalar=True)
        return NotImplemented

    def __rtruediv__(self, o):
        if _is_intlike(o) or _is_floatlike(o):
            return fl_arith('/', as_sfloat(o), as_sfloat(self), pyscalar=True)
        return NotImplemented

    def __floordiv__(self, o):
        if _is_intlike(o):
            return int_floordiv(self, o)
        return NotImplemented

    def __rfloordiv__(self, o):
        if _is_intlike(o):
            return int_floordiv(o, self)
        return NotImplemented

    def __mod__(self, o):
        if _is_intlike(o):
            return int_mod(self, o)
        return NotImplemented

    def __rmod__(self, o):
        if _is_intlike(o):
            return int_mod(o, self)
        return NotImplemented

    def __pow__(self, o):
        if isinstance(o, int) and 0 <= o <= 4:
            r = 1
            for _ in range(o):
                r = r * self
            return r
        if _is_floatlike(o):
            return as_sfloat(self) ** o
        raise Unsupported('SInt ** %r' % (o,))

    def __neg__(self): return SInt.mk(-self.t)
    def __pos__(self): return self

    def __abs__(self):
        return SInt.mk(z3.If(self.t >= 0, self.t, -self.t))

    # comparisons ----------------------------------------------------------------
    def _cmp(self, o, f):
        if _is_intlike(o):
            return SBool.mk(f(self.t, _it(o)))
        if _is_floatlike(o):
            return fl_cmp(f.__name__, as_sfloat(self), as_sfloat(o))
        return NotImplemented

    def __lt__(self, o): return self._cmp(o, LT)
    def __le__(self, o): return self._cmp(o, LE)
    def __gt__(self, o):
        if _is_intlike(o):
            return SBool.mk(LT(_it(o), self.t))
        if _is_floatlike(o):
            return fl_cmp('LT', as_sfloat(o), as_sfloat(self))
        return NotImplemented

    def __ge__(self, o):
        if _is_intlike(o):
            return SBool.mk(LE(_it(o), self.t))
        if _is_floatlike(o):
            return fl_cmp('LE', as_sfloat(o), as_sfloat(self))
        return NotImplemented

    def __eq__(self, o):
        if _is_intlike(o):
            return SBool.mk(EQ(self.t, _it(o)))
        if _is_floatlike(o):
            return fl_cmp('EQ', as_sfloat(self), as_sfloat(o))
        if o is None:
            return False
        return NotImplemented

    def __ne__(self, o):
        r = self.__eq__(o)
        if r is NotImplemented:
            return r
        return snot(r)

    # concretisation -------------------------------------------------------------
    def __index__(self):
        return concretize_int(self)

    def __int__(self):
        return concretize_int(self)

    def __hash__(self):
        return hash(concretize_int(self))

    def __bool__(self):
        return cur().branch(self.t != 0)

    def __float__(self):
        return float(concretize_int(self))

    def __round__(self, n=None):
        return self

    def __repr__(self):
        return '<SInt>'       # never print terms: the repo formats values into log messages

    def __format__(self, spec):
        return '<SInt>'

    # numpy-scalar look-alikes
    @property
    def dtype(self):
        import numpy
        return numpy.dtype('int64')

    @property
    def shape(self):
        return ()

    ndim = 0

    def item(self):
        return self

    def astype(self, dt):
        import numpy
        k = numpy.dtype(dt).kind
        if k in 'iu':
            return self
        if k == 'f':
            return as_sfloat(self)
        if k == 'b':
            return self != 0
        raise Unsupported('SInt.astype(%s)' % dt)

    def squeeze(self):
        return self


numbers.Integral.register(SInt)


def int_floordiv(a, b):
    """Python floor division on int-likes."""
    ta, tb = _it(a), _it(b)
    if _isc(ta) and _isc(tb):
        return ta // tb
    if _isc(tb):
        if tb == 0:
            raise ZeroDivisionError('integer division or modulo by zero')
        if tb > 0:
            return SInt.mk(_z(ta) / z3.IntVal(tb))          # z3 div = floor for positive divisor
        return SInt.mk((-_z(ta)) / z3.IntVal(-tb))
    sb = b if isinstance(b, SInt) else SInt(_z(tb))
    if sb == 0:
        raise ZeroDivisionError('integer division or modulo by zero')
    if sb > 0:
        return SInt.mk(_z(ta) / _z(tb))
    return SInt.mk((-_z(ta)) / (-_z(tb)))


def int_mod(a, b):
    ta, tb = _it(a), _it(b)
    if _isc(ta) and _isc(tb):
        return ta % tb
    q = int_floordiv(a, b)
    return SInt.mk(_z(ta) - _z(_it(q)) * _z(tb))


def concretize_int(x):
    """Fork over the feasible values of a symbolic int."""
    if not isinstance(x, SInt):
        return int(x)
    ctx = cur()
    t = z3.simplify(x.t)
    if z3.is_int_value(t):
        return t.as_long()
    def pick(m):
        v = m.eval(t, model_completion=True)
        if not z3.is_int_value(v):
            raise Unsupported('cannot evaluate %s' % t)
        return v.as_long()
    while True:
        v, ok = ctx.choice(pick, lambda v: t == v)
        if ok:
            return v


# --- floats: extended reals ----------------------------------------------------------
# kind k: 0 finite, 1 +inf, -1 -inf, 2 nan (python int or z3 Int term); v: value when finite

K_FIN, K_PINF, K_NINF, K_NAN = 0, 1, -1, 2


class SFloat(SVal):
    __slots__ = ('k', 'v')

    def __init__(self, k, v):
        self.k = k
        self.v = v

    @staticmethod
    def mk(k, v):
        """returns python float when fully constant"""
        if isinstance(k, z3.ExprRef):
            k = z3.simplify(k)
            if z3.is_int_value(k):
                k = k.as_long()
        if _isc(k):
            if k == K_PINF:
                return math.inf
            if k == K_NINF:
                return -math.inf
            if k == K_NAN:
                return math.nan
            if _isc(v):
                return float(v)
            if isinstance(v, z3.ExprRef) and z3.is_rational_value(v):
                return float(Fraction(v.numerator_as_long(), v.denominator_as_long()))
        if isinstance(v, z3.ExprRef) and v.sort() == z3.IntSort():
            v = z3.ToReal(v)
        return SFloat(k, v)

    # kind predicates (maybe-constant booleans)
    @property
    def fin(self): return EQ(self.k, K_FIN)
    @property
    def pinf(self): return EQ(self.k, K_PINF)
    @property
    def ninf(self): return EQ(self.k, K_NINF)
    @property
    def nan(self): return EQ(self.k, K_NAN)

    def _bin(self, o, op, rev=False):
        if _is_intlike(o) or _is_floatlike(o):
            a, b = self, as_sfloat(o)
            if rev:
                a, b = b, a
            return fl_arith(op, a, b)
        return NotImplemented

    def __add__(self, o): return self._bin(o, '+')
    def __radd__(self, o): return self._bin(o, '+', True)
    def __sub__(self, o): return self._bin(o, '-')
    def __rsub__(self, o): return self._bin(o, '-', True)
    def __mul__(self, o): return self._bin(o, '*')
    def __rmul__(self, o): return self._bin(o, '*', True)
    def __truediv__(self, o): return self._bin(o, '/')
    def __rtruediv__(self, o): return self._bin(o, '/', True)

    def __neg__(self):
        return fl_arith('-', as_sfloat(0.0), self)

    def __pos__(self): return self

    def __abs__(self):
        neg = fl_cmp('LT', self, as_sfloat(0.0))
        return ite(neg, -self, self)

    def __pow__(self, o):
        if isinstance(o, float) and o == int(o):
            o = int(o)
        if isinstance(o, int) and 0 <= o <= 4:
            r = 1.0
            for _ in range(o):
                r = r * self
            return r
        if o == 0.5:
            return fl_sqrt(self)
        raise Unsupported('SFloat ** %r' % (o,))

    def _cmp(self, o, name, rev=False):
        if _is_intlike(o) or _is_floatlike(o):
            a, b = self, as_sfloat(o)
            if rev:
                a, b = b, a
            return fl_cmp(name, a, b)
        return NotImplemented

    def __lt__(self, o): return self._cmp(o, 'LT')
    def __le__(self, o): return self._cmp(o, 'LE')
    def __gt__(self, o): return self._cmp(o, 'LT', True)
    def __ge__(self, o): return self._cmp(o, 'LE', True)

    def __eq__(self, o):
        if o is None:
            return False
        return self._cmp(o, 'EQ')

    def __ne__(self, o):
        r = self.__eq__(o)
        if r is NotImplemented:
            return r
        return snot(r)

    __hash__ = None

    def __bool__(self):
        return bool(self != 0.0)

    def __float__(self):
        raise Unsupported('float() of a symbolic real')

    def __int__(self):
        raise Unsupported('int() of a symbolic real')

    def __repr__(self):
        return '<SFloat>'

    def __format__(self, spec):
        return '<SFloat>'

    @property
    def dtype(self):
        import numpy
        return numpy.dtype('float64')

    @property
    def shape(self):
        return ()

    ndim = 0

    def item(self):
        return self

    def squeeze(self):
        return self

    @property
    def real(self):
        return self

    def astype(self, dt):
        import numpy
        if numpy.dtype(dt).kind == 'f':
            return self
        raise Unsupported('SFloat.astype(%s)' % dt)


numbers.Real.register(SFloat)


def as_sfloat(x):
    """anything scalar -> SFloat (always the wrapper, also for constants)"""
    if isinstance(x, SFloat):
        return x
    if isinstance(x, SInt):
        return SFloat(K_FIN, z3.ToReal(x.t))
    if isinstance(x, SBool):
        return SFloat(K_FIN, z3.If(x.t, z3.RealVal(1), z3.RealVal(0)))
    if isinstance(x, Fraction):
        return SFloat(K_FIN, x)
    if isinstance(x, (bool, int)):
        return SFloat(K_FIN, Fraction(int(x)))
    x = float(x)
    if math.isnan(x):
        return SFloat(K_NAN, Fraction(0))
    if math.isinf(x):
        return SFloat(K_PINF if x > 0 else K_NINF, Fraction(0))
    return SFloat(K_FIN, Fraction(x))


def _sign(v):
    """sign of a finite value as maybe-constant int"""
    if _isc(v):
        return (v > 0) - (v < 0)
    return z3.If(v > 0, z3.IntVal(1), z3.If(v < 0, z3.IntVal(-1), z3.IntVal(0)))


def _fsign(a):
    return I(a.pinf, 1, I(a.ninf, -1, _sign(a.v)))


def _pure_div(a, b):
    """a/b for a divisor known to be non-zero on this path.  With ctx.purify_div the quotient is a fresh
    variable q with q*b == a (helps nlsat considerably); otherwise z3's division."""
    if _isc(b) or not active() or not getattr(cur(), 'purify_div', False):
        return _arith('/', a, b, True)
    ctx = cur()
    za, zb = _z(a, True), _z(b, True)
    key = ('div', za.get_id(), zb.get_id())
    q = ctx.memo.get(key)
    if q is None:
        q = z3.Real(ctx.name('quot'))
        ctx.add(q * zb == za)
        ctx.memo[key] = q
        ctx.memo[('quot-of', q.get_id())] = (za, zb)
    return q


def _round(v):
    """RelErr float model (ctx.relerr = u): every operation result is multiplied by (1+d), |d| <= u.  A sound
    over-approximation of IEEE rounding for results in the normal range (no overflow / underflow)."""
    if not active() or not getattr(cur(), 'relerr', None) or _isc(v):
        return v
    ctx = cur()
    d = z3.Real(ctx.name('rnd'))
    u = ctx.relerr
    ctx.add(z3.And(d >= -u, d <= u))
    return v * (1 + d)


def fl_arith(op, a, b, pyscalar=False):
    r = _fl_arith(op, a, b, pyscalar)
    if isinstance(r, SFloat) and r.fin is True and active() and getattr(cur(), 'relerr', None):
        return SFloat(K_FIN, _round(r.v))
    return r


def _fl_arith(op, a, b, pyscalar=False):
    fa, fb = a.fin, b.fin
    if fa is True and fb is True:
        if op != '/':
            return SFloat.mk(K_FIN, _arith(op, a.v, b.v, True))
        # division of finite by finite: zero divisor?
        bz = EQ(b.v, 0)
        if bz is False:
            return SFloat.mk(K_FIN, _pure_div(a.v, b.v))
        if bz is not True and active() and not cur().feasible(bz):
            return SFloat.mk(K_FIN, _pure_div(a.v, b.v))
        if pyscalar:
            if SBool.mk(bz) if not isinstance(bz, bool) else bz:
                raise ZeroDivisionError('division by zero')
            return SFloat.mk(K_FIN, _arith('/', a.v, b.v, True))
    if op == '-':
        nb = SFloat(I(b.pinf, K_NINF, I(b.ninf, K_PINF, b.k)) if not _isc(b.k) else
                    ({K_PINF: K_NINF, K_NINF: K_PINF}.get(b.k, b.k)),
                    _arith('-', 0, b.v, True))
        return _fl_arith('+', a, nb)
    if op == '+':
        nan = OR(a.nan, b.nan, AND(a.pinf, b.ninf), AND(a.ninf, b.pinf))
        pinf = AND(NOT(nan), OR(a.pinf, b.pinf))
        ninf = AND(NOT(nan), OR(a.ninf, b.ninf))
        k = I(nan, K_NAN, I(pinf, K_PINF, I(ninf, K_NINF, K_FIN)))
        return SFloat.mk(k, _arith('+', a.v, b.v, True))
    ainf, binf = OR(a.pinf, a.ninf), OR(b.pinf, b.ninf)
    a0, b0 = AND(a.fin, EQ(a.v, 0)), AND(b.fin, EQ(b.v, 0))
    sa, sb = _fsign(a), _fsign(b)
    if op == '*':
        nan = OR(a.nan, b.nan, AND(ainf, b0), AND(binf, a0))
        inf = AND(NOT(nan), OR(ainf, binf))
        pos = EQ(_arith('*', sa, sb, False), 1)
        k = I(nan, K_NAN, I(inf, I(pos, K_PINF, K_NINF), K_FIN))
        return SFloat.mk(k, _arith('*', a.v, b.v, True))
    if op == '/':
        nan = OR(a.nan, b.nan, AND(ainf, binf), AND(a0, b0))
        inf = AND(NOT(nan), OR(ainf, b0))
        sb1 = I(b0, 1, sb)
        pos = EQ(_arith('*', sa, sb1, False), 1)
        k = I(nan, K_NAN, I(inf, I(pos, K_PINF, K_NINF), K_FIN))
        safe = OR(b0, binf, NOT(b.fin))
        if safe is True:
            v = Fraction(0)
        elif safe is False:
            v = _arith('/', a.v, b.v, True)
        else:
            v = I(safe, Fraction(0), _arith('/', a.v, I(safe, Fraction(1), b.v, True), True), True)
        return SFloat.mk(k, v)
    raise AssertionError(op)


def fl_cmp(name, a, b):
    nn = AND(NOT(a.nan), NOT(b.nan))
    if nn is False:
        return False
    if name == 'LT':
        r = AND(nn, OR(AND(a.fin, b.fin, LT(a.v, b.v)),
                       AND(a.ninf, NOT(b.ninf)),
                       AND(b.pinf, NOT(a.pinf))))
    elif name == 'LE':
        r = AND(nn, OR(AND(a.fin, b.fin, LE(a.v, b.v)), a.ninf, b.pinf))
    elif name == 'EQ':
        r = AND(nn, OR(AND(a.fin, b.fin, EQ(a.v, b.v)), AND(a.pinf, b.pinf), AND(a.ninf, b.ninf)))
    else:
        raise AssertionError(name)
    return SBool.mk(r)


def fl_sqrt(a):
    a = as_sfloat(a)
    if a.fin is True and _isc(a.v):
        return math.sqrt(a.v) if a.v >= 0 else math.nan
    ctx = cur()
    r = z3.Real(ctx.name('sqrt'))
    ax = z3.Implies(_z(a.v, True) >= 0, z3.And(r >= 0, r * r == _z(a.v, True)))
    ctx.add(ax)
    ctx.defs.append(ax)
    neg = AND(a.fin, LT(a.v, 0))
    if not isinstance(neg, bool) and getattr(ctx, 'resolve_masks', False):
        f = ctx.forced(neg)
        neg = neg if f is None else f
    k = I(OR(a.nan, a.ninf, neg), K_NAN, I(a.pinf, K_PINF, K_FIN))
    return SFloat.mk(k, r)


_SQ = z3.Function('SQ', z3.RealSort(), z3.RealSort())


def fl_square(a):
    """x*x kept opaque (uninterpreted SQ with SQ(x) >= 0); the defining equation is only used when a
    model has to be exact (witnesses, counterexamples).  Proofs under the abstraction are sound."""
    if isinstance(a, (SInt, int)) and not isinstance(a, bool):
        return a * a
    a = as_sfloat(a)
    if a.fin is not True or _isc(a.v):
        return a * a
    ctx = cur()
    t = _SQ(a.v)
    key = ('sq', t.get_id())
    if key not in ctx.memo:
        ctx.memo[key] = True
        ctx.add(t >= 0)
        ctx.refine.append(t == a.v * a.v)
    return SFloat(K_FIN, t)


_LOG = z3.Function('LOG', z3.RealSort(), z3.RealSort())
_EXP = z3.Function('EXP', z3.RealSort(), z3.RealSort())


def _log_term(v):
    """LOG(v): uninterpreted function, or (ctx.abstract_log) one fresh real per syntactically distinct argument,
    which keeps the query in QF_NRA.  Both over-approximate log, so proofs stay sound."""
    zv = _z(v, True)
    if active() and getattr(cur(), 'abstract_log', False):
        ctx = cur()
        key = ('log', zv.get_id())
        t = ctx.memo.get(key)
        if t is None:
            t = z3.Real(ctx.name('log'))
            ctx.memo[key] = t
            ctx.abstract_terms.append(('log', t, zv))
            if getattr(ctx, 'log_bounds', False):
                # true facts about the natural logarithm (tangent at 1 from above, and the same for 1/x from below)
                one = z3.RealVal(1)
                ctx.add(z3.Implies(zv > 0, z3.And(t <= zv - 1, t * zv >= zv - 1, (zv == one) == (t == 0),
                                                  z3.Implies(zv != one, z3.And(t < zv - 1, t * zv > zv - 1)))))
                nd = ctx.memo.get(('quot-of', zv.get_id()))
                if nd is not None:
                    # the same two bounds for a purified quotient zv = num/den, cleared of the quotient (multiply by den resp.
                    # num): den*t <= num - den and num*t >= num - den.  Consequences of the lines above; stated because
                    # nlsat does not find the multiplication by itself
                    num, den = nd
                    ctx.add(z3.Implies(z3.And(num > 0, den > 0), z3.And(den * t <= num - den, num * t >= num - den)))
        return t
    if active() and ('log-axioms' not in cur().memo):
        cur().memo['log-axioms'] = True
        cur().add(_LOG(z3.RealVal(1)) == 0)       # true fact about log, needed for log(p/p)
    return _LOG(zv)


def fl_log(a):
    a = as_sfloat(a)
    if a.fin is True and _isc(a.v):
        if a.v > 0:
            if a.v == 1:
                return 0.0
            return SFloat(K_FIN, _log_term(Fraction(a.v)))
        return -math.inf if a.v == 0 else math.nan
    zero = AND(a.fin, EQ(a.v, 0))
    neg = AND(a.fin, LT(a.v, 0))
    if active() and getattr(cur(), 'resolve_masks', False):
        f = cur().forced(AND(a.fin, LT(0, a.v)))
        if f is True:
            return SFloat(K_FIN, _log_term(a.v))
    k = I(OR(a.nan, a.ninf, neg), K_NAN, I(a.pinf, K_PINF, I(zero, K_NINF, K_FIN)))
    return SFloat.mk(k, _log_term(a.v))


def fl_exp(a):
    a = as_sfloat(a)
    if a.fin is True and _isc(a.v) and a.v == 0:
        return 1.0
    k = I(a.nan, K_NAN, I(a.pinf, K_PINF, K_FIN))
    v = I(a.ninf, Fraction(0), _EXP(_z(a.v, True)), True)
    return SFloat.mk(k, v)


# ----------------------------------------------------------------------------------
# generic helpers on values (python or symbolic)
# ----------------------------------------------------------------------------------

def snot(x):
    if isinstance(x, SBool):
        return SBool.mk(NOT(x.t))
    return not x


def sand(*xs):
    return SBool.mk(AND(*xs))


def sor(*xs):
    return SBool.mk(OR(*xs))


def seq(a, b):
    r = (a == b)
    return r


def slt(a, b):
    return a < b


def sle(a, b):
    return a <= b


def to_z3_bool(x):
    x = _b(x)
    return z3.BoolVal(x) if isinstance(x, bool) else x


def to_z3_int(x):
    return _z(_it(x))


def to_z3_real(x):
    """finite value term of a float-like (kind ignored)"""
    s = as_sfloat(x)
    return _z(s.v, True)


def ite(c, a, b):
    """value-level if-then-else; a, b python numbers or S* of compatible kinds"""
    c = _b(c)
    if c is True:
        return a
    if c is False:
        return b
    if a is b:
        return a
    if isinstance(a, (bool, SBool)) and isinstance(b, (bool, SBool)) or \
            (_is_np_bool(a) or _is_np_bool(b)):
        return SBool.mk(I(c, _b(a), _b(b)))
    if _is_intlike(a) and _is_intlike(b):
        return SInt.mk(I(c, _it(a), _it(b)))
    if (_is_intlike(a) or _is_floatlike(a)) and (_is_intlike(b) or _is_floatlike(b)):
        fa, fb = as_sfloat(a), as_sfloat(b)
        return SFloat.mk(I(c, fa.k, fb.k), I(c, fa.v, fb.v, True))
    if a is None and b is None:
        return None
    raise Unsupported('ite of %r and %r' % (type(a), type(b)))


def fresh_int(base='i', lo=None, hi=None):
    ctx = cur()
    t = z3.Int(ctx.name(base))
    if lo is not None:
        ctx.add(t >= lo)
    if hi is not None:
        ctx.add(t <= hi)
    return SInt(t)


def fresh_real(base='r'):
    ctx = cur()
    return SFloat(K_FIN, z3.Real(ctx.name(base)))


def fresh_bool(base='b'):
    ctx = cur()
    return SBool(z3.Bool(ctx.name(base)))


def fresh_garbage(base='g'):
    """an uninitialised float cell: arbitrary kind and value"""
    ctx = cur()
    k = z3.Int(ctx.name(base + 'k'))
    ctx.add(z3.And(k >= -1, k <= 2))
    return SFloat(k, z3.Real(ctx.name(base + 'v')))


def assume(c):
    return cur().assume(c)


def branch(c):
    if isinstance(c, SBool):
        return cur().branch(c.t)
    return bool(c)


def z3val(model, x):
    """evaluate a python-or-symbolic scalar under a model -> python number"""
    if isinstance(x, SBool):
        return z3.is_true(model.eval(x.t, model_completion=True))
    if isinstance(x, SInt):
        return model.eval(x.t, model_completion=True).as_long()
    if isinstance(x, SFloat):
        k = x.k
        if not _isc(k):
            k = model.eval(k, model_completion=True).as_long()
        if k == K_PINF:
            return math.inf
        if k == K_NINF:
            return -math.inf
        if k == K_NAN:
            return math.nan
        v = x.v
        if _isc(v):
            return float(v)
        r = model.eval(v, model_completion=True)
        if z3.is_rational_value(r):
            return Fraction(r.numerator_as_long(), r.denominator_as_long())
        if z3.is_algebraic_value(r):
            return float(r.approx(20).as_fraction())
        raise Unsupported('cannot evaluate %s' % r)
    return x
