"""Environment stubs (each is part of the claim and is listed in the evidence of the harness
that uses it).  With no active symbolic context every stub is the real library function."""
import types

import numpy as _np
import z3

from . import core
from .core import SVal, SInt, SFloat, SBool, Unsupported
from .arr import SArr, _raw, wrap, unwrap, has_sym, _unlazy
from . import funcs

MODULE_PROXIES = {}      # real module name -> proxy object
FUNCTION_PROXIES = {}    # 'module.func' -> proxy callable


# ---- randomness ----------------------------------------------------------------------------

def current_log():
    ctx = core.cur()
    return ctx.memo.setdefault('random_draw_log', [])


class GlobalRNGUsed(Exception):
    """The code under test consulted NumPy's global (unseeded) random generator."""


def _global_rng(name):
    real = getattr(_np.random, name)

    def f(*a, **k):
        if not core.active():
            return real(*a, **k)
        raise GlobalRNGUsed('numpy.random.%s (global generator) called: result cannot be reproduced from '
                            'random_state' % name)
    return f


for _n in ('choice', 'randint', 'random', 'rand', 'randn', 'shuffle', 'permutation', 'random_integers',
           'random_sample', 'uniform', 'normal', 'seed'):
    if hasattr(_np.random, _n):
        funcs.SUB.setdefault('random', {})[_n] = _global_rng(_n)


class SymRandom:
    """Nondeterministic stand-in for numpy RandomState / Generator: every draw is an
    arbitrary admissible value (fresh variable)."""

    distinct_arrays = True

    def __init__(self, log=None):
        # all generators created on one path share one log (order of draws = order of calls)
        self.draws = log if log is not None else current_log()

    def _draw(self, lo, hi_excl, what):
        if hi_excl - lo <= 0:
            raise ValueError('low >= high')
        v = core.fresh_int('rnd', lo, hi_excl - 1)
        self.draws.append((what, v))
        return v

    def choice(self, a, size=None, replace=True, p=None):
        if size is not None or p is not None:
            raise Unsupported('choice(size=/p=)')
        from .arr import LazyIdx
        if isinstance(a, LazyIdx) and a._forced is None and a.mask.ndim == 1:
            # arbitrary element of {i : mask_i}: no fork on the mask
            m = _raw(a.mask)
            n = m.shape[0]
            anyset = core.sor(*[m[i] for i in range(n)])
            if not core.branch(anyset):
                raise ValueError("'a' cannot be empty unless no samples are taken")
            v = core.fresh_int('rnd', 0, n - 1)
            sel = None
            for i in range(n - 1, -1, -1):
                sel = m[i] if sel is None else core.ite(v == i, m[i], sel)
            core.cur().add(core.to_z3_bool(sel))
            # the recorded draw is the rank of v among the set positions (what the real generator is asked for)
            rank = 0
            for i in range(n):
                rank = rank + core.ite(core.sand(m[i], v > i), 1, 0)
            self.draws.append(('choice', rank))
            return v
        a = _unlazy(a)
        if isinstance(a, (int, _np.integer)):
            return self._draw(0, int(a), 'choice')
        n = len(a)
        if n == 0:
            raise ValueError("'a' cannot be empty unless no samples are taken")
        i = self._draw(0, n, 'choice')
        return a[i]

    def randint(self, low, high=None, size=None, **kw):
        if size is not None:
            raise Unsupported('randint(size=)')
        if high is None:
            low, high = 0, low
        return self._draw(int(low), int(high), 'randint')

    def integers(self, low, high=None, size=None, **kw):
        if high is None:
            low, high = 0, low
        if size is None:
            return self._draw(int(low), int(high), 'integers')
        n = int(size)
        vals = [self._draw(int(low), int(high), 'integers') for _ in range(n)]
        budget = core.cur().memo.get(('rnd-collision-budget',), COLLISION_BUDGET[0])
        if budget > 0:
            # this array draw may contain repeated values (and values drawn before): the code under test has to cope, e.g. by
            # redrawing; only after `budget` such draws the cut below applies
            core.cur().memo[('rnd-collision-budget',)] = budget - 1
            return funcs.np_array(vals, dtype=_np.int64)
        if self.distinct_arrays and int(high) - int(low) >= n:
            # rejection loops ("redraw until all different") are collapsed: the first draw is assumed
            # duplicate-free; the set of post-loop states is the same.
            import itertools
            for a, b in itertools.combinations(vals, 2):
                core.cur().add(a.t != b.t)
        return funcs.np_array(vals, dtype=_np.int64)


COLLISION_BUDGET = [0]     # harness option: number of array draws per path that are NOT assumed duplicate-free
REPLAY_RANDOM = [None]     # set by harness replays: generator that replays recorded draws


def sym_check_random_state(seed):
    from sklearn.utils import check_random_state as real
    if not core.active():
        if REPLAY_RANDOM[0] is not None:
            return REPLAY_RANDOM[0]
        return real(seed)
    if isinstance(seed, SymRandom):
        return seed
    return SymRandom()


def sym_default_rng(seed=None):
    if not core.active():
        if REPLAY_RANDOM[0] is not None:
            return REPLAY_RANDOM[0]
        return _np.random.default_rng(seed)
    if isinstance(seed, SymRandom):
        return seed
    return SymRandom()


FUNCTION_PROXIES['sklearn.utils.validation.check_random_state'] = sym_check_random_state
funcs.SUB.setdefault('random', {})['default_rng'] = sym_default_rng


# ---- linear algebra contracts -----------------------------------------------------------------

def _fresh_arr(shape, base):
    o = _np.empty(shape, dtype=object)
    for ix in _np.ndindex(shape):
        o[ix] = core.fresh_real(base)
    r = o.view(SArr)
    r.ldtype = _np.dtype(float)
    return r


def sym_solve(A, b):
    """contract: returns x with A.x = b (A assumed nonsingular by the harness precondition)"""
    A, b = _unlazy(A), _unlazy(b)
    if not core.active():
        return _np.linalg.solve(A, b)
    if not has_sym(A) and not has_sym(b):
        return wrap(_np.linalg.solve(unwrap(A), unwrap(b)))
    A = funcs._as_sarr(A)
    b = funcs._as_sarr(b)
    x = _fresh_arr(b.shape, 'solve')
    lhs = funcs.np_matmul(A, x)
    ctx = core.cur()
    for l, r in zip(_raw(lhs).flat, _raw(b).flat):
        ctx.add(core.to_z3_real(l) == core.to_z3_real(r))
    ctx.notes.append('stub:solve')
    return x


def sym_inv(M):
    M = _unlazy(M)
    if not core.active():
        return _np.linalg.inv(M)
    if not has_sym(M):
        return wrap(_np.linalg.inv(unwrap(M)))
    M = funcs._as_sarr(M)
    n = M.shape[0]
    Z = _fresh_arr((n, n), 'inv')
    ctx = core.cur()
    for P in (funcs.np_matmul(Z, M), funcs.np_matmul(M, Z)):
        for i in range(n):
            for j in range(n):
                ctx.add(core.to_z3_real(_raw(P)[i, j]) == (1 if i == j else 0))
    ctx.notes.append('stub:inv')
    return Z


def sym_norm(x, ord=None, axis=None, keepdims=False):
    if not core.active() or not has_sym(x):
        return wrap(_np.linalg.norm(unwrap(x) if core.active() else x, ord=ord, axis=axis, keepdims=keepdims)) if core.active() \
            else _np.linalg.norm(x, ord=ord, axis=axis, keepdims=keepdims)
    a = funcs._as_sarr(_unlazy(x))
    if axis is not None or keepdims or a.ndim != 1:
        raise Unsupported('numpy.linalg.norm beyond vector norms on symbolic values')
    cs = [core.as_sfloat(c) for c in a.cells()]
    ab = [core.ite(c < 0, -c, c) for c in cs]
    if ord == 1:
        return sum(ab[1:], ab[0]) if ab else 0.0
    if ord in (None, 2):
        return core.fl_sqrt(sum([c * c for c in cs][1:], cs[0] * cs[0])) if cs else 0.0
    if ord in (_np.inf, float('inf')):
        m = ab[0]
        for c in ab[1:]:
            m = core.ite(m < c, c, m)
        return m
    raise Unsupported('numpy.linalg.norm ord=%r on symbolic values' % (ord,))


funcs.SUB.setdefault('linalg', {})['norm'] = sym_norm
funcs.SUB.setdefault('linalg', {})['solve'] = sym_solve
funcs.SUB.setdefault('linalg', {})['inv'] = sym_inv


# ---- scipy ------------------------------------------------------------------------------------------

import scipy as _scipy
import scipy.sparse as _sp
import scipy.sparse.linalg as _spl
import scipy.linalg as _sl
from scipy.sparse.csgraph import connected_components as _real_cc


class SymCOO:
    """scipy.sparse.coo_matrix((data, (i, j)), shape) on symbolic cells.  Contract used: duplicate
    entries are summed; indices outside the shape are rejected with ValueError (scipy's check)."""
    format = 'coo'

    def __init__(self, data, rows=None, cols=None, shape=None, dtype=None):
        self.ndim = 2
        self._dense = None
        if rows is None:            # coo_matrix(dense) / coo_matrix(other sparse matrix)
            d = funcs._as_sarr(data.toarray() if hasattr(data, 'toarray') and not isinstance(data, _np.ndarray) else data)
            if d.ndim != 2:
                raise Unsupported('SymCOO from a non 2-D array')
            self._dense = d.copy()
            self.shape = tuple(d.shape)
            self.dtype = d.ldtype
            return
        self._d, self._r, self._c = list(data), list(rows), list(cols)
        self.shape = tuple(int(s) for s in shape)
        self.dtype = _np.dtype(dtype)

    def toarray(self, *a, **k):
        if self._dense is not None:
            return self._dense.copy()
        n, m = self.shape
        o = _np.empty((n, m), dtype=object)
        zero = 0 if self.dtype.kind in 'iu' else 0.0
        for i in range(n):
            for j in range(m):
                acc = zero
                for d, r, c in zip(self._d, self._r, self._c):
                    hit = core.sand(r == i, c == j)
                    if hit is False:
                        continue
                    acc = acc + core.ite(hit, d, zero)
                if self.dtype.kind in 'iu' and self.dtype.itemsize < 8:
                    # scipy sums duplicates in the element type of the matrix: the sum must fit it
                    info = _np.iinfo(self.dtype)
                    if isinstance(acc, core.SVal):
                        if core.active():
                            core.cur().wrap_obligations.append((self.dtype.name, core.sand(acc >= int(info.min), acc <= int(info.max))))
                    elif not (info.min <= acc <= info.max):
                        acc = int(_np.array(acc).astype(self.dtype))      # wraps, as the real sum does
                o[i, j] = acc
        r = o.view(SArr)
        r.ldtype = self.dtype
        return r

    todense = toarray
    A = property(lambda self: self.toarray())

    # stored entries.  A matrix built from triplets keeps them as given (duplicates NOT summed, explicit zeros kept),
    # as scipy does; one built from a dense array lists every cell (explicit zeros are legal stored entries).
    def _triplets(self):
        if self._dense is not None:
            n, m = self.shape
            raw = _raw(self._dense)
            return ([raw[i, j] for i in range(n) for j in range(m)], [i for i in range(n) for j in range(m)],
                    [j for i in range(n) for j in range(m)])
        return self._d, self._r, self._c

    @property
    def data(self):
        return funcs.np_array(list(self._triplets()[0]), dtype=self.dtype)

    @property
    def row(self):
        return funcs.np_array(list(self._triplets()[1]), dtype=_np.int32)

    @property
    def col(self):
        return funcs.np_array(list(self._triplets()[2]), dtype=_np.int32)

    @property
    def nnz(self):
        return len(self._triplets()[0])

    def __len__(self):
        raise TypeError('sparse array length is ambiguous; use getnnz() or shape[0]')

    def tocoo(self, copy=False): return self

    def copy(self):
        if self._dense is not None:
            return SymCOO(self._dense)
        return SymCOO(list(self._d), list(self._r), list(self._c), self.shape, self.dtype)

    def sum(self, axis=None):
        return self._shadow().sum(axis=axis)

    @property
    def T(self):
        if self._dense is not None:
            return SymCOO(self._dense.T)
        return SymCOO(list(self._d), list(self._c), list(self._r), self.shape[::-1], self.dtype)

    # arithmetic and conversions follow scipy's coo_matrix: they are delegated to the format-aware shadow (symnp/sparse.py)
    def _shadow(self):
        from . import sparse as _ss
        return _ss.CLASSES['coo'](self.toarray())

    def __add__(self, o):
        return self._shadow() + (o._shadow() if isinstance(o, SymCOO) else o)

    __radd__ = __add__

    def __sub__(self, o):
        return self._shadow() - (o._shadow() if isinstance(o, SymCOO) else o)

    def __truediv__(self, o):
        r = self._shadow() / o
        return SymCOO(r.toarray())

    def tocsr(self, copy=False): return self._shadow().tocsr()
    def tocsc(self, copy=False): return self._shadow().tocsc()
    def tolil(self, copy=False): return self._shadow().tolil()
    def todok(self, copy=False): return self._shadow().todok()
    def asfptype(self): return self if self.dtype.kind == 'f' else SymCOO(self.toarray().astype(float))
    def astype(self, dt, **k): return SymCOO(self.toarray().astype(dt))
    def multiply(self, o): return self._shadow().multiply(o)
    def dot(self, o): return self._shadow().dot(o._shadow() if isinstance(o, SymCOO) else o)
    def maximum(self, o): return self._shadow().maximum(o)
    def __lt__(self, o): return self._shadow() < o
    def __gt__(self, o): return self._shadow() > o
    __array_ufunc__ = None

    def __rsub__(self, o):
        return o - self._shadow()


def sym_coo_matrix(arg1, shape=None, dtype=None, copy=False):
    if core.active() and isinstance(arg1, SymCOO):
        return arg1.copy()
    if core.active() and isinstance(arg1, tuple) and len(arg1) == 2 and isinstance(arg1[1], tuple):
        arg1 = (_unlazy(arg1[0]), tuple(_unlazy(x) for x in arg1[1]))
    if not core.active():
        return _sp.coo_matrix(arg1, shape=shape, dtype=dtype, copy=copy)
    # inside a symbolic run every matrix is a SymCOO, also one without a single symbolic entry: a real scipy matrix would
    # hand plain ndarrays (toarray) back into code that mixes them with symbolic arrays
    if _sp.issparse(arg1):
        return SymCOO(funcs._as_sarr(arg1.toarray()))
    if not (isinstance(arg1, tuple) and len(arg1) == 2):
        if has_sym(arg1):
            raise Unsupported('coo_matrix from a symbolic dense array')
        return SymCOO(funcs._as_sarr(_np.asarray(unwrap(arg1))))
    data, ij = arg1
    data = funcs._as_sarr(_unlazy(data))
    ij = funcs._as_sarr(_unlazy(ij)) if not isinstance(ij, tuple) else ij
    rows, cols = (ij[0], ij[1])
    rows, cols = funcs._as_sarr(rows), funcs._as_sarr(cols)
    if not (data.shape == rows.shape == cols.shape) or data.ndim != 1:
        raise ValueError('row, column, and data array must all be the same length')
    if shape is None:
        raise Unsupported('coo_matrix without shape on symbolic indices')
    n, m = (int(operator_index(s)) for s in shape)
    rc, cc, dc = rows.cells(), cols.cells(), data.cells()
    for r in rc:
        if core.branch(r >= n):
            raise ValueError('row index exceeds matrix dimensions')
        if core.branch(r < 0):
            raise ValueError('negative row index found')
    for c in cc:
        if core.branch(c >= m):
            raise ValueError('column index exceeds matrix dimensions')
        if core.branch(c < 0):
            raise ValueError('negative column index found')
    return SymCOO(dc, rc, cc, (n, m), dtype if dtype is not None else data.ldtype)


def operator_index(x):
    import operator
    return operator.index(x)


def sym_issparse(x):
    from . import sparse as _ss
    return isinstance(x, (SymCOO, _ss.SymSp)) or _sp.issparse(x)


def sym_isspmatrix(x):
    from . import sparse as _ss
    return isinstance(x, (SymCOO, _ss.SymSp)) or _sp.isspmatrix(x)


def sym_spsolve(A, b, *a, **k):
    if not core.active():
        return _spl.spsolve(A, b, *a, **k)
    from . import sparse as _ss
    if isinstance(A, (SymCOO, _ss.SymSp)):
        A = A.toarray()
    if isinstance(b, _ss.SymSp):
        # scipy: a sparse right-hand side with ONE column gives a 1-D ndarray, with several columns a csc sparse ARRAY
        # (whose sum(axis=1) is 1-D, unlike a sparse matrix)
        bd = b.toarray()
        if bd.shape[1] == 1:
            return sym_solve(A, bd.reshape(-1)) if (has_sym(A) or has_sym(bd)) else \
                wrap(_np.linalg.solve(unwrap(A), unwrap(bd).reshape(-1)))
        cols = [sym_solve(A, bd[:, j]) if (has_sym(A) or has_sym(bd)) else wrap(_np.linalg.solve(unwrap(A), unwrap(bd)[:, j]))
                for j in range(bd.shape[1])]
        X = funcs.np_stack(cols, axis=1) if hasattr(funcs, 'np_stack') else funcs.np_array([[cells_of(c)[i] for c in cols] for i in range(bd.shape[0])], dtype=float)
        r = _ss.CLASSES['csc'](X)
        r._array_api = True
        return r
    if not has_sym(A) and not has_sym(b):
        import warnings
        with warnings.catch_warnings():
            warnings.simplefilter('ignore')
            return wrap(_spl.spsolve(unwrap(A), unwrap(b), *a, **k))
    return sym_solve(A, b)


def sym_connected_components(csgraph, directed=True, connection='weak', return_labels=True):
    """contract: labels = partition into strongly (or weakly) connected classes of the graph whose
    edges are the non-zero entries; classes numbered by their smallest member (scipy's numbering is
    unspecified; callers must not depend on it)."""
    if not core.active():
        return _real_cc(csgraph, directed=directed, connection=connection, return_labels=return_labels)
    if isinstance(csgraph, SymCOO):
        csgraph = csgraph.toarray()
    if not has_sym(csgraph):
        return wrap(_real_cc(unwrap(csgraph), directed=directed, connection=connection, return_labels=return_labels))
    G = funcs._as_sarr(csgraph)
    n = G.shape[0]
    g = _raw(G)
    e = [[(g[i, j] != 0) if i != j else True for j in range(n)] for i in range(n)]
    if not directed or connection == 'weak':
        e = [[core.sor(e[i][j], e[j][i]) for j in range(n)] for i in range(n)]
    # Warshall closure
    reach = [row[:] for row in e]
    for k in range(n):
        reach = [[core.sor(reach[i][j], core.sand(reach[i][k], reach[k][j])) for j in range(n)] for i in range(n)]
    same = [[core.sand(reach[i][j], reach[j][i]) for j in range(n)] for i in range(n)]
    ctx = core.cur()
    pairs = [(i, j) for i in range(n) for j in range(i + 1, n)]

    def pick(m):
        return tuple(bool(z3.is_true(m.eval(core.to_z3_bool(same[i][j]), model_completion=True))) for i, j in pairs)

    def cond(P):
        return z3.And(*[core.to_z3_bool(same[i][j]) if p else z3.Not(core.to_z3_bool(same[i][j]))
                        for (i, j), p in zip(pairs, P)]) if pairs else z3.BoolVal(True)
    while True:
        P, ok = ctx.choice(pick, cond)
        if ok:
            break
    rel = dict(zip(pairs, P))
    labels = [-1] * n
    nxt = 0
    for i in range(n):
        if labels[i] >= 0:
            continue
        labels[i] = nxt
        for j in range(i + 1, n):
            if rel[(i, j)]:
                labels[j] = nxt
        nxt += 1
    ctx.notes.append('stub:connected_components')
    lab = SArr.from_typed(_np.array(labels, dtype=_np.int32))
    return (nxt, lab) if return_labels else nxt


class SymLinearOperator:
    """scipy.sparse.linalg.aslinearoperator(A) for a dense symbolic A: matvec = A.x, rmatvec = A^H.x
    (= A^T.x for real A) -- the definition."""

    def __init__(self, A):
        self.A = funcs._as_sarr(A)
        self.shape = self.A.shape
        self.dtype = self.A.dtype

    def matvec(self, x):
        return funcs.np_matmul(self.A, funcs._as_sarr(x))

    def rmatvec(self, x):
        return funcs.np_matmul(funcs.np_transpose(self.A), funcs._as_sarr(x))

    dot = matvec


def sym_aslinearoperator(A):
    if not core.active():
        return _spl.aslinearoperator(A)
    if isinstance(A, SymCOO):
        A = A.toarray()
    if not has_sym(A):
        return _spl.aslinearoperator(unwrap(A))
    return SymLinearOperator(A)


class _SpLinalgProxy:
    def __getattr__(self, n):
        if n == 'spsolve':
            return sym_spsolve
        if n == 'aslinearoperator':
            return sym_aslinearoperator
        real = getattr(_spl, n)
        if callable(real) and not isinstance(real, type):
            def f(*a, **k):
                if core.active() and (has_sym(list(a)) or has_sym(k)):
                    raise Unsupported('scipy.sparse.linalg.%s on symbolic values' % n)
                return wrap(real(*unwrap(list(a)), **unwrap(k))) if core.active() else real(*a, **k)
            return f
        return real


class _SparseProxy:
    linalg = _SpLinalgProxy()
    coo_matrix = staticmethod(sym_coo_matrix)
    issparse = staticmethod(sym_issparse)
    isspmatrix = staticmethod(sym_isspmatrix)

    def __getattr__(self, n):
        real = getattr(_sp, n)
        if n in ('identity', 'eye', 'diags', 'spdiags'):
            # construction helpers: inside a symbolic run they build shadows too (a real scipy matrix cannot be combined
            # with a shadow operand)
            from . import sparse as _ss

            def helper(*a, **k):
                if not core.active():
                    return real(*a, **k)
                fmt = k.pop('format', None)
                if n in ('diags', 'spdiags') and (has_sym(list(a)) or has_sym(k)):
                    diagonals = a[0]
                    offsets = a[1] if len(a) > 1 else k.get('offsets', 0)
                    shape = a[2] if len(a) > 2 else k.get('shape')
                    if n == 'spdiags' or not _np.isscalar(offsets):
                        raise Unsupported('scipy.sparse.%s with several diagonals of symbolic values' % n)
                    d = funcs._as_sarr(_unlazy(diagonals))
                    if d.ndim != 1:
                        raise Unsupported('scipy.sparse.diags with a 2-D symbolic diagonal')
                    m = d.shape[0] + abs(int(offsets))
                    shape = shape or (m, m)
                    cells_ = d.cells()
                    rows = [i - min(int(offsets), 0) * 0 + (0 if int(offsets) >= 0 else -int(offsets)) for i in range(len(cells_))]
                    cols = [i + (int(offsets) if int(offsets) >= 0 else 0) for i in range(len(cells_))]
                    o = _ss.CLASSES['dia'].__new__(_ss.CLASSES['dia'])
                    o._from_entries(list(cells_), rows, cols, shape, d.ldtype)
                    return o.asformat(fmt) if fmt else o
                r = real(*unwrap(list(a)), **unwrap(k))
                sh = _ss.CLASSES[r.format](SArr.from_typed(_np.asarray(r.toarray())))
                # scipy stores explicit zeros of a diagonal; the shadow keeps the non-zero pattern (values agree)
                return sh.asformat(fmt) if fmt else sh
            return helper
        if n.endswith('_matrix') and n[:-7] in ('csr', 'csc', 'lil', 'dok', 'dia', 'bsr'):
            from . import sparse as _ss
            cls = _ss.CLASSES[n[:-7]]

            def sctor(*a, **k):
                if not core.active():
                    return real(*a, **k)
                return cls(*a, **k)
            return sctor
        if isinstance(real, type):
            def ctor(*a, **k):
                if core.active() and (has_sym(list(a)) or has_sym(k)):
                    raise Unsupported('scipy.sparse.%s on symbolic values (scipy.sparse containers cannot hold '
                                      'solver terms)' % n)
                return real(*unwrap(list(a)), **unwrap(k)) if core.active() else real(*a, **k)
            return ctor
        return real


def sym_eig(T, *a, **k):
    if not core.active():
        return _sl.eig(T, *a, **k)
    if not has_sym(T):
        return wrap(_sl.eig(unwrap(T), *a, **k))
    hook = EIG_CONTRACT[0]
    if hook is None:
        raise Unsupported('scipy.linalg.eig on symbolic values without a harness contract')
    left = k.get('left', a[1] if len(a) > 1 else False)
    right = k.get('right', a[2] if len(a) > 2 else True)
    if (len(a) > 0 and a[0] is not None) or k.get('b') is not None:
        raise Unsupported('generalised eigenproblem on symbolic values')
    if left and not right:
        # (w, vl) with vl^H T = w vl^H: the left eigenvectors of T are the right eigenvectors of T^T (real matrices)
        return hook(funcs._as_sarr(T).T)
    if right and not left:
        return hook(T)
    raise Unsupported('scipy.linalg.eig(left=%r, right=%r) on symbolic values' % (left, right))


EIG_CONTRACT = [None]     # harness-supplied contract for scipy.linalg.eig


class _SciLinalgProxy:
    def __getattr__(self, n):
        if n == 'eig':
            return sym_eig
        real = getattr(_sl, n)
        if callable(real) and not isinstance(real, type):
            def f(*a, **k):
                if core.active() and (has_sym(list(a)) or has_sym(k)):
                    raise Unsupported('scipy.linalg.%s on symbolic values' % n)
                return wrap(real(*unwrap(list(a)), **unwrap(k))) if core.active() else real(*a, **k)
            return f
        return real


class _ScipyProxy:
    sparse = _SparseProxy()
    linalg = _SciLinalgProxy()

    def __getattr__(self, n):
        return getattr(_scipy, n)


MODULE_PROXIES['scipy'] = _ScipyProxy()
MODULE_PROXIES['scipy.sparse'] = _ScipyProxy.sparse
MODULE_PROXIES['scipy.linalg'] = _ScipyProxy.linalg
MODULE_PROXIES['scipy.sparse.linalg'] = _SparseProxy.linalg
FUNCTION_PROXIES['scipy.sparse.csgraph._traversal.connected_components'] = sym_connected_components


def perron_contract(M):
    """Contract for scipy.linalg.eig(M) when M = T.T for an irreducible row-stochastic T (so the right
    eigenvectors of M are the left eigenvectors of T):  eigenvalues are represented by their real parts;
    exactly one of them equals 1 and all others are strictly smaller; its eigenvector is c*pi with pi the
    (unique, positive, normalised) stationary distribution and c an arbitrary non-zero scale; the output
    order and all other eigenvectors are arbitrary.  Memoised on the structure of the argument."""
    ctx = core.cur()
    M = funcs._as_sarr(M)
    n = M.shape[0]
    key = ('eig',) + tuple(core.to_z3_real(c).get_id() if isinstance(c, SVal) else c for c in M.cells())
    if key in ctx.memo:
        vals, vecs = ctx.memo[key]
        return vals.copy(), vecs.copy()
    m = _raw(M)
    p = core.fresh_int('eigpos', 0, n - 1)
    lam = [core.fresh_real('eigval') for _ in range(n)]
    # strictly positive matrices are primitive: every other eigenvalue has modulus < 1 (Perron); for merely
    # irreducible (possibly periodic) matrices other eigenvalues may lie ON the unit circle (real part >= -1)
    strict = all(ctx.forced(core.to_z3_bool(c > 0)) is True for c in M.cells()) if n <= 4 else False
    for k in range(n):
        lo = (core.to_z3_real(lam[k]) > -1) if strict else (core.to_z3_real(lam[k]) >= -1)
        ctx.add(z3.If(p.t == k, core.to_z3_real(lam[k]) == 1, z3.And(core.to_z3_real(lam[k]) < 1, lo)))
    pi = [core.fresh_real('pi') for _ in range(n)]
    for x in pi:
        ctx.add(core.to_z3_real(x) > 0)
    ctx.add(core.to_z3_bool(sum(pi[1:], pi[0]) == 1))
    for i in range(n):       # M.pi = pi
        ctx.add(core.to_z3_bool(sum([m[i, j] * pi[j] for j in range(1, n)], m[i, 0] * pi[0]) == pi[i]))
    c = core.fresh_real('eigscale')
    ctx.add(core.to_z3_real(c) != 0)
    V = _np.empty((n, n), dtype=object)
    for i in range(n):
        for k in range(n):
            V[i, k] = core.ite(p == k, c * pi[i], core.fresh_real('eigvec'))
    vals = funcs.np_array(lam, dtype=float)
    vecs = V.view(SArr)
    vecs.ldtype = _np.dtype(float)
    ctx.memo[key] = (vals, vecs)
    ctx.memo.setdefault('perron_pi', []).append(pi)
    ctx.notes.append('stub:eig(perron contract)')
    return vals.copy(), vecs.copy()
