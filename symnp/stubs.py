"""Environment stubs (each is part of the claim and is listed in the evidence of the harness
that uses it).  With no active symbolic context every stub is the real library function."""
import types

import numpy as _np
import z3

from . import core
from .core import SVal, SInt, SFloat, SBool, Unsupported
from .arr import SArr, _raw, wrap, unwrap, has_sym, _unlazy
from . import funcs

MODULE_PROXIES = {}      # real module name -> proxy object
FUNCTION_PROXIES = {}    # 'module.func' -> proxy callable


# ---- randomness ----------------------------------------------------------------------------

class SymRandom:
    """Nondeterministic stand-in for numpy RandomState / Generator: every draw is an
    arbitrary admissible value (fresh variable)."""

    def __init__(self, log=None):
        self.draws = log if log is not None else []

    def _draw(self, lo, hi_excl, what):
        if hi_excl - lo <= 0:
            raise ValueError('low >= high')
        v = core.fresh_int('rnd', lo, hi_excl - 1)
        self.draws.append((what, v))
        return v

    def choice(self, a, size=None, replace=True, p=None):
        if size is not None or p is not None:
            raise Unsupported('choice(size=/p=)')
        a = _unlazy(a)
        if isinstance(a, (int, _np.integer)):
            return self._draw(0, int(a), 'choice')
        n = len(a)
        if n == 0:
            raise ValueError("'a' cannot be empty unless no samples are taken")
        i = self._draw(0, n, 'choice')
        return a[i]

    def randint(self, low, high=None, size=None, **kw):
        if size is not None:
            raise Unsupported('randint(size=)')
        if high is None:
            low, high = 0, low
        return self._draw(int(low), int(high), 'randint')

    def integers(self, low, high=None, size=None, **kw):
        if high is None:
            low, high = 0, low
        if size is None:
            return self._draw(int(low), int(high), 'integers')
        n = int(size)
        return funcs.np_array([self._draw(int(low), int(high), 'integers') for _ in range(n)], dtype=_np.int64)


def sym_check_random_state(seed):
    from sklearn.utils import check_random_state as real
    if not core.active():
        return real(seed)
    if isinstance(seed, SymRandom):
        return seed
    return SymRandom()


def sym_default_rng(seed=None):
    if not core.active():
        return _np.random.default_rng(seed)
    if isinstance(seed, SymRandom):
        return seed
    return SymRandom()


FUNCTION_PROXIES['sklearn.utils.validation.check_random_state'] = sym_check_random_state
funcs.SUB.setdefault('random', {})['default_rng'] = sym_default_rng


# ---- linear algebra contracts -----------------------------------------------------------------

def _fresh_arr(shape, base):
    o = _np.empty(shape, dtype=object)
    for ix in _np.ndindex(shape):
        o[ix] = core.fresh_real(base)
    r = o.view(SArr)
    r.ldtype = _np.dtype(float)
    return r


def sym_solve(A, b):
    """contract: returns x with A.x = b (A assumed nonsingular by the harness precondition)"""
    A, b = _unlazy(A), _unlazy(b)
    if not core.active():
        return _np.linalg.solve(A, b)
    if not has_sym(A) and not has_sym(b):
        return wrap(_np.linalg.solve(unwrap(A), unwrap(b)))
    A = funcs._as_sarr(A)
    b = funcs._as_sarr(b)
    x = _fresh_arr(b.shape, 'solve')
    lhs = funcs.np_matmul(A, x)
    ctx = core.cur()
    for l, r in zip(_raw(lhs).flat, _raw(b).flat):
        ctx.add(core.to_z3_real(l) == core.to_z3_real(r))
    ctx.notes.append('stub:solve')
    return x


def sym_inv(M):
    M = _unlazy(M)
    if not core.active():
        return _np.linalg.inv(M)
    if not has_sym(M):
        return wrap(_np.linalg.inv(unwrap(M)))
    M = funcs._as_sarr(M)
    n = M.shape[0]
    Z = _fresh_arr((n, n), 'inv')
    ctx = core.cur()
    for P in (funcs.np_matmul(Z, M), funcs.np_matmul(M, Z)):
        for i in range(n):
            for j in range(n):
                ctx.add(core.to_z3_real(_raw(P)[i, j]) == (1 if i == j else 0))
    ctx.notes.append('stub:inv')
    return Z


funcs.SUB.setdefault('linalg', {})['solve'] = sym_solve
funcs.SUB.setdefault('linalg', {})['inv'] = sym_inv
