"""Environment stubs (each is part of the claim and is listed in the evidence of the harness
that uses it).  With no active symbolic context every stub is the real library function."""
import types

import numpy as _np
import z3

from . import core
from .core import SVal, SInt, SFloat, SBool, Unsupported
from .arr import SArr, _raw, wrap, unwrap, has_sym, _unlazy
from . import funcs

MODULE_PROXIES = {}      # real module name -> proxy object
FUNCTION_PROXIES = {}    # 'module.func' -> proxy callable


# ---- randomness ----------------------------------------------------------------------------

def current_log():
    ctx = core.cur()
    return ctx.memo.setdefault('random_draw_log', [])


class GlobalRNGUsed(Exception):
    """The code under test consulted NumPy's global (unseeded) random generator."""


def _global_rng(name):
    real = getattr(_np.random, name)

    def f(*a, **k):
        if not core.active():
            return real(*a, **k)
        raise GlobalRNGUsed('numpy.random.%s (global generator) called: result cannot be reproduced from '
                            'random_state' % name)
    return f


for _n in ('choice', 'randint', 'random', 'rand', 'randn', 'shuffle', 'permutation', 'random_integers',
           'random_sample', 'uniform', 'normal', 'seed'):
    if hasattr(_np.random, _n):
        funcs.SUB.setdefault('random', {})[_n] = _global_rng(_n)


class SymRandom:
    """Nondeterministic stand-in for numpy RandomState / Generator: every draw is an
    arbitrary admissible value (fresh variable)."""

    distinct_arrays = True

    def __init__(self, log=None):
        # all generators created on one path share one log (order of draws = order of calls)
        self.draws = log if log is not None else current_log()

    def _draw(self, lo, hi_excl, what):
        if hi_excl - lo <= 0:
            raise ValueError('low >= high')
        v = core.fresh_int('rnd', lo, hi_excl - 1)
        self.draws.append((what, v))
        return v

    def choice(self, a, size=None, replace=True, p=None):
        if size is not None or p is not None:
            raise Unsupported('choice(size=/p=)')
        from .arr import LazyIdx
        if isinstance(a, LazyIdx) and a._forced is None and a.mask.ndim == 1:
            # arbitrary element of {i : mask_i}: no fork on the mask
            m = _raw(a.mask)
            n = m.shape[0]
            anyset = core.sor(*[m[i] for i in range(n)])
            if not core.branch(anyset):
                raise ValueError("'a' cannot be empty unless no samples are taken")
            v = core.fresh_int('rnd', 0, n - 1)
            sel = None
            for i in range(n - 1, -1, -1):
                sel = m[i] if sel is None else core.ite(v == i, m[i], sel)
            core.cur().add(core.to_z3_bool(sel))
            # the recorded draw is the rank of v among the set positions (what the real generator is asked for)
            rank = 0
            for i in range(n):
                rank = rank + core.ite(core.sand(m[i], v > i), 1, 0)
            self.draws.append(('choice', rank))
            return v
        a = _unlazy(a)
        if isinstance(a, (int, _np.integer)):
            return self._draw(0, int(a), 'choice')
        n = len(a)
        if n == 0:
            raise ValueError("'a' cannot be empty unless no samples are taken")
        i = self._draw(0, n, 'choice')
        return a[i]

    def randint(self, low, high=None, size=None, **kw):
        if size is not None:
            raise Unsupported('randint(size=)')
        if high is None:
            low, high = 0, low
        return self._draw(int(low), int(high), 'randint')

    def integers(self, low, high=None, size=None, **kw):
        if high is None:
            low, high = 0, low
        if size is None:
            return self._draw(int(low), int(high), 'integers')
        n = int(size)
        vals = [self._draw(int(low), int(high), 'integers') for _ in range(n)]
        if self.distinct_arrays and int(high) - int(low) >= n:
            # rejection loops ("redraw until all different") are collapsed: the first draw is assumed
            # duplicate-free; the set of post-loop states is the same.
            import itertools
            for a, b in itertools.combinations(vals, 2):
                core.cur().add(a.t != b.t)
        return funcs.np_array(vals, dtype=_np.int64)


REPLAY_RANDOM = [None]     # set by harness replays: generator that replays recorded draws


def sym_check_random_state(seed):
    from sklearn.utils import check_random_state as real
    if not core.active():
        if REPLAY_RANDOM[0] is not None:
            return REPLAY_RANDOM[0]
        return real(seed)
    if isinstance(seed, SymRandom):
        return seed
    return SymRandom()


def sym_default_rng(seed=None):
    if not core.active():
        if REPLAY_RANDOM[0] is not None:
            return REPLAY_RANDOM[0]
        return _np.random.default_rng(seed)
    if isinstance(seed, SymRandom):
        return seed
    return SymRandom()


FUNCTION_PROXIES['sklearn.utils.validation.check_random_state'] = sym_check_random_state
funcs.SUB.setdefault('random', {})['default_rng'] = sym_default_rng


# ---- linear algebra contracts -----------------------------------------------------------------

def _fresh_arr(shape, base):
    o = _np.empty(shape, dtype=object)
    for ix in _np.ndindex(shape):
        o[ix] = core.fresh_real(base)
    r = o.view(SArr)
    r.ldtype = _np.dtype(float)
    return r


def sym_solve(A, b):
    """contract: returns x with A.x = b (A assumed nonsingular by the harness precondition)"""
    A, b = _unlazy(A), _unlazy(b)
    if not core.active():
        return _np.linalg.solve(A, b)
    if not has_sym(A) and not has_sym(b):
        return wrap(_np.linalg.solve(unwrap(A), unwrap(b)))
    A = funcs._as_sarr(A)
    b = funcs._as_sarr(b)
    x = _fresh_arr(b.shape, 'solve')
    lhs = funcs.np_matmul(A, x)
    ctx = core.cur()
    for l, r in zip(_raw(lhs).flat, _raw(b).flat):
        ctx.add(core.to_z3_real(l) == core.to_z3_real(r))
    ctx.notes.append('stub:solve')
    return x


def sym_inv(M):
    M = _unlazy(M)
    if not core.active():
        return _np.linalg.inv(M)
    if not has_sym(M):
        return wrap(_np.linalg.inv(unwrap(M)))
    M = funcs._as_sarr(M)
    n = M.shape[0]
    Z = _fresh_arr((n, n), 'inv')
    ctx = core.cur()
    for P in (funcs.np_matmul(Z, M), funcs.np_matmul(M, Z)):
        for i in range(n):
            for j in range(n):
                ctx.add(core.to_z3_real(_raw(P)[i, j]) == (1 if i == j else 0))
    ctx.notes.append('stub:inv')
    return Z


funcs.SUB.setdefault('linalg', {})['solve'] = sym_solve
funcs.SUB.setdefault('linalg', {})['inv'] = sym_inv
