"""NumPy function layer for SArr: `__array_function__` dispatch and the `np` proxy namespace
that /repo modules are rebound to while they are executed symbolically."""
import builtins
import itertools
import math
import operator
import types

import numpy as _np

from . import core
from .core import (SVal, SBool, SInt, SFloat, Unsupported, ite, as_sfloat, snot)
from .arr import (SArr, _raw, norm_cell, coerce, _unlazy, _scalar_dtype, LazyMasked, LazyWhere,
                  LazyIdx, wrap, unwrap, has_sym, ite_merge, compress_positions, _infer_shape)
from . import ufuncs
from .ufuncs import s_max, s_min, s_isnan

_nd = _np.ndarray


def _mk(obj, dt):
    r = obj.view(SArr)
    r.ldtype = _np.dtype(dt)
    return r


def _as_sarr(x, dtype=None):
    x = _unlazy(x)
    if isinstance(x, SArr):
        return x if dtype is None or _np.dtype(dtype) == x.ldtype else x.astype(dtype)
    if isinstance(x, _nd):
        r = SArr.from_typed(x)
        return r if dtype is None else r.astype(dtype)
    return np_array(x, dtype=dtype)


# ------------------------------------------------------------------------------------------
# creation
# ------------------------------------------------------------------------------------------

def _shape(shape):
    if isinstance(shape, (int, _np.integer, SInt)):
        return (operator.index(shape),)
    return tuple(operator.index(s) for s in shape)


def _default_dt(dtype, fallback=float):
    return _np.dtype(fallback if dtype is None else dtype)


def np_zeros(shape, dtype=None, order='C', **kw):
    _reject_kw('zeros', kw)
    dt = _default_dt(dtype)
    return SArr.from_typed(_np.zeros(_shape(shape), dtype=dt))


def np_ones(shape, dtype=None, order='C', **kw):
    _reject_kw('ones', kw)
    dt = _default_dt(dtype)
    return SArr.from_typed(_np.ones(_shape(shape), dtype=dt))


def np_empty(shape, dtype=None, order='C', **kw):
    _reject_kw('empty', kw)
    dt = _default_dt(dtype)
    shape = _shape(shape)
    o = _np.empty(shape, dtype=object)
    if dt.kind == 'O':
        return _mk(o, dt)
    for ix in _np.ndindex(shape):
        o[ix] = ufuncs._garbage(dt)
    return _mk(o, dt)


def np_full(shape, fill_value, dtype=None, order='C', **kw):
    _reject_kw('full', kw)
    fill_value = _unlazy(fill_value)
    if dtype is None:
        dtype = _scalar_dtype(fill_value)
    dt = _np.dtype(dtype)
    shape = _shape(shape)
    o = _np.empty(shape, dtype=object)
    v = coerce(fill_value, dt)
    for ix in _np.ndindex(shape):
        o[ix] = v
    return _mk(o, dt)


def np_zeros_like(a, dtype=None, **kw):
    _reject_kw('zeros_like', kw)
    a = _unlazy(a)
    dt = dtype if dtype is not None else (a.dtype if hasattr(a, 'dtype') else _np.asarray(a).dtype)
    return np_zeros(_np.shape(_shape_src(a)), dtype=dt)


def np_ones_like(a, dtype=None, **kw):
    _reject_kw('ones_like', kw)
    a = _unlazy(a)
    dt = dtype if dtype is not None else (a.dtype if hasattr(a, 'dtype') else _np.asarray(a).dtype)
    return np_ones(_np.shape(_shape_src(a)), dtype=dt)


def np_empty_like(a, dtype=None, **kw):
    _reject_kw('empty_like', kw)
    a = _unlazy(a)
    dt = dtype if dtype is not None else (a.dtype if hasattr(a, 'dtype') else _np.asarray(a).dtype)
    return np_empty(_np.shape(_shape_src(a)), dtype=dt)


def np_full_like(a, fill_value, dtype=None, **kw):
    _reject_kw('full_like', kw)
    a = _unlazy(a)
    dt = dtype if dtype is not None else (a.dtype if hasattr(a, 'dtype') else _np.asarray(a).dtype)
    return np_full(_np.shape(_shape_src(a)), fill_value, dtype=dt)


def _shape_src(a):
    if isinstance(a, SArr):
        return _raw(a)
    if isinstance(a, SVal):
        return 0
    return a


def _leaf_dtype(x):
    """common logical dtype of the leaves of a nested structure"""
    dts = []

    def rec(y):
        y = _unlazy(y)
        if isinstance(y, SArr):
            dts.append(y.ldtype)
        elif isinstance(y, _nd):
            dts.append(y.dtype)
        elif isinstance(y, (list, tuple)):
            for z in y:
                rec(z)
        else:
            dts.append(_scalar_dtype(y))
    rec(x)
    if not dts:
        return _np.dtype(float)
    if any(d.kind == 'O' for d in dts):
        return _np.dtype(object)
    return _np.result_type(*dts)


def np_array(obj, dtype=None, copy=True, order='K', subok=False, ndmin=0, **kw):
    _reject_kw('array', kw)
    obj = _unlazy(obj)
    if type(obj).__name__ == 'SymMatrix' and not subok:
        obj = obj.view_plain()            # np.array / np.asarray of an np.matrix is a plain ndarray
    if isinstance(obj, SArr):
        r = obj.astype(dtype) if (dtype is not None and _np.dtype(dtype) != obj.ldtype) else \
            (obj.copy(order=order) if copy or copy is None and False else obj)      # order='K' keeps a column-major layout
    elif isinstance(obj, _nd):
        r = SArr.from_typed(obj if dtype is None else obj.astype(dtype))
    elif isinstance(obj, SVal):
        dt = _np.dtype(dtype) if dtype is not None else _scalar_dtype(obj)
        o = _np.empty((), dtype=object)
        o[()] = coerce(obj, dt)
        r = _mk(o, dt)
    else:
        if hasattr(obj, '__array__') and not isinstance(obj, (list, tuple)):
            return np_array(obj.__array__(), dtype=dtype, ndmin=ndmin)
        if isinstance(obj, (range, types.GeneratorType, map, zip)):
            obj = list(obj)
        if not isinstance(obj, (list, tuple)):
            a = _np.array(obj, dtype=dtype)
            r = SArr.from_typed(a)
        else:
            dt = _np.dtype(dtype) if dtype is not None else _leaf_dtype(obj)
            if dt.kind == 'O':
                r = _object_array_from_list(obj)
            else:
                shape = _infer_shape(_unlazy_deep(obj))
                r = SArr(_unlazy_deep(obj), dt, shape)
    while r.ndim < ndmin:
        r = r.reshape((1,) + r.shape)
    return r


def _unlazy_deep(x):
    x = _unlazy(x)
    if isinstance(x, (list, tuple)):
        return [_unlazy_deep(y) for y in x]
    return x


def _object_array_from_list(obj):
    """np.array(list, dtype=object): NumPy's own rectangular-vs-ragged decision is reproduced
    by running it on the underlying object arrays."""
    rows = [_raw(_unlazy(y)) if isinstance(_unlazy(y), _nd) else _unlazy(y) for y in obj]
    shapes = [getattr(y, 'shape', None) for y in rows]
    if len(rows) and all(s is not None for s in shapes) and len(set(shapes)) == 1:
        # rectangular: numpy stacks
        o = _np.empty((len(rows),) + shapes[0], dtype=object)
        for i, y in enumerate(rows):
            o[i] = y
        return _mk(o, object)
    if len(rows) and all(s is not None and len(s) >= 1 for s in shapes) and \
            len({s[1:] for s in shapes}) == 1 and len({s[0] for s in shapes}) > 1:
        o = _np.empty(len(rows), dtype=object)
        for i, y in enumerate(obj):
            o[i] = _unlazy(y)
        return _mk(o, object)
    a = _np.array(obj, dtype=object)
    return _mk(a, object)


def np_asarray(a, dtype=None, **kw):
    _reject_kw('asarray', kw)
    a = _unlazy(a)
    if type(a).__name__ == 'SymMatrix':
        a = a.view_plain()
    if isinstance(a, SArr) and (dtype is None or _np.dtype(dtype) == a.ldtype):
        return a
    return np_array(a, dtype=dtype, copy=False)


def _as_layout(a, dtype, order):
    """asfortranarray / ascontiguousarray: no copy when the logical dtype and the memory layout already match (the result
    then ALIASES the argument, exactly as in NumPy - in-place writes to it reach the caller's array)"""
    a = _unlazy(a)
    if not isinstance(a, SArr):
        a = np_array(a, dtype=dtype)
    elif dtype is not None and _np.dtype(dtype) != a.ldtype:
        a = a.astype(dtype)
    if a.ndim == 0:
        a = a.reshape(1)
    flags = _raw(a).flags
    if (flags.f_contiguous if order == 'F' else flags.c_contiguous):
        return a
    return a.copy(order=order)


def np_asfortranarray(a, dtype=None, **kw):
    _reject_kw('asfortranarray', kw)
    if _conc(a) and not isinstance(a, SArr):
        return _delegate('asfortranarray', a, dtype=dtype)
    return _as_layout(a, dtype, 'F')


def np_ascontiguousarray(a, dtype=None, **kw):
    _reject_kw('ascontiguousarray', kw)
    if _conc(a) and not isinstance(a, SArr):
        return _delegate('ascontiguousarray', a, dtype=dtype)
    return _as_layout(a, dtype, 'C')


def np_result_type(*args):
    """NumPy's promotion of dtypes / arrays / scalars; a symbolic scalar takes part as a Python scalar of its kind"""
    conv = []
    for a in args:
        a = _unlazy(a)
        if isinstance(a, SArr):
            conv.append(_np.empty(0, a.ldtype))
        elif isinstance(a, core.SFloat):
            conv.append(1.0)
        elif isinstance(a, core.SInt):
            conv.append(1)
        elif isinstance(a, core.SBool):
            conv.append(True)
        else:
            conv.append(a)
    return _np.result_type(*conv)


def np_copy(a, **kw):
    _reject_kw('copy', kw)
    return _as_sarr(a).copy()


def np_arange(*args, dtype=None, **kw):
    _reject_kw('arange', kw)
    args = [operator.index(a) if isinstance(a, SInt) else a for a in args]
    return SArr.from_typed(_np.arange(*args, dtype=dtype))


def np_eye(N, M=None, k=0, dtype=float, **kw):
    _reject_kw('eye', kw)
    return SArr.from_typed(_np.eye(operator.index(N), None if M is None else operator.index(M), k, dtype=dtype))


def np_identity(n, dtype=float):
    return np_eye(n, dtype=dtype)


# ------------------------------------------------------------------------------------------
# reductions
# ------------------------------------------------------------------------------------------

def _reduce_axis(a, axis, fn, init_fn, keepdims=False, out_dt=None, empty_err=None):
    """generic fold along `axis` (None = all).  fn(acc, cell) -> acc"""
    a = _as_sarr(a)
    r = _raw(a)
    out_dt = _np.dtype(out_dt) if out_dt is not None else a.ldtype
    if axis is None:
        cells = list(r.flat)
        if not cells and empty_err:
            raise ValueError(empty_err)
        acc = init_fn()
        for c in cells:
            acc = fn(acc, c) if acc is not _NOINIT else c
        if acc is _NOINIT:
            raise ValueError(empty_err or 'zero-size reduction')
        acc = coerce(acc, out_dt) if out_dt.kind != 'O' else acc
        if keepdims:
            o = _np.empty((1,) * r.ndim, dtype=object)
            o.reshape(-1)[0] = acc
            return _mk(o, out_dt)
        return acc if isinstance(acc, SVal) or out_dt.kind == 'O' else out_dt.type(acc)
    if isinstance(axis, tuple):
        res = a
        for ax in sorted([x % r.ndim for x in axis], reverse=True):
            res = _reduce_axis(res, ax, fn, init_fn, keepdims, out_dt, empty_err)
        return res
    axis = operator.index(axis)
    if axis < 0:
        axis += r.ndim
    if not 0 <= axis < r.ndim:
        raise _np.exceptions.AxisError(axis, r.ndim)
    moved = _np.moveaxis(r, axis, -1)
    oshape = moved.shape[:-1]
    if moved.shape[-1] == 0 and empty_err:
        raise ValueError(empty_err)
    o = _np.empty(oshape, dtype=object)
    for ix in _np.ndindex(oshape):
        acc = init_fn()
        for c in moved[ix]:
            acc = fn(acc, c) if acc is not _NOINIT else c
        o[ix] = coerce(acc, out_dt) if out_dt.kind != 'O' else acc
    if keepdims:
        o = _np.expand_dims(o, axis)
    res = _mk(o, out_dt)
    if res.ndim == 0:
        c = o[()]
        return c if isinstance(c, SVal) else out_dt.type(c)
    return res


_NOINIT = object()


def _conc(a):
    a = _unlazy(a)
    return (isinstance(a, SArr) and a.is_concrete()) or (not isinstance(a, SArr) and not has_sym(a))


_HARMLESS_KW = {'like': (None,), 'subok': (True, False), 'order': (None, 'C')}


def _reject_kw(fname, kw):
    """keyword arguments this front end does not model must not be dropped silently"""
    for k, v in kw.items():
        ok = _HARMLESS_KW.get(k)
        if ok is None or not any(v is o or v == o for o in ok):
            raise Unsupported('%s(%s=%r) is not modelled' % (fname, k, v))


def _delegate(name, *args, **kw):
    f = _resolve(name)
    with _np.errstate(all='ignore'):
        r = f(*unwrap(list(args)), **unwrap(kw))
    return wrap(r)


def _resolve(name):
    obj = _np
    for part in name.split('.'):
        obj = getattr(obj, part)
    return obj


def _sum_dtype(dt):
    return _np.add.reduce(_np.empty(0, dtype=dt)).dtype


def np_sum(a, axis=None, dtype=None, out=None, keepdims=False, initial=None, where=True, **kw):
    a = _unlazy(a)
    if isinstance(a, (list, tuple)):
        a = np_array(a)
    if where is not True or out is not None:
        raise Unsupported('sum(where=/out=)')
    _reject_kw('sum', kw)
    if _conc(a) and not isinstance(initial, core.SVal):
        return _delegate('sum', a, axis=axis, dtype=dtype, keepdims=keepdims, **({} if initial is None else {'initial': initial}))
    a = _as_sarr(a)
    odt = _np.dtype(dtype) if dtype is not None else _sum_dtype(a.ldtype)
    zero = coerce(0 if initial is None else initial, odt)
    return _reduce_axis(a, axis, lambda acc, c: acc + coerce(c, odt), lambda: zero, keepdims, odt)


def np_prod(a, axis=None, dtype=None, keepdims=False, **kw):
    _reject_kw('prod', kw)
    a = _unlazy(a)
    if _conc(a):
        return _delegate('prod', a, axis=axis, dtype=dtype, keepdims=keepdims)
    a = _as_sarr(a)
    odt = _np.dtype(dtype) if dtype is not None else _np.multiply.reduce(_np.empty(0, dtype=a.ldtype)).dtype
    one = coerce(1, odt)
    return _reduce_axis(a, axis, lambda acc, c: acc * coerce(c, odt), lambda: one, keepdims, odt)


def np_mean(a, axis=None, dtype=None, keepdims=False, **kw):
    _reject_kw('mean', kw)
    a = _unlazy(a)
    if _conc(a):
        return _delegate('mean', a, axis=axis, dtype=dtype, keepdims=keepdims)
    a = _as_sarr(a)
    s = np_sum(a.astype(float) if a.ldtype.kind != 'f' else a, axis=axis, keepdims=keepdims)
    if axis is None:
        n = a.size
    elif isinstance(axis, tuple):
        n = 1
        for ax in axis:
            n *= a.shape[ax]
    else:
        n = a.shape[axis]
    return s / float(n) if n else s / 0.0


def np_max(a, axis=None, out=None, keepdims=False, initial=None, where=True, **kw):
    if out is not None:
        raise Unsupported('max(out=...) is not modelled')
    a = _unlazy(a)
    if isinstance(a, (list, tuple)):
        a = np_array(a)
    if where is not True:
        raise Unsupported('max(where=...) is not modelled')
    _reject_kw('max', kw)
    if _conc(a) and not isinstance(initial, core.SVal):
        return _delegate('max', a, axis=axis, keepdims=keepdims, **({} if initial is None else {'initial': initial}))
    return _reduce_axis(a, axis, lambda acc, c: s_max(acc, c), (lambda: _NOINIT) if initial is None else (lambda: initial), keepdims,
                        empty_err=None if initial is not None else 'zero-size array to reduction operation maximum which has no identity')


def np_min(a, axis=None, out=None, keepdims=False, initial=None, where=True, **kw):
    if out is not None:
        raise Unsupported('min(out=...) is not modelled')
    a = _unlazy(a)
    if isinstance(a, (list, tuple)):
        a = np_array(a)
    if where is not True:
        raise Unsupported('min(where=...) is not modelled')
    _reject_kw('min', kw)
    if _conc(a) and not isinstance(initial, core.SVal):
        return _delegate('min', a, axis=axis, keepdims=keepdims, **({} if initial is None else {'initial': initial}))
    return _reduce_axis(a, axis, lambda acc, c: s_min(acc, c), (lambda: _NOINIT) if initial is None else (lambda: initial), keepdims,
                        empty_err=None if initial is not None else 'zero-size array to reduction operation minimum which has no identity')


def _argext(a, axis, better):
    a = _as_sarr(a)
    r = _raw(a)

    def one(cells):
        if not len(cells):
            raise ValueError('attempt to get argmax of an empty sequence')
        best, idx = cells[0], 0
        for i in range(1, len(cells)):
            c = cells[i]
            b = better(c, best)
            idx = ite(b, i, idx)
            best = ite(b, c, best)
        return idx
    if axis is None:
        res = one(list(r.flat))
        return res if isinstance(res, SVal) else _np.intp(res)
    axis = operator.index(axis)
    moved = _np.moveaxis(r, axis, -1)
    o = _np.empty(moved.shape[:-1], dtype=object)
    for ix in _np.ndindex(o.shape):
        o[ix] = one(list(moved[ix]))
    return _mk(o, _np.intp)


def _gt_nan(c, best):
    """c strictly better than best for argmax: first NaN wins"""
    if isinstance(c, (float, SFloat)) or isinstance(best, (float, SFloat)):
        return (c > best) | (s_isnan(c) & snot(s_isnan(best)))
    return c > best


def _lt_nan(c, best):
    if isinstance(c, (float, SFloat)) or isinstance(best, (float, SFloat)):
        return (c < best) | (s_isnan(c) & snot(s_isnan(best)))
    return c < best


def np_argmax(a, axis=None, out=None, **kw):
    _reject_kw('argmax', kw)
    if out is not None:
        raise Unsupported('argmax(out=...) is not modelled')
    a = _unlazy(a)
    if isinstance(a, (list, tuple)):
        a = np_array(a)
    if _conc(a):
        return _delegate('argmax', a, axis=axis)
    return _argext(a, axis, _gt_nan)


def np_argmin(a, axis=None, out=None, **kw):
    _reject_kw('argmin', kw)
    if out is not None:
        raise Unsupported('argmin(out=...) is not modelled')
    a = _unlazy(a)
    if isinstance(a, (list, tuple)):
        a = np_array(a)
    if _conc(a):
        return _delegate('argmin', a, axis=axis)
    return _argext(a, axis, _lt_nan)


def np_all(a, axis=None, out=None, keepdims=False, **kw):
    _reject_kw('all', kw)
    if out is not None:
        raise Unsupported('all(out=...) is not modelled')
    a = _unlazy(a)
    if isinstance(a, (SVal, bool, _np.bool_)):
        return ufuncs._truth(a) if isinstance(a, SVal) else _np.bool_(a)
    if _conc(a):
        return _delegate('all', a, axis=axis, keepdims=keepdims)
    return _reduce_axis(a, axis, lambda acc, c: acc & ufuncs._truth(c), lambda: True, keepdims, bool)


def np_any(a, axis=None, out=None, keepdims=False, **kw):
    _reject_kw('any', kw)
    if out is not None:
        raise Unsupported('any(out=...) is not modelled')
    a = _unlazy(a)
    if isinstance(a, (SVal, bool, _np.bool_)):
        return ufuncs._truth(a) if isinstance(a, SVal) else _np.bool_(a)
    if _conc(a):
        return _delegate('any', a, axis=axis, keepdims=keepdims)
    return _reduce_axis(a, axis, lambda acc, c: acc | ufuncs._truth(c), lambda: False, keepdims, bool)


def np_count_nonzero(a, axis=None, **kw):
    _reject_kw('count_nonzero', kw)
    a = _unlazy(a)
    if _conc(a):
        return _delegate('count_nonzero', a, axis=axis)
    return _reduce_axis(a, axis, lambda acc, c: acc + ite(ufuncs._truth(c), 1, 0), lambda: 0, False, _np.intp)


def np_cumsum(a, axis=None, dtype=None, out=None, **kw):
    _reject_kw('cumsum', kw)
    a = _unlazy(a)
    if out is not None:
        # NumPy accumulates in the element type of `out` (no promotion to the platform integer) and returns `out`
        out = _unlazy(out)
        if not isinstance(out, _np.ndarray) or axis not in (None, 0) or _np.ndim(a) != 1 or dtype is not None:
            raise Unsupported('cumsum(out=) beyond the 1-D form')
        odt = out.ldtype if isinstance(out, SArr) else out.dtype
        if _conc(a) and not isinstance(out, SArr):
            return _np.cumsum(_np.asarray(a), out=out)
        res = np_cumsum(_as_sarr(a), dtype=odt)
        if tuple(res.shape) != tuple(out.shape):
            raise ValueError('output parameter has wrong shape')
        out[...] = res
        return out
    if _conc(a):
        return _delegate('cumsum', a, axis=axis, dtype=dtype)
    a = _as_sarr(a)
    odt = _np.dtype(dtype) if dtype is not None else _sum_dtype(a.ldtype)
    if axis is None:
        cells = list(_raw(a).flat)
        o = _np.empty(len(cells), dtype=object)
        acc = coerce(0, odt)
        for i, c in enumerate(cells):
            acc = acc + coerce(c, odt)
            o[i] = acc
        return _mk(o, odt)
    raise Unsupported('cumsum(axis=) on symbolic cells')


def ufunc_reduce(ufunc, a, axis=0, dtype=None, out=None, keepdims=False, initial=_np._NoValue,
                 where=True, **kw):
    if where is not True or out is not None:
        raise Unsupported('reduce(where=/out=)')
    n = ufunc.__name__
    table = {'add': np_sum, 'multiply': np_prod, 'maximum': np_max, 'minimum': np_min,
             'logical_and': np_all, 'logical_or': np_any, 'bitwise_and': np_all, 'bitwise_or': np_any}
    if n not in table:
        raise Unsupported('%s.reduce' % n)
    if n in ('add', 'multiply'):
        return table[n](a, axis=axis, dtype=dtype, keepdims=keepdims)
    return table[n](a, axis=axis, keepdims=keepdims)


def ufunc_at(ufunc, a, idx, vals):
    """unbuffered in-place a[idx[k]] = op(a[idx[k]], vals[k]) for k in order (1-D a, 1-D integer idx)"""
    n = ufunc.__name__
    if n not in ('minimum', 'maximum', 'add', 'subtract', 'multiply', 'fmin', 'fmax'):
        raise Unsupported('%s.at' % n)
    if not isinstance(a, SArr):
        if _conc(idx) and _conc(vals):
            return ufunc.at(a, _np.asarray(idx), _np.asarray(vals))
        raise Unsupported('ufunc.at writing symbolic values into a real ndarray')
    if a.ndim != 1 or vals is None:
        raise Unsupported('ufunc.at on a non-1-D array / unary ufunc')
    ix = _as_sarr(_unlazy(idx))
    if ix.ldtype.kind not in 'iu' or ix.ndim > 1:
        raise Unsupported('ufunc.at with a non-integer / multi-dimensional index')
    ic = list(ix.reshape(-1).cells())
    va = _as_sarr(_unlazy(vals))
    vc = list(va.reshape(-1).cells()) if va.ndim else [va.reshape(-1).cells()[0]] * len(ic)
    if len(vc) == 1 and len(ic) != 1:
        vc = vc * len(ic)
    if len(vc) != len(ic):
        raise ValueError('shape mismatch: value array of shape %s could not be broadcast to indexing result' % (va.shape,))
    L = a.shape[0]
    raw = _raw(a)
    for k, (i, v) in enumerate(zip(ic, vc)):
        if isinstance(i, core.SVal):
            ok = (i >= -L) & (i < L)
            if not bool(ok):
                raise IndexError('index out of bounds for axis 0 with size %d' % L)
            i = core.ite(i < 0, i + L, i)
            for p in range(L):
                cur = raw[p]
                new = ufuncs.apply_cells(ufunc, [cur, v], [a.ldtype, va.ldtype], a.ldtype)
                raw[p] = core.ite(i == p, new, cur)
        else:
            p = operator.index(i)
            if not -L <= p < L:
                raise IndexError('index %d is out of bounds for axis 0 with size %d' % (p, L))
            raw[p] = ufuncs.apply_cells(ufunc, [raw[p], v], [a.ldtype, va.ldtype], a.ldtype)
    return None


def np_flatnonzero(a):
    return np_where(_as_sarr(_unlazy(a)).reshape(-1))[0]


# ------------------------------------------------------------------------------------------
# selection / structure
# ------------------------------------------------------------------------------------------

def np_where(cond, x=None, y=None):
    cond = _unlazy(cond)
    if type(cond).__module__ == 'symnp.sparse' or type(cond).__name__ == 'SymCOO':
        # NumPy sees a sparse matrix as a 0-d object array
        if x is None and y is None:
            raise ValueError('Calling nonzero on 0d arrays is not allowed. Use np.atleast_1d(scalar).nonzero() instead. '
                             'If the context of this error is of the form `arr[nonzero(cond)]`, just use `arr[cond]`.')
        raise Unsupported('np.where(sparse, x, y)')
    if x is None and y is None:
        c = _as_sarr(cond)
        if c.ldtype.kind != 'b':
            c = (c != 0)
        if c.is_concrete():
            return tuple(SArr.from_typed(t) for t in _np.nonzero(c.typed()))
        return LazyWhere(c)
    x, y = _unlazy(x), _unlazy(y)
    if _conc(cond) and _conc(x) and _conc(y):
        return _delegate('where', cond, x, y)
    c = _as_sarr(cond)
    xa = x if isinstance(x, SArr) else (_as_sarr(x) if isinstance(x, (_nd, list, tuple)) else x)
    ya = y if isinstance(y, SArr) else (_as_sarr(y) if isinstance(y, (_nd, list, tuple)) else y)
    dts = [t.ldtype if isinstance(t, SArr) else _scalar_dtype(t) for t in (xa, ya)]
    odt = _np.result_type(*[(_np.empty(0, d) if isinstance(t, SArr) else ufuncs._py_standin(t))
                            for d, t in zip(dts, (xa, ya))])
    bx = _raw(xa) if isinstance(xa, SArr) else _scalar0(xa)
    by = _raw(ya) if isinstance(ya, SArr) else _scalar0(ya)
    bc = _raw(c)
    bs = _np.broadcast_shapes(bc.shape, bx.shape, by.shape)
    bc, bx, by = (_np.broadcast_to(t, bs) for t in (bc, bx, by))
    o = _np.empty(bs, dtype=object)
    for ix in _np.ndindex(bs):
        o[ix] = ite(ufuncs._truth(norm_cell(bc[ix])), coerce(bx[ix], odt), coerce(by[ix], odt))
    return _mk(o, odt)


def _scalar0(x):
    o = _np.empty((), dtype=object)
    o[()] = norm_cell(x)
    return o


def np_nonzero(a):
    return np_where(a)


def np_unique(ar, return_index=False, return_inverse=False, return_counts=False, axis=None, **kw):
    _reject_kw('unique', kw)
    ar = _unlazy(ar)
    if _conc(ar):
        return _delegate('unique', ar, return_index=return_index, return_inverse=return_inverse,
                         return_counts=return_counts, axis=axis)
    if axis is not None:
        raise Unsupported('unique along an axis on symbolic cells')
    a = _as_sarr(ar)
    if a.ldtype.kind not in 'iub':
        raise Unsupported('unique on symbolic non-integer cells')
    import z3
    cells = [c for c in _raw(a).flat]
    terms = [core.to_z3_int(c) for c in cells]
    ctx = core.cur()

    def pick(m):
        return tuple(sorted({m.eval(t, model_completion=True).as_long() for t in terms}))

    def cond(S):
        each_in = [z3.Or(*[t == v for v in S]) for t in terms]
        each_used = [z3.Or(*[t == v for t in terms]) for v in S]
        return z3.And(*(each_in + each_used))
    while True:
        S, ok = ctx.choice(pick, cond)
        if ok:
            u = SArr.from_typed(_np.array(S, dtype=a.ldtype))
            if not (return_index or return_inverse or return_counts):
                return u
            # the distinct values are fixed on this path; the extra outputs are terms over the cells
            outs = [u]
            n = len(cells)
            if return_index:
                fi = []
                for v in S:
                    r = n - 1
                    for i in range(n - 2, -1, -1):
                        r = core.ite(core.SBool(terms[i] == v), i, r)
                    fi.append(r)
                outs.append(np_array(fi, dtype=_np.intp))
            if return_inverse:
                inv = []
                for t in terms:
                    r = len(S) - 1
                    for j in range(len(S) - 2, -1, -1):
                        r = core.ite(core.SBool(t == S[j]), j, r)
                    inv.append(r)
                outs.append(np_array(inv, dtype=_np.intp).reshape(a.shape))
            if return_counts:
                cn = []
                for v in S:
                    c = 0
                    for t in terms:
                        c = c + core.ite(core.SBool(t == v), 1, 0)
                    cn.append(c)
                outs.append(np_array(cn, dtype=_np.intp))
            return tuple(outs)


def np_concatenate(arrs, axis=0, out=None, dtype=None, **kw):
    _reject_kw('concatenate', kw)
    if out is not None:
        raise Unsupported('concatenate(out=...) is not modelled')
    arrs = [_unlazy(x) for x in arrs]
    if all(_conc(x) for x in arrs):
        return _delegate('concatenate', list(arrs), axis=axis, dtype=dtype)
    sa = [_as_sarr(x) for x in arrs]
    odt = _np.dtype(dtype) if dtype is not None else _np.result_type(*[_np.empty(0, s.ldtype) for s in sa])
    if axis is None:
        sa = [s.reshape(-1) for s in sa]
        axis = 0
    o = _np.concatenate([_raw(s.astype(odt) if s.ldtype != odt else s) for s in sa], axis=axis)
    return _mk(o, odt)


def np_hstack(tup, **kw):
    _reject_kw('hstack', kw)
    arrs = [np_atleast_1d(_unlazy(x)) for x in tup]
    if arrs and arrs[0].ndim == 1:
        return np_concatenate(arrs, 0)
    return np_concatenate(arrs, 1)


def np_vstack(tup, **kw):
    _reject_kw('vstack', kw)
    arrs = [np_atleast_2d(_unlazy(x)) for x in tup]
    return np_concatenate(arrs, 0)


def np_stack(arrays, axis=0, **kw):
    _reject_kw('stack', kw)
    sa = [_as_sarr(_unlazy(x)) for x in arrays]
    if not sa:
        raise ValueError('need at least one array to stack')
    if len({s.shape for s in sa}) != 1:
        raise ValueError('all input arrays must have the same shape')
    odt = _np.result_type(*[_np.empty(0, s.ldtype) for s in sa])
    o = _np.stack([_raw(s.astype(odt) if s.ldtype != odt else s) for s in sa], axis=axis)
    return _mk(o, odt)


def np_atleast_1d(x):
    x = _as_sarr(x)
    return x.reshape(1) if x.ndim == 0 else x


def np_atleast_2d(x):
    x = _as_sarr(x)
    if x.ndim == 0:
        return x.reshape(1, 1)
    if x.ndim == 1:
        return x.reshape(1, -1)
    return x


def np_append(arr, values, axis=None):
    arr = _as_sarr(arr)
    values = _as_sarr(values)
    if axis is None:
        return np_concatenate([arr.reshape(-1), values.reshape(-1)], 0)
    return np_concatenate([arr, values], axis)


def np_ix_(*args):
    return _delegate('ix_', *args)


def np_diag(v, k=0):
    v = _as_sarr(v)
    if v.ndim == 1:
        n = v.shape[0] + abs(k)
        o = np_zeros((n, n), dtype=v.ldtype)
        for i in range(v.shape[0]):
            r, c = (i, i + k) if k >= 0 else (i - k, i)
            _raw(o)[r, c] = _raw(v)[i]
        return o
    o = _np.diagonal(_raw(v), k).copy()
    return _mk(o, v.ldtype)


def np_diagonal(a, offset=0, axis1=0, axis2=1):
    a = _as_sarr(a)
    return _mk(_np.diagonal(_raw(a), offset, axis1, axis2).copy(), a.ldtype)


def np_einsum(subscripts, *operands, **kw):
    """row / column / total sums written as einsum ('ij->i', 'ij->j', 'ij->').  Unlike ndarray.sum, einsum accumulates in the element
    type of its operand (no widening of narrow integers): the sums carry a fit obligation"""
    _reject_kw('einsum', kw)
    if len(operands) != 1 or not isinstance(subscripts, str):
        raise Unsupported('einsum beyond single-operand sums')
    a = _unlazy(operands[0])
    if _conc(a):
        return wrap(_np.einsum(subscripts, _np.asarray(a)))
    a = _as_sarr(a)
    spec = subscripts.replace(' ', '')
    axis = {'ij->i': 1, 'ij->j': 0, 'ij->': None}.get(spec, 'x')
    if axis == 'x' or a.ndim != 2:
        raise Unsupported('einsum(%r) is not modelled' % subscripts)
    return np_sum(a, axis=axis, dtype=a.ldtype)


def np_trace(a, **kw):
    _reject_kw('trace', kw)
    return np_sum(np_diagonal(a))


def np_fill_diagonal(a, val, wrap=False):
    if not isinstance(a, SArr):
        return _np.fill_diagonal(a, val, wrap)
    n = builtins.min(a.shape)
    v = _unlazy(val)
    for i in range(n):
        a[(i,) * a.ndim] = v if not isinstance(v, (_nd, list, tuple)) else v[i % len(v)]


def np_transpose(a, axes=None):
    a = _as_sarr(a)
    return _mk(_np.transpose(_raw(a), axes), a.ldtype)


def np_reshape(a, *shape, **kw):
    _reject_kw('reshape', kw)
    a = _as_sarr(a)
    if 'newshape' in kw:
        shape = (kw['newshape'],)
    if 'shape' in kw:
        shape = (kw['shape'],)
    return a.reshape(*shape)


def np_ravel(a, **kw):
    _reject_kw('ravel', kw)
    return _as_sarr(a).reshape(-1)


def np_squeeze(a, axis=None):
    a = _as_sarr(a)
    return _mk(_np.squeeze(_raw(a), axis), a.ldtype)


def np_expand_dims(a, axis):
    a = _as_sarr(a)
    return _mk(_np.expand_dims(_raw(a), axis), a.ldtype)


def np_real(a):
    a = _unlazy(a)
    if isinstance(a, (SArr, SVal)):
        return a
    return wrap(_np.real(a))


def np_ndim(a):
    a = _unlazy(a)
    if isinstance(a, SVal):
        return 0
    if isinstance(a, _nd):
        return a.ndim
    if isinstance(a, (list, tuple)):
        return len(_infer_shape_loose(a))
    return _np.ndim(a)


def _infer_shape_loose(x):
    x = _unlazy(x)
    if isinstance(x, _nd):
        return tuple(x.shape)
    if isinstance(x, (list, tuple)):
        if not len(x):
            return (0,)
        return (len(x),) + _infer_shape_loose(x[0])
    return ()


def np_shape(a):
    a = _unlazy(a)
    if isinstance(a, SVal):
        return ()
    if isinstance(a, _nd):
        return a.shape
    if isinstance(a, (list, tuple)):
        return _infer_shape_loose(a)
    return _np.shape(a)


def np_size(a, axis=None):
    s = np_shape(a)
    if axis is None:
        n = 1
        for d in s:
            n *= d
        return n
    return s[axis]


def np_isscalar(x):
    return isinstance(x, SVal) or _np.isscalar(x)


def np_issubdtype(a, b):
    if isinstance(a, type) and issubclass(a, SVal):
        a = {SInt: _np.int64, SFloat: _np.float64, SBool: _np.bool_}[a]
    return _np.issubdtype(a, b)


def np_dot(a, b, out=None):
    if out is not None:
        raise Unsupported('dot(out=...) is not modelled')
    return np_matmul(a, b, _dot=True)


def np_matmul(a, b, _dot=False, **kw):
    _reject_kw('matmul', kw)
    a, b = _unlazy(a), _unlazy(b)
    if _conc(a) and _conc(b):
        return _delegate('dot' if _dot else 'matmul', a, b)
    if _dot and (not isinstance(a, (_nd, list, tuple)) or not isinstance(b, (_nd, list, tuple))):
        return a * b
    a, b = _as_sarr(a), _as_sarr(b)
    odt = _np.result_type(_np.empty(0, a.ldtype), _np.empty(0, b.ldtype))
    ra, rb = _raw(a), _raw(b)
    if a.ndim == 0 or b.ndim == 0:
        return a * b

    def dot1(u, v):
        if len(u) != len(v):
            raise ValueError('shapes not aligned')
        acc = coerce(0, odt)
        for x, y in zip(u, v):
            acc = acc + coerce(x, odt) * coerce(y, odt)
        return acc
    if a.ndim == 1 and b.ndim == 1:
        r = dot1(list(ra), list(rb))
        return r if isinstance(r, SVal) else odt.type(r)
    if a.ndim == 2 and b.ndim == 1:
        if ra.shape[1] != rb.shape[0]:
            raise ValueError('shapes %s and %s not aligned' % (ra.shape, rb.shape))
        o = _np.empty(ra.shape[0], dtype=object)
        for i in range(ra.shape[0]):
            o[i] = dot1(list(ra[i]), list(rb))
        return _mk(o, odt)
    if a.ndim == 1 and b.ndim == 2:
        if ra.shape[0] != rb.shape[0]:
            raise ValueError('shapes %s and %s not aligned' % (ra.shape, rb.shape))
        o = _np.empty(rb.shape[1], dtype=object)
        for j in range(rb.shape[1]):
            o[j] = dot1(list(ra), list(rb[:, j]))
        return _mk(o, odt)
    if a.ndim == 2 and b.ndim == 2:
        if ra.shape[1] != rb.shape[0]:
            raise ValueError('shapes %s and %s not aligned' % (ra.shape, rb.shape))
        o = _np.empty((ra.shape[0], rb.shape[1]), dtype=object)
        for i in range(ra.shape[0]):
            for j in range(rb.shape[1]):
                o[i, j] = dot1(list(ra[i]), list(rb[:, j]))
        return _mk(o, odt)
    raise Unsupported('matmul with ndim > 2')


def np_argsort(a, axis=-1, kind=None, **kw):
    _reject_kw('argsort', kw)
    a = _unlazy(a)
    if _conc(a):
        return _delegate('argsort', a, axis=axis, kind=kind)
    a = _as_sarr(a)
    if a.ndim != 1:
        raise Unsupported('argsort of symbolic n-d array')
    # stable insertion sort with forks on comparisons (sound, used for small arrays only)
    cells = list(_raw(a))
    order = []
    for i, c in enumerate(cells):
        pos = len(order)
        for k, j in enumerate(order):
            if bool(c < cells[j]):
                pos = k
                break
        order.insert(pos, i)
    return SArr.from_typed(_np.array(order, dtype=_np.intp))


def np_sort(a, axis=-1, **kw):
    _reject_kw('sort', kw)
    a = _unlazy(a)
    if _conc(a):
        return _delegate('sort', a, axis=axis)
    a = _as_sarr(a)
    return a[np_argsort(a)]


def np_searchsorted(a, v, side='left', sorter=None):
    a, v = _unlazy(a), _unlazy(v)
    if _conc(a) and _conc(v):
        return _delegate('searchsorted', a, v, side=side, sorter=sorter)
    if sorter is not None:
        raise Unsupported('searchsorted(sorter=)')
    a = _as_sarr(a)
    if a.ndim != 1:
        raise ValueError('object too deep for desired array')
    ac = a.cells()
    # NumPy requires `a` sorted ascending; for a sorted array the insertion point is the number of
    # elements below (left) / not above (right) the value
    for x, y in zip(ac[:-1], ac[1:]):
        if not bool(x <= y):
            raise Unsupported('searchsorted on an array that is not sorted on this path')

    def one(val):
        r = 0
        for x in ac:
            r = r + ite((x < val) if side == 'left' else (x <= val), 1, 0)
        return r
    if isinstance(v, (SVal, int, float, _np.generic)):
        return one(norm_cell(v))
    va = _as_sarr(v)
    o = _np.empty(va.shape, dtype=object)
    for ix in _np.ndindex(va.shape):
        o[ix] = one(_raw(va)[ix])
    return _mk(o, _np.intp)


def np_clip(a, a_min=None, a_max=None, out=None, **kw):
    _reject_kw('clip', kw)
    a = _unlazy(a)
    if _conc(a) and _conc(a_min) and _conc(a_max) and out is None:
        return _delegate('clip', a, a_min, a_max)
    r = _as_sarr(a)
    if a_min is not None:
        r = _np.maximum(r, a_min)
    if a_max is not None:
        r = _np.minimum(r, a_max)
    if out is not None:
        if isinstance(out, SArr):
            out[...] = r
        elif isinstance(r, SArr) and not r.is_concrete():
            raise Unsupported('clip writing symbolic values into a real ndarray')
        else:
            out[...] = r.typed() if isinstance(r, SArr) else r
        return out
    return r


def _structural(name):
    """functions that only move cells around: NumPy's own implementation is run on the object arrays"""
    real = getattr(_np, name)

    def f(*args, **kw):
        dts = []

        def conv(x):
            x = _unlazy(x)
            if isinstance(x, SArr):
                dts.append(x.ldtype)
                return _raw(x)
            if isinstance(x, _nd):
                dts.append(x.dtype)
                return x.astype(object)
            if isinstance(x, (list, tuple)) and any(isinstance(y, (_nd, SVal, list, tuple)) for y in x):
                return type(x)(conv(y) for y in x) if not has_sym([y for y in x if isinstance(y, SVal)]) \
                    else conv(np_array(list(x)))
            return x
        # parameters that are counts / positions / shapes, not data: concrete integers go in as integers
        CTRL = {'repeat': (1, 'repeats'), 'take': (1, 'indices'), 'tile': (1, 'reps'), 'roll': (1, 'shift'), 'delete': (1, 'obj'),
                'insert': (1, 'obj'), 'array_split': (1, 'indices_or_sections'), 'split': (1, 'indices_or_sections'),
                'broadcast_to': (1, 'shape')}.get(name)

        def ctrl(x):
            x = _unlazy(x)
            if isinstance(x, SArr):
                if not x.is_concrete():
                    raise Unsupported('%s with a symbolic count/position argument' % name)
                return x.typed()
            if isinstance(x, SInt):
                return operator.index(x)
            return x
        a2 = [ctrl(a) if (CTRL and i == CTRL[0]) else conv(a) for i, a in enumerate(args)]
        k2 = {k: (ctrl(v) if (CTRL and k == CTRL[1]) else conv(v)) for k, v in kw.items()}
        r = real(*a2, **k2)
        odt = _np.result_type(*[_np.empty(0, d) for d in dts]) if dts and all(d.kind != 'O' for d in dts) else _np.dtype(object)

        def back(y):
            if isinstance(y, _nd):
                if y.dtype != object:
                    return SArr.from_typed(y)          # every argument was a plain Python / NumPy value
                return SArr(y, odt) if odt.kind != 'O' else _mk(y, object)
            if isinstance(y, (list, tuple)):
                return type(y)(back(z) for z in y)
            return y
        return back(r)
    f.__name__ = name
    return f


for _n in ('meshgrid', 'dstack', 'repeat', 'tile', 'roll', 'flip', 'fliplr', 'flipud', 'swapaxes', 'moveaxis',
           'broadcast_to', 'take', 'rollaxis', 'column_stack', 'array_split', 'split', 'delete', 'insert',
           'triu', 'tril', 'diagflat', 'rot90'):
    if hasattr(_np, _n):
        globals()['np_' + _n] = _structural(_n)


def np_bincount(x, weights=None, minlength=0):
    x = _unlazy(x)
    weights = _unlazy(weights)
    if _conc(x) and _conc(weights):
        return _delegate('bincount', x, weights=weights, minlength=minlength)
    xa = _as_sarr(x)
    if xa.ndim != 1 or xa.ldtype.kind not in 'iub':
        raise TypeError('bincount: x must be a 1-D array of non-negative ints')
    cells_ = xa.cells()
    for c in cells_:
        if bool(c < 0):
            raise ValueError("'list' argument must have no negative elements")
    mx = np_max(xa) + 1 if len(cells_) else 0
    n = operator.index(ite(mx < minlength, minlength, mx)) if isinstance(mx, SVal) else builtins.max(int(mx), int(minlength))
    w = _as_sarr(weights).cells() if weights is not None else None
    odt = _np.dtype(float) if w is not None else _np.dtype(_np.intp)
    o = _np.empty(n, dtype=object)
    for k in range(n):
        acc = coerce(0, odt)
        for t, c in enumerate(cells_):
            acc = acc + ite(c == k, coerce(w[t], odt) if w is not None else 1, coerce(0, odt))
        o[k] = acc
    return _mk(o, odt)


def np_diff(a, n=1, axis=-1, **kw):
    _reject_kw('diff', kw)
    a = _unlazy(a)
    if _conc(a):
        return _delegate('diff', a, n=n, axis=axis)
    a = _as_sarr(a)
    if n != 1:
        raise Unsupported('diff n>1')
    ax = axis % a.ndim
    sl1 = [slice(None)] * a.ndim
    sl2 = [slice(None)] * a.ndim
    sl1[ax] = slice(1, None)
    sl2[ax] = slice(None, -1)
    return a[tuple(sl1)] - a[tuple(sl2)]


def np_round(a, decimals=0, **kw):
    _reject_kw('round', kw)
    a = _unlazy(a)
    if _conc(a):
        return _delegate('round', a, decimals)
    raise Unsupported('round on symbolic cells')


def np_isclose(a, b, rtol=1e-05, atol=1e-08, equal_nan=False):
    a, b = _unlazy(a), _unlazy(b)
    if _conc(a) and _conc(b):
        return _delegate('isclose', a, b, rtol=rtol, atol=atol, equal_nan=equal_nan)
    # NumPy: finite pairs by the tolerance formula, anything involving an infinity by equality (NaN never close)
    scalar = not isinstance(a, (_np.ndarray, list, tuple)) and not isinstance(b, (_np.ndarray, list, tuple))
    if scalar:
        # symbolic scalars: the same formula on 1-element arrays, result handed back as a scalar
        r = np_isclose(np_array([a]), np_array([b]), rtol=rtol, atol=atol, equal_nan=equal_nan)
        return _raw(_as_sarr(r)).reshape(-1)[0]
    a = _as_sarr(a) if isinstance(a, (core.SVal, list, tuple)) else a
    b = _as_sarr(b) if isinstance(b, (core.SVal, list, tuple)) else b
    fin = _np.logical_and(_np.isfinite(a), _np.isfinite(b))
    tol = _np.less_equal(_np.absolute(_np.subtract(a, b)), _np.add(atol, _np.multiply(rtol, _np.absolute(b))))
    same = _np.equal(a, b)
    r = _np.logical_or(_np.logical_and(fin, tol), _np.logical_and(_np.logical_not(fin), same))
    if equal_nan:
        r = _np.logical_or(r, _np.logical_and(_np.isnan(a), _np.isnan(b)))
    return r


def np_allclose(a, b, rtol=1e-05, atol=1e-08, equal_nan=False):
    return np_all(np_isclose(a, b, rtol, atol, equal_nan))


def np_array_equal(a, b, **kw):
    _reject_kw('array_equal', kw)
    a, b = _unlazy(a), _unlazy(b)
    if np_shape(a) != np_shape(b):
        return False
    return np_all(_np.equal(_as_sarr(a), _as_sarr(b)))


def np_median(a, **kw):
    _reject_kw('median', kw)
    if _conc(a):
        return _delegate('median', a, **kw)
    raise Unsupported('median on symbolic cells')


def np_digitize(x, bins, right=False):
    if _conc(x) and _conc(bins):
        return _delegate('digitize', x, bins, right)
    if not _conc(bins) or right:
        raise Unsupported('digitize with symbolic bins / right=True')
    b = _np.asarray(unwrap(bins))
    if b.ndim != 1 or not _np.all(_np.diff(b) > 0):
        raise Unsupported('digitize: bins not strictly increasing')

    def one(v):
        # NumPy (right=False, increasing bins): i such that bins[i-1] <= v < bins[i] = #{edges <= v}
        r = 0
        for e in b.tolist():
            r = r + ite(v >= e, 1, 0)
        return r
    x = _unlazy(x)
    if isinstance(x, SVal):
        return one(x)
    x = _as_sarr(x)
    o = _np.empty(x.shape, dtype=object)
    for ix in _np.ndindex(x.shape):
        o[ix] = one(_raw(x)[ix])
    return _mk(o, _np.intp)


def np_may_share_memory(a, b, **kw):
    _reject_kw('may_share_memory', kw)
    return _np.may_share_memory(_raw(a) if isinstance(a, SArr) else a, _raw(b) if isinstance(b, SArr) else b)


np_shares_memory = np_may_share_memory

np_amax = np_max
np_amin = np_min
np_row_stack = np_vstack


# ------------------------------------------------------------------------------------------
# dispatch
# ------------------------------------------------------------------------------------------

IMPL = {name[3:]: fn for name, fn in list(globals().items()) if name.startswith('np_') and callable(fn)}
SUB = {}    # submodule name -> {func name -> impl}; filled by stubs.py (linalg, random ...)


def array_function(func, args, kwargs):
    name = func.__name__
    mod = getattr(func, '__module__', '') or ''
    if mod.startswith('numpy.linalg'):
        impl = SUB.get('linalg', {}).get(name)
    elif mod.startswith('numpy.random'):
        impl = SUB.get('random', {}).get(name)
    else:
        impl = IMPL.get(name)
    if impl is not None:
        return impl(*args, **kwargs)
    if not has_sym(list(args)) and not has_sym(kwargs):
        with _np.errstate(all='ignore'):
            r = func(*unwrap(list(args)), **unwrap(kwargs))
        return wrap(r)
    raise Unsupported('numpy.%s on symbolic cells' % name)


class _UfuncProxy:
    """real ufunc that also accepts symbolic scalars"""

    def __init__(self, uf):
        self._uf = uf
        self.__name__ = uf.__name__

    def __call__(self, *args, **kw):
        args = tuple(_unlazy(a) for a in args)
        if any(isinstance(a, SArr) for a in args) or isinstance(kw.get('out'), SArr) or \
                isinstance(kw.get('where'), SArr):
            return ufuncs.array_ufunc(self._uf, '__call__', args, dict(kw))
        if any(isinstance(a, SVal) for a in args):
            return ufuncs.scalar_ufunc(self._uf, args, kw)
        if any(isinstance(a, (list, tuple)) and has_sym(a) for a in args):
            args = tuple(np_array(a) if isinstance(a, (list, tuple)) else a for a in args)
            return ufuncs.array_ufunc(self._uf, '__call__', args, dict(kw))
        if core.active() and kw.get('where', True) is not True and kw.get('out') is None:
            # masked ufunc allocating its own output: uninitialised cells must be modelled
            args = tuple(_as_sarr(a) if isinstance(a, (_nd, list, tuple)) else a for a in args)
            if any(isinstance(a, SArr) for a in args):
                return ufuncs.array_ufunc(self._uf, '__call__', args, dict(kw))
        r = self._uf(*args, **kw)
        if core.active() and isinstance(r, _nd) and not isinstance(r, SArr):
            return SArr.from_typed(r)
        return r

    def __getattr__(self, n):
        attr = getattr(self._uf, n)
        if n in ('reduce', 'outer', 'at', 'accumulate'):
            uf = self._uf

            def meth(*args, **kw):
                args = tuple(_unlazy(a) for a in args)
                if any(isinstance(a, SArr) for a in args):
                    return ufuncs.array_ufunc(uf, n, args, dict(kw))
                return attr(*args, **kw)
            return meth
        return attr


class _SubProxy:
    def __init__(self, real, name):
        self._real = real
        self._name = name

    def __getattr__(self, n):
        impl = SUB.get(self._name, {}).get(n)
        real = getattr(self._real, n)
        if impl is None:
            if callable(real) and not isinstance(real, type):
                def passthrough(*a, **k):
                    if core.active() and (has_sym(list(a)) or has_sym(k)):
                        raise Unsupported('numpy.%s.%s on symbolic values' % (self._name, n))
                    if core.active():
                        return wrap(real(*unwrap(list(a)), **unwrap(k)))
                    return real(*a, **k)
                return passthrough
            return real

        return impl      # stubs handle the inactive (concrete) case themselves


class NPProxy:
    """Stands in for the `numpy` module inside /repo modules under symbolic execution.  With no
    active symbolic context every attribute is the real NumPy one."""

    ndarray = _np.ndarray

    def __getattr__(self, n):
        real = getattr(_np, n)
        if isinstance(real, types.ModuleType):
            if n in ('linalg', 'random'):
                p = _SubProxy(real, n)
                setattr(self, n, p)
                return p
            return real
        if isinstance(real, _np.ufunc):
            p = _UfuncProxy(real)
            setattr(self, n, p)
            return p
        impl = IMPL.get(n)
        if impl is not None and getattr(impl, '_always', False):
            setattr(self, n, impl)       # stubs that decide themselves whether to be the real function
            return impl
        if impl is not None:
            def f(*a, **k):
                if not core.active():
                    return real(*a, **k)
                return impl(*a, **k)
            f.__name__ = n
            setattr(self, n, f)
            return f
        if callable(real) and not isinstance(real, type):
            def g(*a, **k):
                if not core.active():
                    return real(*a, **k)
                if has_sym(list(a)) or has_sym(k):
                    raise Unsupported('numpy.%s on symbolic values' % n)
                with _np.errstate(all='ignore'):
                    return wrap(real(*unwrap(list(a)), **unwrap(k)))
            g.__name__ = n
            setattr(self, n, g)
            return g
        return real


NP = NPProxy()
