"""Symbolic shadow of the scipy.sparse matrix classes (csr, csc, coo, lil, dok, dia, bsr) for the operations that the
code under test performs on them.  scipy's containers keep their numbers in compiled code and cannot hold solver
terms, so inside a symbolic run `scipy.sparse.<fmt>_matrix` builds one of these instead.

What is modelled (and checked against the installed scipy by harness/sparse_conf.py on every run):
  * the RESULT FORMAT and element type of every operation (csr.T is csc, coo + coo is csr, lil / 2 keeps an integer
    element type and truncates, sparse.multiply(dense) is coo, ndarray - sparse is a dense matrix, ...);
  * which operations COPY and which SHARE the stored numbers (`csr_matrix(csr)` and `type(A)(A)` share `data`, `asfptype()`
    of a float matrix and `tocsr()` of a csr matrix return the object itself, csr.T shares with the csc it returns), so
    in-place writes through one handle are visible through the other exactly as in scipy;
  * the stored entries of csr/csc (`data`, `indices`, `indptr`) and coo (`data`, `row`, `col`, duplicates allowed).
Modelling assumptions: the stored pattern of a matrix built from a dense array is "every cell that is not the constant
zero" (a symbolic cell that may be zero is kept as an explicit zero - legal in scipy and invisible to every operation
modelled here except nnz); np.matrix results (sum(axis), ndarray - sparse, todense) are SymMatrix objects (symnp/arr.py: always 2-D, M[i] is (1, n), `*` is the
matrix product, class propagates through arithmetic)."""
import numpy as _np

from . import core, funcs
from .arr import SArr, _raw, _unlazy, coerce, as_matrix
from .core import SVal, Unsupported

FORMATS = ('csr', 'csc', 'coo', 'lil', 'dok', 'dia', 'bsr')
CLASSES = {}


def _zero(dt):
    return False if dt.kind == 'b' else (0 if dt.kind in 'iu' else 0.0)


def _is_const_zero(c):
    return not isinstance(c, SVal) and c == 0


def _cells1(a):
    return list(_raw(a).reshape(-1))


def _mk1(cells, dt):
    o = _np.empty(len(cells), dtype=object)
    for i, c in enumerate(cells):
        o[i] = coerce(c, dt)
    r = o.view(SArr)
    r.ldtype = _np.dtype(dt)
    return r


def _mk2(grid, dt):
    n = len(grid)
    m = len(grid[0]) if n else 0
    o = _np.empty((n, m), dtype=object)
    for i in range(n):
        for j in range(m):
            o[i, j] = coerce(grid[i][j], dt)
    r = o.view(SArr)
    r.ldtype = _np.dtype(dt)
    return r


def _dense_of(x):
    """2-D SArr from a dense argument (SArr, ndarray, nested list)"""
    x = _unlazy(x)
    if isinstance(x, SymSp):
        return x.toarray()
    a = funcs._as_sarr(x)
    if a.ndim == 1:
        a = a.reshape(1, -1)
    if a.ndim != 2:
        raise ValueError('expected dimension <= 2 array or matrix')
    return a


def _order(fmt, rows, cols):
    idx = list(range(len(rows)))
    if fmt == 'csc':
        idx.sort(key=lambda k: (cols[k], rows[k]))
    else:
        idx.sort(key=lambda k: (rows[k], cols[k]))
    return idx


class SymSp:
    format = None
    ndim = 2
    __array_ufunc__ = None      # ndarray <op> sparse defers to the sparse operand, as with scipy
    _array_api = False          # True for the csc "sparse array" that spsolve returns for a sparse right-hand side

    # ---- construction --------------------------------------------------------------------------------
    def __init__(self, arg1, shape=None, dtype=None, copy=False):
        arg1 = _unlazy(arg1)
        if isinstance(arg1, SymSp):
            if arg1.format == self.format and not copy:
                self._adopt(arg1._data, arg1._rows, arg1._cols, arg1.shape, arg1.ldt)      # shares the stored numbers
            else:
                self._from_entries(_cells1(arg1._data), list(arg1._rows), list(arg1._cols), arg1.shape, arg1.ldt)
        elif hasattr(arg1, 'tocoo') and hasattr(arg1, 'toarray') and not isinstance(arg1, _np.ndarray):
            # the older triplet stub (stubs.SymCOO) or a real scipy matrix
            d = funcs._as_sarr(arg1.toarray())
            self._from_dense(d)
        elif isinstance(arg1, tuple):
            self._from_tuple(arg1, shape)
        else:
            self._from_dense(_dense_of(arg1))
        if dtype is not None and _np.dtype(dtype) != self.ldt:
            self._adopt(_mk1(_cells1(self._data), _np.dtype(dtype)), self._rows, self._cols, self.shape, _np.dtype(dtype))

    def _adopt(self, data, rows, cols, shape, dt):
        self._data, self._rows, self._cols = data, list(rows), list(cols)
        self.shape = (int(shape[0]), int(shape[1]))
        self.ldt = _np.dtype(dt)

    def _from_entries(self, cells, rows, cols, shape, dt, keep_duplicates=None):
        """new storage in this format's order; duplicates are summed except in coo"""
        dt = _np.dtype(dt)
        if keep_duplicates is None:
            keep_duplicates = self.format == 'coo'
        if not keep_duplicates:
            acc, seq = {}, []
            for c, r, k in zip(cells, rows, cols):
                if (r, k) in acc:
                    acc[(r, k)] = acc[(r, k)] + c
                else:
                    acc[(r, k)] = c
                    seq.append((r, k))
            rows, cols = [p[0] for p in seq], [p[1] for p in seq]
            cells = [acc[p] for p in seq]
            idx = _order(self.format, rows, cols)
            cells, rows, cols = [cells[i] for i in idx], [rows[i] for i in idx], [cols[i] for i in idx]
        self._adopt(_mk1(cells, dt), rows, cols, shape, dt)

    def _from_dense(self, d):
        n, m = d.shape
        raw = _raw(d)
        cells, rows, cols = [], [], []
        for i in range(n):
            for j in range(m):
                if not _is_const_zero(raw[i, j]):
                    cells.append(raw[i, j])
                    rows.append(i)
                    cols.append(j)
        self._from_entries(cells, rows, cols, (n, m), d.ldtype)

    def _from_tuple(self, t, shape):
        if len(t) == 2 and isinstance(t[0], int) and isinstance(t[1], int):
            self._from_entries([], [], [], t, _np.dtype(float))
            return
        if len(t) == 2 and isinstance(t[1], tuple):                       # (data, (row, col))
            data = funcs._as_sarr(_unlazy(t[0]))
            rows = [int(x) for x in _np.asarray(funcs._as_sarr(_unlazy(t[1][0])).typed()).reshape(-1)]
            cols = [int(x) for x in _np.asarray(funcs._as_sarr(_unlazy(t[1][1])).typed()).reshape(-1)]
            if shape is None:
                shape = (max(rows) + 1 if rows else 0, max(cols) + 1 if cols else 0)
            for r, c in zip(rows, cols):
                if not (0 <= r < shape[0] and 0 <= c < shape[1]):
                    raise ValueError('row or column index exceeds matrix dimensions')
            self._from_entries(_cells1(data), rows, cols, shape, data.ldtype)
            return
        if len(t) == 3:                                                       # (data, indices, indptr)
            if self.format not in ('csr', 'csc'):
                raise Unsupported('(data, indices, indptr) for %s' % self.format)
            data = funcs._as_sarr(_unlazy(t[0]))
            ind = [int(x) for x in _np.asarray(funcs._as_sarr(_unlazy(t[1])).typed()).reshape(-1)]
            ptr = [int(x) for x in _np.asarray(funcs._as_sarr(_unlazy(t[2])).typed()).reshape(-1)]
            major = []
            for k in range(len(ptr) - 1):
                major += [k] * (ptr[k + 1] - ptr[k])
            if len(major) != len(ind) or len(ind) != data.shape[0]:
                raise ValueError('indices and data should have the same size')
            rows, cols = (major, ind) if self.format == 'csr' else (ind, major)
            if shape is None:
                raise Unsupported('compressed constructor without shape')
            # the arrays are taken as they are (no copy, no sorting), as scipy does
            self._adopt(data, rows, cols, shape, data.ldtype)
            return
        if len(t) == 2:                                                       # dia: (data, offsets)
            data = funcs._as_sarr(_unlazy(t[0]))
            offs = _np.atleast_1d(_np.asarray(t[1])).astype(int).tolist()
            if data.ndim == 1:
                data = data.reshape(1, -1)
            if shape is None:
                raise ValueError('expected a shape argument')
            n, m = int(shape[0]), int(shape[1])
            raw = _raw(data)
            cells, rows, cols = [], [], []
            for d, off in enumerate(offs):
                for j in range(min(m, data.shape[1])):
                    i = j - off
                    if 0 <= i < n:
                        cells.append(raw[d, j])
                        rows.append(i)
                        cols.append(j)
            self._from_entries(cells, rows, cols, (n, m), data.ldtype)
            return
        raise Unsupported('sparse constructor from %r' % (type(t),))

    def _new(self, fmt, cells, rows, cols, shape=None, dt=None):
        o = CLASSES[fmt].__new__(CLASSES[fmt])
        o._from_entries(cells, rows, cols, shape or self.shape, dt or self.ldt, keep_duplicates=False)
        return o

    def _dense_to(self, fmt, d):
        o = CLASSES[fmt].__new__(CLASSES[fmt])
        o._from_dense(d)
        return o

    # ---- basic attributes ------------------------------------------------------------------------------
    @property
    def dtype(self):
        return self.ldt

    @property
    def nnz(self):
        if self.format in ('dia', 'bsr'):
            raise Unsupported('nnz of a %s matrix counts its padded storage; not modelled' % self.format)
        return len(self._rows)

    def getnnz(self, axis=None):
        return len(self._rows)

    def __len__(self):
        if self.format == 'dok':
            return len(self._rows)
        raise TypeError('sparse array length is ambiguous; use getnnz() or shape[0]')

    def __bool__(self):
        if self.shape == (1, 1):
            return bool(self.toarray()[0, 0] != 0)
        raise ValueError('The truth value of an array with more than one element is ambiguous. Use a.any() or a.all().')

    def __iter__(self):
        raise Unsupported('iteration over a sparse matrix')

    def __repr__(self):
        return '<SymSp %s %s %s nnz=%d>' % (self.format, self.shape, self.ldt, self.nnz)

    def _stored(self, name):
        if self.format not in ('csr', 'csc', 'coo'):
            raise AttributeError('%s not found' % name) if self.format == 'dok' else \
                Unsupported('.%s of a %s matrix is not modelled' % (name, self.format))

    @property
    def data(self):
        self._stored('data')
        return self._data

    @data.setter
    def data(self, v):
        self._stored('data')
        v = funcs._as_sarr(_unlazy(v))
        if v.shape != self._data.shape:
            raise Unsupported('replacing .data by an array of another length')
        self._data = v
        self.ldt = v.ldtype

    @property
    def row(self):
        if self.format != 'coo':
            raise AttributeError('row not found')
        return SArr.from_typed(_np.array(self._rows, dtype=_np.int32))

    @property
    def col(self):
        if self.format != 'coo':
            raise AttributeError('col not found')
        return SArr.from_typed(_np.array(self._cols, dtype=_np.int32))

    @property
    def indices(self):
        if self.format not in ('csr', 'csc'):
            raise AttributeError('indices not found')
        return SArr.from_typed(_np.array(self._cols if self.format == 'csr' else self._rows, dtype=_np.int32))

    @property
    def indptr(self):
        if self.format not in ('csr', 'csc'):
            raise AttributeError('indptr not found')
        major = self._rows if self.format == 'csr' else self._cols
        n = self.shape[0] if self.format == 'csr' else self.shape[1]
        if any(major[k] > major[k + 1] for k in range(len(major) - 1)):
            raise Unsupported('indptr of a compressed matrix whose storage is not ordered by its major axis')
        ptr = [0] * (n + 1)
        for r in major:
            ptr[r + 1] += 1
        for k in range(n):
            ptr[k + 1] += ptr[k]
        return SArr.from_typed(_np.array(ptr, dtype=_np.int32))

    # ---- conversions ---------------------------------------------------------------------------------
    def toarray(self, order=None, out=None):
        n, m = self.shape
        z = _zero(self.ldt)
        grid = [[z for _ in range(m)] for _ in range(n)]
        seen = set()
        for c, r, k in zip(_cells1(self._data), self._rows, self._cols):
            grid[r][k] = (grid[r][k] + c) if (r, k) in seen else c
            seen.add((r, k))
        return _mk2(grid, self.ldt) if n and m else funcs.np_zeros((n, m), dtype=self.ldt)

    def todense(self, order=None, out=None):
        return as_matrix(self.toarray())

    @property
    def A(self):
        return self.toarray()

    def asformat(self, fmt, copy=False):
        if fmt is None or fmt == self.format:
            return self.copy() if copy else self
        o = CLASSES[fmt].__new__(CLASSES[fmt])
        o._from_entries(_cells1(self._data), list(self._rows), list(self._cols), self.shape, self.ldt)
        return o

    def tocsr(self, copy=False): return self.asformat('csr', copy)
    def tocsc(self, copy=False): return self.asformat('csc', copy)
    def tocoo(self, copy=False): return self.asformat('coo', copy)
    def tolil(self, copy=False): return self.asformat('lil', copy)
    def todok(self, copy=False): return self.asformat('dok', copy)
    def todia(self, copy=False): return self.asformat('dia', copy)
    def tobsr(self, blocksize=None, copy=False): return self.asformat('bsr', copy)

    def copy(self):
        o = type(self).__new__(type(self))
        o._adopt(self._data.copy(), self._rows, self._cols, self.shape, self.ldt)
        o._array_api = self._array_api
        return o

    def astype(self, dt, casting='unsafe', copy=True):
        dt = _np.dtype(dt)
        if dt == self.ldt and not copy:
            return self
        o = type(self).__new__(type(self))
        o._adopt(_mk1(_cells1(self._data), dt), self._rows, self._cols, self.shape, dt)
        return o

    def asfptype(self):
        if self.ldt.kind == 'f':
            return self
        return self.astype(_np.float64)

    def transpose(self, axes=None, copy=False):
        fmt = {'csr': 'csc', 'csc': 'csr'}.get(self.format, self.format)
        o = CLASSES[fmt].__new__(CLASSES[fmt])
        if self.format in ('csr', 'csc', 'coo') and not copy:
            o._adopt(self._data, self._cols, self._rows, self.shape[::-1], self.ldt)          # shares the stored numbers
        else:
            o._from_entries(_cells1(self._data), list(self._cols), list(self._rows), self.shape[::-1], self.ldt)
        return o

    T = property(lambda self: self.transpose())

    def reshape(self, *shape, **kw):
        if len(shape) == 1 and isinstance(shape[0], (tuple, list)):
            shape = tuple(shape[0])
        shape = tuple(int(core.concretize_int(s)) if isinstance(s, SVal) else int(s) for s in shape)
        if shape == self.shape:
            return self
        raise Unsupported('reshape of a sparse matrix to another shape')

    # ---- reductions ------------------------------------------------------------------------------------
    def sum(self, axis=None, dtype=None, out=None):
        d = self.toarray()
        sdt = funcs._sum_dtype(self.ldt) if hasattr(funcs, '_sum_dtype') else self.ldt
        if axis is None:
            return funcs.np_sum(d)
        r = funcs.np_sum(d, axis=axis)
        if self._array_api:
            return r
        return as_matrix(r.reshape((1, -1)) if axis in (0, -2) else r.reshape((-1, 1)))

    def mean(self, axis=None):
        raise Unsupported('mean of a sparse matrix')

    def diagonal(self, k=0):
        return funcs.np_diag(self.toarray(), k)

    # ---- arithmetic --------------------------------------------------------------------------------------
    def _add_fmt(self, other):
        f = self.format
        if f in ('csr', 'csc', 'bsr'):
            return f
        if f in ('coo', 'lil'):
            return 'csr'
        if f == 'dok':
            return 'dok' if other.format == 'dok' else 'csr'
        return 'dia' if other.format == 'dia' else 'csr'

    def _binary_sparse(self, other, sign):
        if other.shape != self.shape:
            raise ValueError('inconsistent shapes')
        dt = _np.result_type(_np.empty(0, self.ldt), _np.empty(0, other.ldt))
        cells = _cells1(self._data) + [(c if sign > 0 else -c) for c in _cells1(other._data)]
        fmt = self._add_fmt(other)
        if sign < 0 and self.format == 'dok':
            fmt = 'csr'                       # dok has its own __add__ but not its own __sub__
        return self._new(fmt, cells, list(self._rows) + list(other._rows),
                         list(self._cols) + list(other._cols), dt=dt)

    def __add__(self, other):
        other = _unlazy(other)
        if type(other).__name__ == 'SymCOO':
            other = other._shadow()
        if isinstance(other, SymSp):
            return self._binary_sparse(other, +1)
        if _np.isscalar(other) or isinstance(other, SVal):
            if _is_const_zero(other):
                return self.copy()
            if self.format == 'dok':
                d = self.toarray() + other
                return self._dense_full('dok', d)
            raise NotImplementedError('adding a nonzero scalar to a sparse array is not supported')
        return as_matrix(_dense_of(self) + _dense_of(other))               # np.matrix, as in scipy

    __radd__ = __add__

    def _dense_full(self, fmt, d):
        n, m = d.shape
        raw = _raw(d)
        o = CLASSES[fmt].__new__(CLASSES[fmt])
        o._from_entries([raw[i, j] for i in range(n) for j in range(m)], [i for i in range(n) for j in range(m)],
                        [j for i in range(n) for j in range(m)], (n, m), d.ldtype)
        return o

    def __sub__(self, other):
        other = _unlazy(other)
        if type(other).__name__ == 'SymCOO':
            other = other._shadow()
        if isinstance(other, SymSp):
            return self._binary_sparse(other, -1)
        if _np.isscalar(other) or isinstance(other, SVal):
            if _is_const_zero(other):
                return self.copy()
            raise NotImplementedError('subtracting a nonzero scalar from a sparse array is not supported')
        return as_matrix(_dense_of(self) - _dense_of(other))

    def __rsub__(self, other):
        other = _unlazy(other)
        if _np.isscalar(other) or isinstance(other, SVal):
            if _is_const_zero(other):
                return -self
            raise NotImplementedError('subtracting a sparse array from a nonzero scalar is not supported')
        return as_matrix(_dense_of(other) - _dense_of(self))

    def __neg__(self):
        o = type(self).__new__(type(self))
        o._adopt(_mk1([-c for c in _cells1(self._data)], self.ldt), self._rows, self._cols, self.shape, self.ldt)
        return o

    def _scaled(self, f, dt, fmt=None):
        o = CLASSES[fmt or self.format].__new__(CLASSES[fmt or self.format])
        o._from_entries([f(c) for c in _cells1(self._data)], list(self._rows), list(self._cols), self.shape, dt)
        return o

    def __truediv__(self, other):
        other = _unlazy(other)
        if isinstance(other, SymSp):
            raise Unsupported('sparse / sparse')
        if not (_np.isscalar(other) or isinstance(other, SVal)):
            raise Unsupported('sparse / dense')
        if self.format in ('lil', 'dok'):
            # these two divide entry by entry and store the quotient in a matrix whose element type is result_type(matrix,
            # divisor): an integer matrix divided by a Python int stays integer and the quotients are truncated
            int_div = isinstance(other, (int, _np.integer, core.SInt)) and not isinstance(other, bool)
            if self.ldt.kind in 'iu' and not int_div:
                return self._scaled(lambda c: core.as_sfloat(c) / other if isinstance(c, SVal) else float(c) / other, _np.dtype(float))
            if self.ldt.kind in 'iu':
                def q(c):
                    v = c / other
                    return core.ite(v < 0, -core_floor(-v), core_floor(v)) if isinstance(v, SVal) else int(v)
                return self._scaled(q, self.ldt)
            return self._scaled(lambda c: c / other, self.ldt)
        dt = _np.result_type(_np.empty(0, self.ldt), _np.float64 if not isinstance(other, complex) else complex)
        return self._scaled(lambda c: core.as_sfloat(c) / other if isinstance(c, SVal) else float(c) / other, dt)

    def _mul_scalar(self, other):
        odt = _np.float64 if isinstance(other, (float, core.SFloat)) else (_np.int64 if not isinstance(other, bool) else _np.bool_)
        dt = _np.result_type(_np.empty(0, self.ldt), _np.empty(0, odt))
        return self._scaled(lambda c: c * other, dt)

    def multiply(self, other):
        other = _unlazy(other)
        if _np.isscalar(other) or isinstance(other, SVal):
            return self._mul_scalar(other)
        if isinstance(other, SymSp):
            d = self.toarray() * other.toarray()
            return self._dense_to('csr', d)
        o = funcs._as_sarr(other)
        n, m = self.shape
        if o.ndim == 1:
            o = o.reshape(1, -1)
        if o.ndim != 2 or o.shape[0] not in (1, n) or o.shape[1] not in (1, m):
            raise ValueError('inconsistent shapes')
        raw = _raw(o)
        dt = _np.result_type(_np.empty(0, self.ldt), _np.empty(0, o.ldtype))
        cells = [c * raw[r if o.shape[0] > 1 else 0, k if o.shape[1] > 1 else 0]
                 for c, r, k in zip(_cells1(self._data), self._rows, self._cols)]
        return self._new('dia' if self.format == 'dia' else 'coo', cells, list(self._rows), list(self._cols), dt=dt)

    def __mul__(self, other):
        other = _unlazy(other)
        if _np.isscalar(other) or isinstance(other, SVal):
            return self._mul_scalar(other)
        return self.dot(other)

    def __rmul__(self, other):
        other = _unlazy(other)
        if _np.isscalar(other) or isinstance(other, SVal):
            return self._mul_scalar(other)
        return funcs.np_dot(_dense_of(other), self.toarray())

    def dot(self, other):
        other = _unlazy(other)
        if isinstance(other, SymSp):
            d = funcs.np_dot(self.toarray(), other.toarray())
            # product pattern: structural (a cell is stored when some stored pair contributes), as scipy computes it
            n, m = d.shape
            raw = _raw(d)
            contrib = set()
            by_row = {}
            for r, k in zip(other._rows, other._cols):
                by_row.setdefault(r, []).append(k)
            for r, k in zip(self._rows, self._cols):
                for c2 in by_row.get(k, []):
                    contrib.add((r, c2))
            cells, rows, cols = [], [], []
            for (r, c2) in sorted(contrib):
                cells.append(raw[r, c2])
                rows.append(r)
                cols.append(c2)
            fmt = self.format if self.format in ('csr', 'csc', 'bsr') else ('dia' if self.format == other.format == 'dia' else 'csr')
            return self._new(fmt, cells, rows, cols, shape=(n, m), dt=d.ldtype)
        if _np.isscalar(other) or isinstance(other, SVal):
            return self._mul_scalar(other)
        return funcs.np_dot(self.toarray(), funcs._as_sarr(other))

    __matmul__ = dot

    def maximum(self, other):
        if isinstance(other, SymSp):
            raise Unsupported('sparse.maximum(sparse)')
        if not _is_const_zero(other):
            raise Unsupported('sparse.maximum(non-zero scalar)')
        fmt = self.format if self.format in ('csr', 'csc') else 'csr'
        return self._scaled(lambda c: core.ite(c < 0, _zero(self.ldt), c) if isinstance(c, SVal) else max(c, _zero(self.ldt)), self.ldt, fmt)

    def minimum(self, other):
        if isinstance(other, SymSp) or not _is_const_zero(other):
            raise Unsupported('sparse.minimum beyond the zero scalar')
        fmt = self.format if self.format in ('csr', 'csc') else 'csr'
        return self._scaled(lambda c: core.ite(c > 0, _zero(self.ldt), c) if isinstance(c, SVal) else min(c, _zero(self.ldt)), self.ldt, fmt)

    def _compare(self, other, op):
        d = self.toarray()
        r = getattr(d, op)(other.toarray() if isinstance(other, SymSp) else other)
        return self._dense_to('csc' if self.format == 'csc' else 'csr', r)

    def __lt__(self, o): return self._compare(o, '__lt__')
    def __gt__(self, o): return self._compare(o, '__gt__')
    def __le__(self, o): return self._compare(o, '__le__')
    def __ge__(self, o): return self._compare(o, '__ge__')
    def __ne__(self, o): return self._compare(o, '__ne__')
    def __eq__(self, o): return self._compare(o, '__eq__')
    __hash__ = None

    # ---- indexing (lil, csr, csc, dok support it; coo, dia, bsr do not) ----------------------------------------
    def _indexable(self):
        if self.format == 'bsr':
            raise NotImplementedError
        if self.format in ('coo', 'dia'):
            raise TypeError("'%s_matrix' object is not subscriptable" % self.format)

    def __getitem__(self, idx):
        self._indexable()
        d = self.toarray()
        if not isinstance(idx, tuple):
            idx = (idx, slice(None))
        r, c = idx
        if isinstance(r, (int, _np.integer)) and isinstance(c, (int, _np.integer)):
            return _raw(d)[int(r), int(c)]

        def norm(x, n):
            if isinstance(x, slice):
                return list(range(*x.indices(n)))
            if isinstance(x, (int, _np.integer)):
                return [int(x) % n if -n <= int(x) < n else _oob(x, n)]
            xs = _np.asarray(funcs._as_sarr(_unlazy(x)).typed())
            if xs.dtype.kind == 'b':
                return [i for i, b in enumerate(xs.reshape(-1)) if b]
            return [int(v) % n if -n <= int(v) < n else _oob(v, n) for v in xs.reshape(-1)]
        fancy_r = not isinstance(r, (slice, int, _np.integer))
        fancy_c = not isinstance(c, (slice, int, _np.integer))
        rs, cs = norm(r, self.shape[0]), norm(c, self.shape[1])
        raw = _raw(d)
        if fancy_r and fancy_c:
            if len(rs) != len(cs):
                raise IndexError('shape mismatch: indexing arrays could not be broadcast together')
            grid = [[raw[i, j] for i, j in zip(rs, cs)]]
        else:
            grid = [[raw[i, j] for j in cs] for i in rs]
        sub = _mk2(grid, self.ldt) if grid and grid[0] else funcs.np_zeros((len(rs), len(cs)), dtype=self.ldt)
        return self._dense_to(self.format, sub)

    def __setitem__(self, idx, value):
        self._indexable()
        d = self.toarray()
        value = _unlazy(value)
        if isinstance(value, SymSp):
            value = value.toarray()
        if not isinstance(idx, tuple):
            idx = (idx, slice(None))
        r, c = idx

        def fix(x):
            x = _unlazy(x)
            if isinstance(x, SArr):
                return x.typed()
            return x
        r, c = fix(r), fix(c)
        d[(r, c)] = value
        self._from_dense(d)

    def setdiag(self, values, k=0):
        d = self.toarray()
        n = min(self.shape)
        vs = funcs._as_sarr(_unlazy(values))
        for i in range(n):
            if 0 <= i + k < self.shape[1]:
                d[i, i + k] = _raw(vs).reshape(-1)[i if vs.ndim and vs.shape[0] > 1 else 0]
        self._from_dense(d)

    def nonzero(self):
        raise Unsupported('nonzero() of a sparse matrix')


def _oob(x, n):
    raise IndexError('index (%d) out of range' % int(x))


def core_floor(v):
    """floor of a non-negative symbolic real (integer part)"""
    v = core.as_sfloat(v)
    f = core.fresh_int('trunc')
    import z3
    core.cur().add(z3.And(z3.ToReal(f.t) <= v.v, v.v < z3.ToReal(f.t) + 1))
    return f


for _f in FORMATS:
    CLASSES[_f] = type('Sym_%s_matrix' % _f, (SymSp,), {'format': _f})


def is_sym_sparse(x):
    return isinstance(x, SymSp)
