"""I/O stubs for C15 (each is part of the claim): an in-memory HDF5-like store standing in for PyTables,
in-memory trajectory files standing in for mdtraj, and an in-process task runner standing in for
multiprocessing.Pool / Array.  With `USE_FAKE[0]` False the real libraries are used."""
import ctypes
import math

import numpy as _np

from . import core, funcs, stubs
from .arr import SArr, _raw, _unlazy
from .core import Unsupported

USE_FAKE = [False]
STORE = {}          # filename -> {node name -> array}
NPY = {}            # filename -> array
TRAJ = {}           # filename -> array (n_frames, n_atoms, 3) float32
POOL_ORDER = ['forward']


def reset():
    STORE.clear()
    NPY.clear()
    TRAJ.clear()


# ---- tables ------------------------------------------------------------------------------------------

class _Node:
    def __init__(self, name, arr):
        self.name = name
        self._a = arr

    @property
    def shape(self):
        return tuple(self._a.shape)

    @property
    def dtype(self):
        return self._a.dtype

    @property
    def chunkshape(self):
        # PyTables picks a chunk shape on its own; correct code must not depend on it.  The store reports small chunks
        # (2 rows) so that chunk-boundary behaviour is exercised at small sizes.
        return (2,) + tuple(self._a.shape[1:])

    @property
    def nrows(self):
        return self._a.shape[0]

    def __len__(self):
        return self._a.shape[0]

    def __getitem__(self, idx):
        r = self._a[idx]
        return r.copy() if isinstance(r, _np.ndarray) else r

    def __setitem__(self, idx, val):
        self._a[idx] = val

    def __iter__(self):
        return iter(self._a)


class _Root:
    """handle.root: membership test by child name, attribute access to children"""
    def __init__(self, nodes):
        self._nodes = nodes

    def __contains__(self, name):
        return str(name).lstrip('/') in self._nodes

    def __getattr__(self, name):
        try:
            return self.__dict__['_nodes'][name]
        except KeyError:
            raise AttributeError(name)

    def __iter__(self):
        return iter([self._nodes[k] for k in sorted(self._nodes)])


class _Handle:
    def __init__(self, filename, mode):
        self.filename = filename
        if mode == 'w':
            STORE[filename] = {}
        elif mode == 'a' and filename not in STORE:
            STORE[filename] = {}            # append mode creates a missing file and KEEPS the nodes of an existing one
        if filename not in STORE:
            raise IOError('``%s`` does not exist' % filename)
        self.nodes = STORE[filename]
        self.root = _Root(self.nodes)

    def remove_node(self, where='/', name=None, recursive=False):
        if name is None:
            name = getattr(where, 'name', None) or str(where).lstrip('/')
        if name not in self.nodes:
            raise KeyError('group ``/`` does not have a child named ``%s``' % name)
        del self.nodes[name]

    def __enter__(self):
        return self

    def __exit__(self, *a):
        return False

    def close(self):
        pass

    def create_carray(self, where, name, atom=None, shape=None, filters=None, **kw):
        dt = getattr(atom, 'dtype', None) or _np.dtype(float)
        if core.active():
            arr = funcs.np_zeros(shape, dtype=getattr(dt, 'base', dt))
        else:
            arr = _np.zeros(shape, dtype=getattr(dt, 'base', dt))
        if name in self.nodes:
            import tables as real
            raise real.NodeError('group ``/`` already has a child node named ``%s``' % name)
        n = _Node(name, arr)
        self.nodes[name] = n
        return n

    def list_nodes(self, where='/'):
        # PyTables lists the children of a group in alphanumerically sorted order of their names
        return [self.nodes[k] for k in sorted(self.nodes)]

    def iter_nodes(self, where='/', classname=None):
        # same order as list_nodes (alphanumerically sorted names)
        return iter(self.list_nodes(where))

    def walk_nodes(self, where='/', classname=None):
        return iter(self.list_nodes(where))

    def get_node(self, where='/', name=None):
        if name is None:
            name = where.lstrip('/')
        if name not in self.nodes:
            raise KeyError('group ``/`` does not have a child named ``%s``' % name)
        return self.nodes[name]

    def __contains__(self, path):
        return path.lstrip('/') in self.nodes


class FakeTables:
    def __getattr__(self, n):
        import tables as real
        return getattr(real, n)

    def open_file(self, filename, mode='r', **kw):
        if not USE_FAKE[0]:
            import tables as real
            return real.open_file(filename, mode, **kw)
        return _Handle(filename, mode)


# ---- numpy.load of .npy files ---------------------------------------------------------------------------

def fake_np_load(f, mmap_mode=None, **kw):
    if not USE_FAKE[0]:
        return _np.load(f, mmap_mode=mmap_mode, **kw)
    if f not in NPY:
        raise FileNotFoundError(f)
    return NPY[f]


def fake_frombuffer(buf, dtype=float, **kw):
    if isinstance(buf, _np.ndarray):
        return buf           # the fake mp.Array IS the array (shared storage)
    return _np.frombuffer(buf, dtype=dtype, **kw)


fake_np_load._always = True
fake_frombuffer._always = True
funcs.IMPL['load'] = fake_np_load
funcs.IMPL['frombuffer'] = fake_frombuffer


# ---- mdtraj ------------------------------------------------------------------------------------------------

class _Trj:
    def __init__(self, xyz):
        self.xyz = xyz

    def __len__(self):
        return self.xyz.shape[0]


class _TrjFile:
    def __init__(self, n):
        self.n = n

    def __enter__(self):
        return self

    def __exit__(self, *a):
        return False

    def __len__(self):
        return self.n


class FakeMD:
    def __getattr__(self, n):
        import mdtraj as real
        return getattr(real, n)

    def load(self, filename, stride=None, frame=None, atom_indices=None, top=None, **kw):
        if not USE_FAKE[0]:
            import mdtraj as real
            return real.load(filename, stride=stride, frame=frame, atom_indices=atom_indices, top=top, **kw)
        if filename not in TRAJ:
            raise IOError('No such file: %s' % filename)
        x = TRAJ[filename]
        if frame is not None:
            x = x[frame:frame + 1]
        elif stride is not None:
            x = x[::stride]
        if atom_indices is not None:
            x = x[:, list(atom_indices)]
        return _Trj(x.copy())

    def open(self, filename, *a, **kw):
        if not USE_FAKE[0]:
            import mdtraj as real
            return real.open(filename, *a, **kw)
        if filename not in TRAJ:
            raise IOError('No such file: %s' % filename)
        return _TrjFile(TRAJ[filename].shape[0])


# ---- multiprocessing -----------------------------------------------------------------------------------------

class _Async:
    def __init__(self, v):
        self.v = v

    def get(self, timeout=None):
        return self.v


class _Pool:
    """tasks run in-process, in the order given by POOL_ORDER[0] ('forward' | 'reverse'): the result of a
    correct parallel load must not depend on it"""

    def __init__(self, processes=None, initializer=None, initargs=()):
        if initializer is not None:
            initializer(*initargs)

    def __enter__(self):
        return self

    def __exit__(self, *a):
        return False

    def close(self):
        pass

    def join(self):
        pass

    def terminate(self):
        pass

    def _run(self, f, items, star):
        items = list(items)
        order = list(range(len(items)))
        if POOL_ORDER[0] == 'reverse':
            order.reverse()
        out = [None] * len(items)
        for i in order:
            out[i] = f(*items[i]) if star else f(items[i])
        return out

    def map(self, f, it, chunksize=None):
        return self._run(f, it, False)

    def starmap(self, f, it, chunksize=None):
        return self._run(f, it, True)

    def map_async(self, f, it, chunksize=None):
        return _Async(self._run(f, it, False))

    def starmap_async(self, f, it, chunksize=None):
        return _Async(self._run(f, it, True))

    def imap(self, f, it, chunksize=1):
        return iter(self._run(f, it, False))

    def imap_unordered(self, f, it, chunksize=1):
        # results are handed back in COMPLETION order, which is the execution order of this runner
        items = list(it)
        order = list(range(len(items)))
        if POOL_ORDER[0] == 'reverse':
            order.reverse()
        return iter([f(items[i]) for i in order])

    def apply_async(self, f, args=(), kwds=None):
        return _Async(f(*args, **(kwds or {})))

    def apply(self, f, args=(), kwds=None):
        return f(*args, **(kwds or {}))


class FakeMP:
    def __getattr__(self, n):
        import multiprocessing as real
        return getattr(real, n)

    def Pool(self, processes=None, initializer=None, initargs=()):
        if not USE_FAKE[0]:
            import multiprocessing as real
            return real.Pool(processes=processes, initializer=initializer, initargs=initargs)
        return _Pool(processes, initializer, initargs)

    def Array(self, typecode, size, lock=True):
        if not USE_FAKE[0]:
            import multiprocessing as real
            return real.Array(typecode, size, lock=lock)
        dt = _np.float32 if typecode is ctypes.c_float else _np.float64
        if core.active():
            return funcs.np_zeros(int(size), dtype=dt)
        return _np.zeros(int(size), dtype=dt)


stubs.MODULE_PROXIES['tables'] = FakeTables()
stubs.MODULE_PROXIES['mdtraj'] = FakeMD()
stubs.MODULE_PROXIES['multiprocessing'] = FakeMP()


# ---- math.ceil on a symbolic real ------------------------------------------------------------------------------

def sym_ceil(x):
    if not isinstance(x, core.SVal):
        return math.ceil(x)
    if isinstance(x, core.SInt):
        return x
    x = core.as_sfloat(x)
    if x.fin is not True:
        raise Unsupported('ceil of a possibly non-finite value')
    c = core.fresh_int('ceil')
    import z3
    core.cur().add(z3.And(z3.ToReal(c.t) >= x.v, z3.ToReal(c.t) - 1 < x.v))
    return c


class FakeMath:
    def __getattr__(self, n):
        return getattr(math, n)

    ceil = staticmethod(sym_ceil)


stubs.MODULE_PROXIES['math'] = FakeMath()
