"""Import /repo's enspara for symbolic execution: satisfy imports that cannot work in the sandbox,
then rebind every module global bound to numpy (module or function) to the proxy namespace."""
import hashlib
import importlib
import logging
import os
import sys
import types
import warnings

import numpy as _np

REPO = os.environ.get('VERIF_REPO', '/repo')

_loaded = {}
_state = {'prepared': False}


def prepare(mpi_module=None, kernels=None):
    """Must run before the first `import enspara...`."""
    if _state['prepared']:
        return
    warnings.simplefilter('ignore')
    logging.disable(logging.CRITICAL)
    if REPO not in sys.path:
        sys.path.insert(0, REPO)
    for k in [k for k in sys.modules if k == 'enspara' or k.startswith('enspara.')]:
        del sys.modules[k]
    sys.modules['mpi4py'] = mpi_module      # None -> ImportError -> repo's DummyComm fallback
    kernels = kernels or {}
    for name in ('enspara.geometry.libdist', 'enspara.msm.libmsm', 'enspara.info_theory.libinfo'):
        m = kernels.get(name)
        if m is None:
            m = types.ModuleType(name)
            m.__verif_standin__ = True
            if name.endswith('libdist'):
                m.euclidean = _py_euclidean
                m.manhattan = _py_manhattan
                m.hamming = _py_hamming
            elif name.endswith('libmsm'):
                m._mle_prinz_dense = _unavailable('libmsm._mle_prinz_dense')
            else:
                m.bincount2d = _unavailable('libinfo.bincount2d')
                m.matrix_bincount2d = _unavailable('libinfo.matrix_bincount2d')
        sys.modules[name] = m
    _state['prepared'] = True


def _unavailable(name):
    def f(*a, **k):
        from .core import Unsupported
        raise Unsupported('%s stand-in called (kernel not built for this run)' % name)
    return f


def _py_euclidean(X, y, out=None):
    X = _np.asarray(X, dtype=float)
    return _np.sqrt(((X - _np.asarray(y, dtype=float)) ** 2).reshape(len(X), -1).sum(axis=1))


def _py_manhattan(X, y, out=None):
    X = _np.asarray(X, dtype=float)
    return _np.abs(X - _np.asarray(y, dtype=float)).reshape(len(X), -1).sum(axis=1)


def _py_hamming(X, y, out=None):
    X = _np.asarray(X)
    return (X != _np.asarray(y)).reshape(len(X), -1).mean(axis=1)


def load(modname, extra=None):
    """import a /repo module and rebind its numpy globals to the proxy"""
    prepare()
    if modname in _loaded:
        return _loaded[modname]
    mod = importlib.import_module(modname)
    f = getattr(mod, '__file__', '') or ''
    if not os.path.realpath(f).startswith(os.path.realpath(REPO) + os.sep):
        raise RuntimeError('%s was imported from %s, not from %s' % (modname, f, REPO))
    patch(mod, extra)
    _loaded[modname] = mod
    try:        # the repo registers a citation banner with atexit; keep check output clean
        import atexit
        cit = sys.modules.get('enspara.citation.citation')
        if cit is not None:
            atexit.unregister(cit.citation_printer)
    except Exception:
        pass
    return mod


def patch(mod, extra=None):
    from .funcs import NP
    from . import stubs
    g = vars(mod)
    for name, val in list(g.items()):
        if val is _np:
            g[name] = NP
        elif isinstance(val, types.ModuleType) and val.__name__ in stubs.MODULE_PROXIES:
            g[name] = stubs.MODULE_PROXIES[val.__name__]
        elif callable(val) and getattr(val, '__module__', None) and not isinstance(val, type):
            m = val.__module__ or ''
            key = m + '.' + getattr(val, '__name__', '')
            if key in stubs.FUNCTION_PROXIES:
                g[name] = stubs.FUNCTION_PROXIES[key]
            elif m.startswith('numpy') and getattr(_np, getattr(val, '__name__', ''), None) is val:
                g[name] = getattr(NP, val.__name__)
    if extra:
        g.update(extra)


def source_hashes(relpaths):
    out = {}
    for p in relpaths:
        fp = os.path.join(REPO, p)
        try:
            out[p] = hashlib.sha256(open(fp, 'rb').read()).hexdigest()[:16]
        except OSError:
            out[p] = 'missing'
    return out
