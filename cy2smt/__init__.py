"""E2 `cy2smt`: the Cython kernels of /repo, interpreted from Cython's own TYPED syntax tree.

The .pyx file is run through the front end of the installed Cython (the same version that
builds the extension) up to and including IterationTransform; every fused specialisation is then a
tree whose nodes carry the C types Cython assigned.  `Interp` executes such a tree over symnp values:

* functional mode  - buffers are SArr with symbolic contents and small concrete extents; loops are
  unrolled; every C integer operation carries the obligation that its exact result is representable
  in the node's C type (so integer wrap-around is a reported finding, not silently modelled);
* abstract mode    - extents are unbounded symbolic integers; a loop body is executed once for a
  symbolic iteration; every buffer access yields a bounds obligation (boundscheck(False) makes an
  out-of-range access undefined behaviour) and is recorded for the prange independence check.

Python-object typed nodes (validation code, `C + C.T`, `X.sum(axis=1)`, `np.zeros(...)`) are evaluated
with ordinary Python semantics over the same values (the numpy proxy of E1).
"""
import math
import operator
import os

import numpy as _np
import z3

from symnp import core, funcs
from symnp.core import SVal, SInt, SFloat, SBool, Unsupported, ite
from symnp.arr import SArr, _raw

# ---------------------------------------------------------------------------------------------
# front end
# ---------------------------------------------------------------------------------------------

_TREES = {}


def typed_tree(pyx_path):
    """Cython's typed tree of a .pyx (cached per path+mtime)."""
    from Cython.Compiler import Main, Pipeline
    from Cython.Compiler.Main import CompilationOptions, default_options
    key = (pyx_path, os.path.getmtime(pyx_path))
    if key in _TREES:
        return _TREES[key]
    import tempfile
    import shutil
    d = tempfile.mkdtemp(prefix='cy2smt_', dir='/dev/shm' if os.path.isdir('/dev/shm') else None)
    try:
        # work on a copy outside /repo so that nothing is written next to the sources
        pkg = os.path.join(d, 'enspara_kernel')
        os.makedirs(pkg)
        dst = os.path.join(pkg, os.path.basename(pyx_path))
        shutil.copy(pyx_path, dst)
        cwd = os.getcwd()
        os.chdir(pkg)
        try:
            opts = CompilationOptions(default_options, language_level=3)
            from Cython.Compiler.Main import Context
            ctx = Context.from_options(opts)
            modname = os.path.splitext(os.path.basename(pyx_path))[0]
            src = Main.CompilationSource(Main.FileSourceDescriptor(dst), modname, pkg)
            result = Main.create_default_resultobj(src, opts)
            pipeline = Pipeline.create_pyx_pipeline(ctx, opts, result)
            cut = []
            for ph in pipeline:
                cut.append(ph)
                if type(ph).__name__ == 'IterationTransform':
                    break
            err, tree = Pipeline.run_pipeline(cut, src)
        finally:
            os.chdir(cwd)
        if err is not None:
            raise RuntimeError('Cython front end failed on %s: %r' % (pyx_path, err))
    finally:
        shutil.rmtree(d, ignore_errors=True)
    _TREES[key] = tree
    return tree


def functions(tree):
    """name -> DefNode for every (specialised) function of the module"""
    from Cython.Compiler import Visitor, Nodes
    out = {}

    class F(Visitor.TreeVisitor):
        def visit_Node(self, node):
            self.visitchildren(node)

        def visit_DefNode(self, node):
            out[str(node.name)] = node
            self.visitchildren(node)
    F().visit(tree)
    return out


# ---------------------------------------------------------------------------------------------
# C types
# ---------------------------------------------------------------------------------------------

INT_RANGES = {
    'char': (-2 ** 7, 2 ** 7 - 1), 'signed char': (-2 ** 7, 2 ** 7 - 1), 'unsigned char': (0, 2 ** 8 - 1),
    'short': (-2 ** 15, 2 ** 15 - 1), 'unsigned short': (0, 2 ** 16 - 1),
    'int': (-2 ** 31, 2 ** 31 - 1), 'unsigned int': (0, 2 ** 32 - 1),
    'long': (-2 ** 63, 2 ** 63 - 1), 'unsigned long': (0, 2 ** 64 - 1),
    'PY_LONG_LONG': (-2 ** 63, 2 ** 63 - 1), 'unsigned PY_LONG_LONG': (0, 2 ** 64 - 1),
    'Py_ssize_t': (-2 ** 63, 2 ** 63 - 1), 'size_t': (0, 2 ** 64 - 1), 'npy_intp': (-2 ** 63, 2 ** 63 - 1),
    'int8_t': (-2 ** 7, 2 ** 7 - 1), 'int16_t': (-2 ** 15, 2 ** 15 - 1), 'int32_t': (-2 ** 31, 2 ** 31 - 1),
    'int64_t': (-2 ** 63, 2 ** 63 - 1), 'uint8_t': (0, 2 ** 8 - 1), 'uint16_t': (0, 2 ** 16 - 1),
    'uint32_t': (0, 2 ** 32 - 1), 'uint64_t': (0, 2 ** 64 - 1), 'bint': (0, 1),
    'npy_int8': (-2 ** 7, 2 ** 7 - 1), 'npy_int16': (-2 ** 15, 2 ** 15 - 1), 'npy_int32': (-2 ** 31, 2 ** 31 - 1),
    'npy_int64': (-2 ** 63, 2 ** 63 - 1), 'npy_uint8': (0, 2 ** 8 - 1), 'npy_uint16': (0, 2 ** 16 - 1),
    'npy_uint32': (0, 2 ** 32 - 1), 'npy_uint64': (0, 2 ** 64 - 1), 'npy_long': (-2 ** 63, 2 ** 63 - 1),
}


def ctype_name(t):
    s = str(t)
    return s


def round_to_double(v):
    """the value of (double)v for a 64-bit C integer v (round to nearest, ties to even): exact for |v| <= 2^53; for
    2^53 < |v| < 2^54 the nearest even integer, a tie going to the multiple of 4; beyond that a value within a relative 2^-53 of v
    (over-approximation).  Memoised on the argument: the same integer always converts to the same double."""
    import z3
    if isinstance(v, int):
        return float(v)
    ctx = core.cur()
    x = core.to_z3_int(v)
    key = ('round_to_double', x.get_id())
    hit = ctx.memo.get(key)
    if hit is not None:
        return hit[1]
    B = 2 ** 53
    q = x / 2
    r2 = z3.If(x % 2 == 0, x, z3.If(q % 2 == 0, 2 * q, 2 * q + 2))
    f = z3.Real(ctx.name('dbl'))
    xr = z3.ToReal(x)
    ax = z3.If(xr >= 0, xr, -xr)
    far = z3.Or(z3.And(x <= 2 * B, x >= -2 * B), z3.And((f - xr) * B <= ax, (xr - f) * B <= ax))
    ctx.add(far)
    term = z3.If(z3.And(x <= B, x >= -B), xr, z3.If(z3.And(x < 2 * B, x > -2 * B), z3.ToReal(r2), f))
    out = SFloat(0, term)
    ctx.memo[key] = (x, out)
    return out


def is_c_int(t):
    return t is not None and getattr(t, 'is_int', False) and not getattr(t, 'is_pyobject', False)


def is_c_float(t):
    return t is not None and getattr(t, 'is_float', False)


def is_pyobj(t):
    return t is None or getattr(t, 'is_pyobject', False) or getattr(t, 'is_buffer', False)


def int_range(t):
    n = ctype_name(t)
    if n in INT_RANGES:
        return INT_RANGES[n]
    # typedef'd numpy names such as `__pyx_t_5numpy_int32_t`
    for k, v in INT_RANGES.items():
        if n.endswith(k):
            return v
    if getattr(t, 'is_int', False):
        signed = getattr(t, 'signed', 1)
        rank = getattr(t, 'rank', None)
        bits = {0: 8, 1: 16, 2: 32, 3: 64, 4: 64}.get(rank)
        if bits:
            return (0, 2 ** bits - 1) if signed == 0 else (-2 ** (bits - 1), 2 ** (bits - 1) - 1)
    raise Unsupported('unknown C integer type %s' % n)


def np_dtype_of(t):
    n = ctype_name(t)
    for k in ('uint8', 'uint16', 'uint32', 'uint64', 'int8', 'int16', 'int32', 'int64', 'float32', 'float64'):
        if n.endswith(k + '_t') or n.endswith(k):
            return _np.dtype(k)
    if n in ('double',):
        return _np.dtype('float64')
    if n in ('float',):
        return _np.dtype('float32')
    if n in ('long', 'Py_ssize_t', 'npy_intp'):
        return _np.dtype('int64')
    if n == 'int':
        return _np.dtype('int32')
    raise Unsupported('no dtype for C type %s' % n)


# ---------------------------------------------------------------------------------------------
# values
# ---------------------------------------------------------------------------------------------

class AbstractBuf:
    """buffer with symbolic extents and unconstrained contents (abstract mode)"""

    def __init__(self, name, shape, dtype):
        self.name = name
        self.shape = tuple(shape)
        self.ndim = len(self.shape)
        self.dtype = _np.dtype(dtype)

    def __len__(self):
        raise Unsupported('len() of an abstract buffer must go through the interpreter')

    def max(self):
        return AbstractMax(self, 'max')

    def min(self):
        return AbstractMax(self, 'min')


class AbstractMax:
    """a.max()/a.min() of an abstract buffer: bounds every value read from it afterwards"""

    def __init__(self, buf, kind):
        self.buf = buf
        self.kind = kind


class Obligation:
    def __init__(self, kind, label, cond, where):
        self.kind = kind        # 'bounds' | 'overflow' | 'independence' | 'assert'
        self.label = label
        self.cond = cond        # must hold (SBool / bool)
        self.where = where


class ReturnSignal(Exception):
    def __init__(self, value):
        self.value = value


class KernelAssertion(AssertionError):
    pass


class BreakSignal(Exception):
    pass


class ContinueSignal(Exception):
    pass


class Interp:
    def __init__(self, module_globals=None, abstract=False):
        self.g = dict(module_globals or {})
        self.abstract = abstract
        self.obligations = []
        self.accesses = None          # list of (kind, bufname, index terms) while inside a prange body
        self.locals_created = None    # z3 constants created inside a prange body (loop-local symbols)
        self.buf_bounds = {}          # bufname -> list of (kind, value) facts from a.max() asserts
        self.stats = {'nodes': 0, 'loops_unrolled': 0, 'loops_abstracted': 0, 'prange': 0, 'accesses': 0}
        self.notes = []

    # ---- helpers ------------------------------------------------------------------------
    def pos(self, node):
        p = getattr(node, 'pos', None)
        return 'line %s' % p[1] if p else '?'

    def oblige(self, kind, label, cond, node):
        if cond is True:
            return
        self.obligations.append(Obligation(kind, label, cond, self.pos(node)))

    def fresh_int(self, base, lo=None, hi=None):
        v = core.fresh_int(base, lo, hi)
        if self.locals_created is not None:
            self.locals_created.append(v.t)
        return v

    def fresh_real(self, base):
        v = core.fresh_real(base)
        if self.locals_created is not None:
            self.locals_created.append(v.v)
        return v

    def fit_int(self, val, t, node, what):
        """C integer result: obligation that the exact value is representable in type t"""
        if isinstance(val, (bool, SBool)):
            return val
        lo, hi = int_range(t)
        if isinstance(val, int):
            if not lo <= val <= hi:
                self.oblige('overflow', '%s does not fit %s' % (what, ctype_name(t)), False, node)
            return val
        if isinstance(val, SInt):
            self.oblige('overflow', '%s fits %s' % (what, ctype_name(t)), (val >= lo) & (val <= hi), node)
            # replay hint: a value just one past the range wraps to a number of the same magnitude, which squares / absolute
            # values downstream cannot tell apart; counterexamples well outside the range reproduce
            self.obligations[-1].clear_cut = (val > hi + 1) | (val < lo - 1)
            return val
        return val

    def convert_int(self, val, t, node):
        """assignment / coercion to a C integer type.  Signed -> unsigned of a negative value is modular in C
        (well defined): modelled as one wrap; everything else must be representable."""
        lo, hi = int_range(t)
        if isinstance(val, (float, SFloat)):
            raise Unsupported('float to C integer conversion')
        if isinstance(val, (bool, SBool)):
            return val
        if lo == 0 and not isinstance(val, int):
            wrapped = ite(val < 0, val + (hi + 1), val)
            self.oblige('overflow', 'value converted to %s is within one wrap' % ctype_name(t),
                        (wrapped >= 0) & (wrapped <= hi), node)
            return wrapped
        if lo == 0 and isinstance(val, int) and val < 0:
            return val + (hi + 1)
        return self.fit_int(val, t, node, 'converted value')

    # ---- buffers ---------------------------------------------------------------------------
    def buf_shape(self, b):
        if isinstance(b, AbstractBuf):
            return b.shape
        return b.shape

    def access(self, kind, bufname, b, idx, node, boundscheck=False, wraparound=False):
        shape = self.buf_shape(b)
        if len(idx) != len(shape):
            raise Unsupported('partial buffer indexing')
        self.stats['accesses'] += 1
        ok = True
        norm = []
        for d, i in enumerate(idx):
            n = shape[d]
            if wraparound:
                i = ite(i < 0, i + n, i) if isinstance(i, SVal) else (i + n if i < 0 else i)
            c = (i >= 0) & (i < n)
            ok = c if ok is True else (ok & c)
            norm.append(i)
        self.oblige('bounds', '%s of %s%s within bounds' % (kind, bufname, '[' + ','.join(['.'] * len(idx)) + ']'), ok, node)
        if self.accesses is not None:
            self.accesses.append((kind, bufname, tuple(norm)))
        return tuple(norm)

    # ---- expression evaluation ----------------------------------------------------------------
    def ev(self, node, env):
        self.stats['nodes'] += 1
        m = getattr(self, 'ev_' + type(node).__name__, None)
        if m is None:
            raise Unsupported('cy2smt: expression node %s (%s)' % (type(node).__name__, self.pos(node)))
        return m(node, env)

    def _arg(self, node, env):
        return self.ev(node.arg, env)

    ev_CoerceToTempNode = _arg
    ev_CloneNode = _arg
    ev_ProxyNode = _arg
    ev_CoerceToBooleanNode = _arg
    ev_NoneCheckNode = _arg
    ev_PyTypeTestNode = _arg
    ev_CoerceToComplexNode = _arg

    def ev_ResultRefNode(self, node, env):
        return env['$let'][id(node)]

    def ev_CoerceToPyTypeNode(self, node, env):
        return self.ev(node.arg, env)

    def ev_CoerceFromPyTypeNode(self, node, env):
        v = self.ev(node.arg, env)
        return self.to_ctype(v, node.type, node)

    def to_ctype(self, v, t, node):
        if isinstance(v, _np.generic):
            v = v.item()
        if is_c_int(t):
            if isinstance(v, (SArr, _np.ndarray)) and v.ndim == 0:
                v = _raw(v)[()] if isinstance(v, SArr) else v.item()
            return self.convert_int(v, t, node)
        if is_c_float(t):
            if isinstance(v, (int, bool)):
                return float(v)
            if isinstance(v, (SInt, SBool)):
                return core.as_sfloat(v)
            return v
        return v

    def ev_TypecastNode(self, node, env):
        v = self.ev(node.operand, env)
        ot = getattr(node.operand, 'type', None)
        if is_c_float(node.type) and is_c_int(ot) and isinstance(v, SInt):
            try:
                lo, hi = int_range(ot)
            except Unsupported:
                lo, hi = -2 ** 63, 2 ** 64 - 1
            if hi > 2 ** 53 and ('double' in ctype_name(node.type) or 'float64' in ctype_name(node.type)):
                return round_to_double(v)
        return self.to_ctype(v, node.type, node)

    def ev_IntNode(self, node, env):
        return int(str(node.value).rstrip('LlUu'), 0)

    def ev_FloatNode(self, node, env):
        return float(node.value)

    def ev_BoolNode(self, node, env):
        return bool(node.value)

    def ev_NoneNode(self, node, env):
        return None

    def ev_UnicodeNode(self, node, env):
        return str(node.value)

    ev_StringNode = ev_UnicodeNode
    ev_IdentifierStringNode = ev_UnicodeNode

    def ev_JoinedStrNode(self, node, env):
        return '<formatted message>'        # message formatting is not the subject

    ev_FormattedValueNode = ev_JoinedStrNode
    ev_BytesNode = ev_UnicodeNode

    def ev_TupleNode(self, node, env):
        return tuple(self.ev(a, env) for a in node.args)

    def ev_ListNode(self, node, env):
        return [self.ev(a, env) for a in node.args]

    def ev_DictNode(self, node, env):
        return {self.ev(i.key, env): self.ev(i.value, env) for i in node.key_value_pairs}

    def ev_NameNode(self, node, env):
        n = str(node.name)
        if n in env:
            return env[n]
        if n in self.g:
            return self.g[n]
        import builtins
        if hasattr(builtins, n):
            return getattr(builtins, n)
        raise Unsupported('cy2smt: unbound name %s (%s)' % (n, self.pos(node)))

    def ev_AttributeNode(self, node, env):
        obj = self.ev(node.obj, env)
        attr = str(node.attribute)
        if isinstance(obj, AbstractBuf):
            if attr == 'shape':
                return tuple(obj.shape)
            if attr in ('max', 'min'):
                return getattr(obj, attr)
            if attr == 'ndim':
                return obj.ndim
            if attr == 'dtype':
                return obj.dtype
            if attr == 'reshape':
                return lambda *a, **k: obj        # the result of the kernel is not inspected in abstract mode
            raise Unsupported('attribute %s of an abstract buffer' % attr)
        return getattr(obj, attr)

    def ev_IndexNode(self, node, env):
        base = self.ev(node.base, env)
        idx = self.ev(node.index, env)
        if isinstance(base, tuple):
            return base[operator.index(idx)]
        return base[idx]

    def ev_BufferIndexNode(self, node, env):
        b = self.ev(node.base, env)
        name = str(getattr(node.base, 'name', '?'))
        idx = [self.ev(i, env) for i in node.indices]
        opts = env.get('$opts', {})
        idx = self.access('read', name, b, idx, node, opts.get('boundscheck', True), opts.get('wraparound', True))
        if isinstance(b, AbstractBuf):
            return self.abstract_read(b, name, node)
        r = b[tuple(idx)]
        if isinstance(r, _np.generic):
            r = r.item()
        return r

    def abstract_read(self, b, name, node):
        if b.dtype.kind in 'iu':
            info = _np.iinfo(b.dtype)
            v = self.fresh_int('rd_' + name, int(info.min), int(info.max))
            for kind, bound in self.buf_bounds.get(name, []):
                core.cur().add(core.to_z3_bool((v < bound) if kind == 'max<' else (v >= bound)))
            return v
        if b.dtype.kind == 'f':
            return self.fresh_real('rd_' + name)
        raise Unsupported('abstract read of dtype %s' % b.dtype)

    def ev_SimpleCallNode(self, node, env):
        fn = node.function
        fname = str(getattr(fn, 'name', '')) if type(fn).__name__ == 'NameNode' else None
        args = node.args
        if args is None:
            at = getattr(node, 'arg_tuple', None)
            args = list(at.args) if at is not None else []
        if fname == 'len' and len(args) == 1:
            v = self.ev(args[0], env)
            if isinstance(v, AbstractBuf):
                return v.shape[0]
            if isinstance(v, (SArr, _np.ndarray)):
                return v.shape[0]
            return len(v)
        if fname == 'shape' and len(args) == 1 and not is_pyobj(getattr(fn, 'type', None)) or \
                (fname == 'shape' and 'npy_intp' in str(getattr(node, 'type', ''))):
            v = self.ev(args[0], env)
            return tuple(v.shape)
        if fname in ('sqrt', 'fabs', 'log10', 'log', 'exp') and not is_pyobj(getattr(node, 'type', None)):
            a = self.ev(args[0], env)
            if isinstance(a, (int, bool, SInt)):
                a = core.as_sfloat(a) if isinstance(a, SInt) else float(a)
            if fname == 'sqrt':
                return core.fl_sqrt(a) if isinstance(a, SVal) else (math.sqrt(a) if a >= 0 else math.nan)
            if fname == 'fabs':
                return abs(a)
            if fname == 'log10':
                return (core.fl_log(a) / core.fl_log(10.0)) if isinstance(a, SVal) else \
                    (math.log10(a) if a > 0 else (-math.inf if a == 0 else math.nan))
            if fname == 'log':
                return core.fl_log(a) if isinstance(a, SVal) else math.log(a)
            if fname == 'exp':
                return core.fl_exp(a) if isinstance(a, SVal) else math.exp(a)
        if fname == 'abs' and len(args) == 1:
            return abs(self.ev(args[0], env))
        f = self.ev(fn, env)
        a = [self.ev(x, env) for x in args]
        return self.pycall(f, a, {}, node)

    def ev_GeneralCallNode(self, node, env):
        f = self.ev(node.function, env)
        a = list(self.ev(node.positional_args, env))
        kw = self.ev(node.keyword_args, env) if node.keyword_args is not None else {}
        return self.pycall(f, a, kw, node)

    def pycall(self, f, a, kw, node):
        if isinstance(f, AbstractMax) or (callable(f) and getattr(f, '__self__', None).__class__ is AbstractBuf):
            return f()
        if any(isinstance(x, AbstractBuf) for x in a) and not getattr(f, '__name__', '') in self.g:
            raise Unsupported('Python call on an abstract buffer (%s)' % self.pos(node))
        return f(*a, **kw)

    def ev_PythonCapiCallNode(self, node, env):
        raise Unsupported('cy2smt: C-API call %s' % getattr(node.function, 'name', '?'))

    # arithmetic ------------------------------------------------------------------------------
    def _binop(self, node, env):
        a = self.ev(node.operand1, env)
        b = self.ev(node.operand2, env)
        op = node.operator
        t = node.type
        if is_pyobj(t):
            pyops = {'+': operator.add, '-': operator.sub, '*': operator.mul, '/': operator.truediv,
                     '//': operator.floordiv, '%': operator.mod, '**': operator.pow, '&': operator.and_,
                     '|': operator.or_, '^': operator.xor, '@': operator.matmul}
            return pyops[op](a, b)
        if is_c_float(t):
            fa = core.as_sfloat(a) if isinstance(a, (SInt, SBool)) else (float(a) if isinstance(a, (int, bool)) else a)
            fb = core.as_sfloat(b) if isinstance(b, (SInt, SBool)) else (float(b) if isinstance(b, (int, bool)) else b)
            if op == '+':
                return fa + fb
            if op == '-':
                return fa - fb
            if op == '*':
                return fa * fb
            if op == '/':
                if isinstance(fb, SVal) or isinstance(fa, SVal):
                    return core.fl_arith('/', core.as_sfloat(fa), core.as_sfloat(fb))
                return fa / fb if fb != 0 else (math.nan if fa == 0 else math.copysign(math.inf, fa))
            if op == '**':
                return fa ** fb
            raise Unsupported('C float operator %s' % op)
        if is_c_int(t):
            if op == '+':
                r = a + b
            elif op == '-':
                r = a - b
            elif op == '*':
                r = a * b
            elif op == '**':
                if not isinstance(b, int) or b < 0:
                    raise Unsupported('C integer power with non-constant exponent')
                r = 1
                for _ in range(b):
                    r = r * a
            elif op == '//' or op == '/':
                r = core.int_floordiv(a, b) if op == '//' else None
                if r is None:
                    raise Unsupported('C integer true division')
            elif op == '%':
                r = core.int_mod(a, b)
            else:
                raise Unsupported('C integer operator %s' % op)
            return self.fit_int(r, t, node, '%s %s %s' % (ctype_name(node.operand1.type), op, ctype_name(node.operand2.type)))
        raise Unsupported('binary operator on type %s' % t)

    ev_AddNode = _binop
    ev_SubNode = _binop
    ev_MulNode = _binop
    ev_DivNode = _binop
    ev_PowNode = _binop
    ev_ModNode = _binop
    ev_IntBinopNode = _binop
    ev_NumBinopNode = _binop
    ev_MatMultNode = _binop

    def ev_UnaryMinusNode(self, node, env):
        v = self.ev(node.operand, env)
        r = -v
        if is_c_int(node.type):
            return self.fit_int(r, node.type, node, 'negation')
        return r

    def ev_NotNode(self, node, env):
        v = self.ev(node.operand, env)
        return core.snot(v) if isinstance(v, SVal) else (not v)

    def ev_BoolBinopNode(self, node, env):
        a = self.ev(node.operand1, env)
        if node.operator == 'and':
            if not isinstance(a, SVal):
                return self.ev(node.operand2, env) if a else a
            b = self.ev(node.operand2, env)
            return a & b if isinstance(b, (bool, SBool)) else ite(a, b, a)
        if not isinstance(a, SVal):
            return a if a else self.ev(node.operand2, env)
        b = self.ev(node.operand2, env)
        return a | b

    ev_BoolBinopResultNode = _arg

    def ev_CondExprNode(self, node, env):
        """`a if test else b`: only the selected operand is evaluated (C semantics of ?:); a symbolic test forks the path"""
        t = self.ev(node.condition, env)
        if isinstance(t, SVal):
            t = bool(t)            # forks through the explorer
        return self.ev(node.true_val, env) if t else self.ev(node.false_val, env)

    def ev_PrimaryCmpNode(self, node, env):
        a = self.ev(node.operand1, env)
        b = self.ev(node.operand2, env)
        r = self._cmp(node.operator, a, b)
        c = node.cascade
        left = b
        while c is not None:
            nb = self.ev(c.operand2, env)
            r2 = self._cmp(c.operator, left, nb)
            r = (r & r2) if isinstance(r, (SBool,)) or isinstance(r2, SBool) else (r and r2)
            left = nb
            c = c.cascade
        return r

    def _cmp(self, op, a, b):
        if isinstance(a, AbstractMax) or isinstance(b, AbstractMax):
            return ('absmax', op, a, b)
        ops = {'==': operator.eq, '!=': operator.ne, '<': operator.lt, '<=': operator.le, '>': operator.gt,
               '>=': operator.ge, 'is': operator.is_, 'is_not': operator.is_not,
               'in': lambda x, y: x in y, 'not_in': lambda x, y: x not in y}
        return ops[op](a, b)

    # ---- statements -----------------------------------------------------------------------------
    def ex(self, node, env):
        self.stats['nodes'] += 1
        m = getattr(self, 'ex_' + type(node).__name__, None)
        if m is None:
            raise Unsupported('cy2smt: statement node %s (%s)' % (type(node).__name__, self.pos(node)))
        return m(node, env)

    def ex_StatListNode(self, node, env):
        for s in node.stats:
            self.ex(s, env)

    def ex_PassStatNode(self, node, env):
        pass

    def ex_BreakStatNode(self, node, env):
        raise BreakSignal()

    def ex_ContinueStatNode(self, node, env):
        raise ContinueSignal()

    ex_CVarDefNode = ex_PassStatNode
    ex_CImportStatNode = ex_PassStatNode

    def ex_ExprStatNode(self, node, env):
        self.ev(node.expr, env)

    def assign(self, lhs, val, env, node):
        k = type(lhs).__name__
        if k == 'NameNode':
            t = lhs.type
            if getattr(t, 'is_buffer', False):
                val = self.bind_buffer(str(lhs.name), val, t, node)
            elif not is_pyobj(t):
                val = self.to_ctype(val, t, node)
            env[str(lhs.name)] = val
            return
        if k == 'BufferIndexNode':
            b = self.ev(lhs.base, env)
            name = str(getattr(lhs.base, 'name', '?'))
            idx = [self.ev(i, env) for i in lhs.indices]
            opts = env.get('$opts', {})
            idx = self.access('write', name, b, idx, lhs, opts.get('boundscheck', True), opts.get('wraparound', True))
            if isinstance(b, AbstractBuf):
                return
            et = lhs.type
            if is_c_int(et):
                val = self.convert_int(val, et, node)
            elif is_c_float(et) and isinstance(val, (int, SInt, bool, SBool)):
                val = core.as_sfloat(val) if isinstance(val, SVal) else float(val)
            b[tuple(idx)] = val
            return
        if k in ('IndexNode',):
            base = self.ev(lhs.base, env)
            base[self.ev(lhs.index, env)] = val
            return
        if k == 'TupleNode':
            vals = list(val)
            for l, v in zip(lhs.args, vals):
                self.assign(l, v, env, node)
            return
        raise Unsupported('cy2smt: assignment target %s' % k)

    def bind_buffer(self, name, val, t, node):
        """`cdef np.ndarray[T, ndim=k] X = <python object>`: Cython acquires the buffer and checks dtype/ndim"""
        want = np_dtype_of(t.dtype)
        if isinstance(val, AbstractBuf):
            # Cython's generated buffer acquisition validates rank and element type
            if val.ndim != t.ndim:
                raise ValueError('Buffer has wrong number of dimensions (expected %d, got %d)' % (t.ndim, val.ndim))
            if val.dtype != want:
                raise ValueError("Buffer dtype mismatch, expected '%s' but got '%s'" % (want, val.dtype))
            return val
        if isinstance(val, (SArr, _np.ndarray)):
            if val.ndim != t.ndim:
                raise ValueError('Buffer has wrong number of dimensions (expected %d, got %d)' % (t.ndim, val.ndim))
            if _np.dtype(val.dtype) != want:
                raise ValueError("Buffer dtype mismatch, expected '%s' but got '%s'" % (want, val.dtype))
            return val
        raise TypeError('Cannot convert %s to numpy.ndarray' % type(val).__name__)

    def ex_SingleAssignmentNode(self, node, env):
        self.assign(node.lhs, self.ev(node.rhs, env), env, node)

    def ex_CascadedAssignmentNode(self, node, env):
        v = self.ev(node.rhs, env)
        for l in node.lhs_list:
            self.assign(l, v, env, node)

    def ex_InPlaceAssignmentNode(self, node, env):
        lhs = node.lhs
        cur = self.ev(lhs, env)
        rhs = self.ev(node.rhs, env)
        op = node.operator
        t = lhs.type
        if is_c_float(t):
            a = core.as_sfloat(cur) if isinstance(cur, (SInt, SBool)) else (float(cur) if isinstance(cur, (int, bool)) else cur)
            b = core.as_sfloat(rhs) if isinstance(rhs, (SInt, SBool)) else (float(rhs) if isinstance(rhs, (int, bool)) else rhs)
            if op == '+':
                r = a + b
            elif op == '-':
                r = a - b
            elif op == '*':
                r = a * b
            elif op == '/':
                r = core.fl_arith('/', core.as_sfloat(a), core.as_sfloat(b)) if (isinstance(a, SVal) or isinstance(b, SVal)) \
                    else (a / b if b != 0 else (math.nan if a == 0 else math.copysign(math.inf, a)))
            else:
                raise Unsupported('in-place %s on C float' % op)
        elif is_c_int(t):
            r = {'+': operator.add, '-': operator.sub, '*': operator.mul}[op](cur, rhs)
            r = self.fit_int(r, t, node, 'in-place %s' % op)
        else:
            r = {'+': operator.iadd, '-': operator.isub, '*': operator.imul, '/': operator.itruediv}[op](cur, rhs)
        # write back (second access of the same location)
        save = self.accesses
        self.assign(lhs, r, env, node)

    def ex_AssertStatNode(self, node, env):
        c = self.ev(node.condition, env)
        if isinstance(c, tuple) and c and c[0] == 'absmax':
            # `assert a.max() < n` on an abstract buffer: every element read later is below n (or: above, for min)
            _, op, a, b = c
            if isinstance(a, AbstractMax) and op == '<' and a.kind == 'max':
                self.buf_bounds.setdefault(a.buf.name, []).append(('max<', b))
                return
            if isinstance(a, AbstractMax) and op == '>=' and a.kind == 'min':
                self.buf_bounds.setdefault(a.buf.name, []).append(('min>=', b))
                return
            raise Unsupported('assertion on a.max()/a.min() of an unexpected form')
        if isinstance(c, (SArr, _np.ndarray)):
            c = funcs.np_all(c)
        if not bool(c):
            raise KernelAssertion('assert at %s' % self.pos(node))

    def ex_IfStatNode(self, node, env):
        for cl in node.if_clauses:
            c = self.ev(cl.condition, env)
            if bool(c):
                self.ex(cl.body, env)
                return
        if node.else_clause is not None:
            self.ex(node.else_clause, env)

    def ex_ReturnStatNode(self, node, env):
        raise ReturnSignal(self.ev(node.value, env) if node.value is not None else None)

    def ex_RaiseStatNode(self, node, env):
        exc = self.ev(node.exc_type, env) if node.exc_type is not None else RuntimeError
        val = self.ev(node.exc_value, env) if getattr(node, 'exc_value', None) is not None else None
        if isinstance(exc, type):
            raise exc(val) if val is not None else exc()
        raise exc

    def ex_TryExceptStatNode(self, node, env):
        """try / except / else of Python-level code in a .pyx: exceptions of the interpreted code are Python exceptions; control
        signals of the interpreter and its own Unsupported / path-steering exceptions pass through"""
        try:
            self.ex(node.body, env)
        except (ReturnSignal, BreakSignal, ContinueSignal, Unsupported, core.Inconclusive, core.Vacuous, core.PathLimit):
            raise
        except Exception as e:
            for clause in node.except_clauses:
                pats = clause.pattern
                match = pats is None
                if not match:
                    for pn in (pats if isinstance(pats, (list, tuple)) else [pats]):
                        cls = self.ev(pn, env)
                        if isinstance(cls, (type, tuple)) and isinstance(e, cls):
                            match = True
                            break
                if match:
                    if getattr(clause, 'target', None) is not None:
                        self.assign(clause.target, e, env, clause)
                    self.ex(clause.body, env)
                    return
            raise
        else:
            if getattr(node, 'else_clause', None) is not None:
                self.ex(node.else_clause, env)

    def ex_LetNode(self, node, env):
        v = self.ev(node.temp_expression, env)
        env.setdefault('$let', {})[id(node.lazy_temp)] = v
        self.ex(node.body, env)

    def ex_ForFromStatNode(self, node, env):
        lo = self.ev(node.bound1, env)
        hi = self.ev(node.bound2, env)
        step = self.ev(node.step, env) if node.step is not None else 1
        if node.relation1 not in ('<=',) or node.relation2 not in ('<',) or step != 1:
            raise Unsupported('for-from loop shape %s %s step %s' % (node.relation1, node.relation2, step))
        self.loop(node.target, lo, hi, node.body, env, node, parallel=False)

    def ex_ParallelRangeNode(self, node, env):
        start = self.ev(node.start, env) if getattr(node, 'start', None) is not None else 0
        stop = self.ev(node.stop, env)
        step = self.ev(node.step, env) if getattr(node, 'step', None) is not None else 1
        if step != 1:
            raise Unsupported('prange with step')
        self.stats['prange'] += 1
        self.loop(node.target, start, stop, node.body, env, node, parallel=True)

    def loop(self, target, lo, hi, body, env, node, parallel):
        concrete = not isinstance(lo, SVal) and not isinstance(hi, SVal)
        if concrete and not self.abstract:
            self.stats['loops_unrolled'] += 1
            if parallel:
                # sequential semantics; independence is established in abstract mode
                pass
            for i in range(int(lo), int(hi)):
                self.assign(target, i, env, node)
                try:
                    self.ex(body, env)
                except ContinueSignal:
                    continue
                except BreakSignal:
                    break
            return
        # abstract iteration ------------------------------------------------------------------
        self.stats['loops_abstracted'] += 1
        ctx = core.cur()
        outer_acc, outer_loc = self.accesses, self.locals_created
        if parallel:
            self.accesses, self.locals_created = [], []
        i = self.fresh_int('it_' + str(getattr(target, 'name', 'i')))
        # the body only runs if the range is non-empty
        ctx.add(core.to_z3_bool((i >= lo) & (i < hi)))
        entry = dict((k, v) for k, v in env.items() if isinstance(v, (int, SInt)))
        self.havoc_assigned(body, env, i, lo, hi, entry)
        self.assign(target, i, env, node)
        self.ex(body, env)
        self.havoc_assigned(body, env, i, lo, hi, entry, post=True)
        if parallel:
            acc, loc = self.accesses, self.locals_created
            self.accesses, self.locals_created = outer_acc, outer_loc
            if outer_acc is not None:
                outer_acc.extend(acc)
            self.independence(acc, loc, i, lo, hi, node)

    def havoc_assigned(self, body, env, i=None, lo=None, hi=None, entry=None, post=False):
        """scalars assigned inside an abstracted loop have an arbitrary value before / after an iteration.
        Monotone counters (every assignment in the body is `v = v + c` / `v += c` with a constant c >= 0) get the
        loop invariant  v_entry <= v <= v_entry + c * (iterations so far)  instead of a full havoc."""
        from Cython.Compiler import Visitor
        names = {}
        assigns = {}

        def const_step(n, name):
            """c if node n is `name + c` with an integer constant c >= 0"""
            k = type(n).__name__
            if k in ('CoerceToTempNode', 'TypecastNode', 'CoerceFromPyTypeNode', 'CoerceToPyTypeNode'):
                return const_step(getattr(n, 'arg', None) or getattr(n, 'operand', None), name)
            if k in ('AddNode', 'NumBinopNode', 'IntBinopNode') and getattr(n, 'operator', '') == '+':
                a, b = n.operand1, n.operand2
                for x, y in ((a, b), (b, a)):
                    if type(x).__name__ == 'NameNode' and str(x.name) == name and type(y).__name__ == 'IntNode':
                        c = int(str(y.value).rstrip('LlUu'), 0)
                        return c if c >= 0 else None
            return None

        class A(Visitor.TreeVisitor):
            def visit_Node(s, n):
                s.visitchildren(n)

            def visit_SingleAssignmentNode(s, n):
                if type(n.lhs).__name__ == 'NameNode':
                    nm = str(n.lhs.name)
                    names[nm] = n.lhs.type
                    assigns.setdefault(nm, []).append(const_step(n.rhs, nm))
                s.visitchildren(n)

            def visit_InPlaceAssignmentNode(s, n):
                if type(n.lhs).__name__ == 'NameNode':
                    nm = str(n.lhs.name)
                    names[nm] = n.lhs.type
                    c = None
                    if n.operator == '+' and type(n.rhs).__name__ == 'IntNode':
                        c = int(str(n.rhs.value).rstrip('LlUu'), 0)
                        c = c if c >= 0 else None
                    assigns.setdefault(nm, []).append(c)
                s.visitchildren(n)

            def visit_ForFromStatNode(s, n):
                if type(n.target).__name__ == 'NameNode':
                    names[str(n.target.name)] = n.target.type
                    assigns.setdefault(str(n.target.name), []).append(None)
                s.visitchildren(n)
        A().visit(body)
        for n, t in names.items():
            if is_c_int(t):
                tlo, thi = int_range(t)
                steps = assigns.get(n, [None])
                v0 = (entry or {}).get(n, env.get(n))
                if all(c is not None for c in steps) and i is not None and isinstance(v0, (int, SInt)) and is_c_int(t):
                    cmax = max(steps) if steps else 0
                    v = self.fresh_int('cnt_' + n)
                    upto = (hi - lo) if post else (i - lo)
                    core.cur().add(core.to_z3_bool((v >= v0) & (v <= v0 + cmax * upto)))
                    env[n] = v
                    self.notes.append('counter invariant for %s' % n)
                else:
                    env[n] = self.fresh_int('hv_' + n, tlo, thi)
            elif is_c_float(t):
                env[n] = self.fresh_real('hv_' + n)

    def independence(self, acc, loc, i, lo, hi, node):
        """no location written by one prange iteration is read or written by another"""
        if not acc:
            return
        i2 = core.fresh_int('it2')
        subst = [(i.t, i2.t)] + [(c, z3.FreshConst(c.sort(), 'l2')) for c in loc if not c.eq(i.t)]

        def sub(t):
            if isinstance(t, SInt):
                return SInt(z3.substitute(t.t, *subst))
            return t
        pre = (i2 >= lo) & (i2 < hi) & (i2 != i)
        # range constraints of substituted loop-local symbols: re-assert the path constraints that mention them
        ctx = core.cur()
        extra = []
        for c in ctx.pc:
            s2 = z3.substitute(c, *subst)
            if not s2.eq(c):
                extra.append(s2)
        for kind, name, idx in acc:
            if kind != 'write':
                continue
            for kind2, name2, idx2 in acc:
                if name2 != name:
                    continue
                idx2s = tuple(sub(x) for x in idx2)
                same = True
                for a, b in zip(idx, idx2s):
                    e = (a == b)
                    same = e if same is True else (same & e)
                cond = core.sor(core.snot(pre), core.snot(core.sand(*[core.SBool.mk(x) for x in extra])) if extra else False,
                                core.snot(same))
                self.oblige('independence', 'iteration writing %s does not alias a %s of %s by another iteration'
                            % (name, kind2, name), cond, node)

    # ---- functions ---------------------------------------------------------------------------------
    def call(self, defnode, args, opts=None):
        """run a DefNode with positional python/C argument values"""
        env = {'$opts': dict(opts or self.directives(defnode))}
        decl = [a for a in defnode.args]
        if len(decl) != len(args):
            raise TypeError('%s() takes %d arguments' % (defnode.name, len(decl)))
        for a, v in zip(decl, args):
            t = a.type
            name = str(a.declarator.name) if hasattr(a, 'declarator') and hasattr(a.declarator, 'name') else str(a.name)
            if getattr(t, 'is_buffer', False):
                v = self.bind_buffer(name, v, t, defnode)
            elif not is_pyobj(t):
                v = self.to_ctype(v, t, defnode)
            env[name] = v
        try:
            self.ex(defnode.body, env)
        except ReturnSignal as r:
            return r.value
        return None

    def directives(self, defnode):
        d = getattr(defnode, 'directive_locals', None)
        out = {'boundscheck': True, 'wraparound': True}
        # decorators were folded into the local scope's directives by InterpretCompilerDirectives
        ld = getattr(getattr(defnode, 'local_scope', None), 'directives', None) or {}
        for k in out:
            if k in ld:
                out[k] = bool(ld[k])
        return out
