"""C05 / C06  RaggedArray against the list-of-rows model.

Element values are solver variables (opaque tokens for reads, arbitrary integers for masks / operators /
assignments); scalar indices are symbolic integers (the real index-conversion code forks on signs and
bounds, so all integer indices are covered at once); slice expressions are enumerated on a grid.  A deviation
from the model is classified into a REGION of the index grammar; regions recorded in known_findings.jsonl
are reported as known, anything else is a violation (after replay on the real class with real NumPy)."""
import itertools
import os

import numpy as np
import z3

from symnp import core, loader, funcs
from symnp.core import SVal, SInt, SBool, ite, sand, sor, snot
from symnp.arr import SArr, _raw, _unlazy
from harness.common import PathOut, ev
from harness.cluster import conj, cells, run_oracle, sel

FILES = ['enspara/ra/ra.py']


def preload():
    loader.load('enspara.ra.ra')


def RA():
    return loader.load('enspara.ra.ra')


# ---------------------------------------------------------------------------------------------
# model and structure helpers
# ---------------------------------------------------------------------------------------------

def struct(x):
    """nested-list structure of a result: ('ra', rows) / ('arr', list) / ('scalar', v)"""
    x = _unlazy(x)
    if hasattr(x, '_array') and hasattr(x, 'lengths'):
        return ('ra', [list(cells(r)) if isinstance(r, np.ndarray) else list(r) for r in x._array])
    if isinstance(x, np.ndarray):
        if x.ndim == 0:
            return ('scalar', _raw(x)[()] if isinstance(x, SArr) else x.item())
        if x.ndim == 1:
            return ('arr', list(cells(x)) if isinstance(x, SArr) else x.tolist())
        return ('arr2', [list(cells(r)) if isinstance(r, SArr) else list(r) for r in x])
    if isinstance(x, (list, tuple)):
        return ('list', list(x))
    return ('scalar', x)


def norm_struct(s):
    """plain python structure for comparison / json"""
    k, v = s
    if k in ('ra', 'arr2'):
        return [k, [[c for c in r] for r in v]]
    if k in ('arr', 'list'):
        return [k, list(v)]
    return [k, v]


def model_getitem(rows, idx):
    """the same index expression on the list of per-row arrays (numpy semantics per row)"""
    if not isinstance(idx, tuple):
        if isinstance(idx, int):
            return ('arr', list(rows[idx]))
        if isinstance(idx, slice):
            return ('ra', [list(r) for r in rows[idx]])
        if isinstance(idx, list):
            return ('ra', [list(rows[i]) for i in idx])
        raise TypeError(idx)
    r, c = idx
    if isinstance(r, int) and isinstance(c, int):
        return ('scalar', rows[r][c])
    if isinstance(r, int) and isinstance(c, slice):
        return ('arr', list(rows[r][c]))
    if isinstance(r, slice) and isinstance(c, slice):
        return ('ra', [list(x[c]) for x in rows[r]])
    if isinstance(r, slice) and isinstance(c, int):
        return ('ra', [[x[c]] for x in rows[r]])
    if isinstance(r, list) and isinstance(c, list):
        if len(r) != len(c):
            raise IndexError('shape mismatch')
        return ('arr', [rows[a][b] for a, b in zip(r, c)])
    if isinstance(r, slice) and isinstance(c, list):
        return ('ra', [[x[b] for b in c] for x in rows[r]])
    raise TypeError(idx)


def region_of(idx, lengths, expected):
    """region of the index grammar (for known findings).  expected = model result or an exception instance"""
    n = len(lengths)
    if isinstance(idx, tuple):
        r, c = idx
        if isinstance(r, int) and isinstance(c, int):
            if r < 0 or c < 0:
                return 'ra[i,j]:negative-index'
            return 'regular'
        if not isinstance(r, int) and not isinstance(expected, Exception):
            res_rows = expected[1]
            if len(res_rows) == 0 or (expected[0] == 'ra' and any(len(x) == 0 for x in res_rows)):
                return 'ra[rows,cols]:result-has-an-empty-row-or-no-row'
        if isinstance(r, slice) and isinstance(c, (int, list)) and isinstance(expected, Exception):
            return 'ra[rows,col]:column-out-of-range-for-some-row'
        return 'regular'
    if isinstance(idx, slice) and not isinstance(expected, Exception) and len(expected[1]) == 0:
        return 'ra[rows]:empty-selection'
    return 'regular'


def same(a, b):
    """structural equality of two result structures; cells compared with == (symbolic or not)"""
    if isinstance(a, Exception) or isinstance(b, Exception):
        return isinstance(a, Exception) and isinstance(b, Exception)
    ka, va = a
    kb, vb = b
    if ka != kb:
        return False
    if ka in ('ra', 'arr2'):
        if [len(r) for r in va] != [len(r) for r in vb]:
            return False
        cs = [x == y for ra_, rb in zip(va, vb) for x, y in zip(ra_, rb)]
    elif ka in ('arr', 'list'):
        if len(va) != len(vb):
            return False
        cs = [x == y for x, y in zip(va, vb)]
    else:
        cs = [va == vb]
    return conj(cs) if cs else True


def slice_grid(vals, steps):
    out = []
    for a in vals:
        for b in vals:
            for s in steps:
                out.append(slice(a, b, s))
    return out


def show(idx):
    def one(x):
        if isinstance(x, slice):
            return '%s:%s:%s' % tuple('' if v is None else v for v in (x.start, x.stop, x.step))
        return repr(x)
    if isinstance(idx, tuple):
        return '[' + ', '.join(one(x) for x in idx) + ']'
    return '[' + one(idx) + ']'


def index_exprs(lengths, tier):
    n = len(lengths)
    L = max(lengths)
    q = tier == 'quick'
    ex = []
    ints_r = list(range(-n - 1, n + 1))
    ints_c = list(range(-L - 1, L + 1))
    for i in ints_r:
        ex.append(i)
    rv = [None, -n - 1, -n, -1, 0, 1, n, n + 1] if q else [None] + list(range(-n - 1, n + 2))
    cv = [None, -L - 1, -2, -1, 0, 1, 2, L + 1] if q else [None] + list(range(-L - 1, L + 2))
    steps = [None, 1, 2, -1, -2] if q else [None, 1, 2, 3, -1, -2, -3]
    rs = slice_grid(sorted(set(rv), key=lambda v: (v is not None, v)), steps)
    cs = slice_grid(sorted(set(cv), key=lambda v: (v is not None, v)), steps)
    ex += rs
    for lst in ([0], [n - 1, 0], [-1], list(range(n)), [0, 0]):
        ex.append(lst)
    for i in ints_r:
        for c in cs:
            ex.append((i, c))
    # 2-D slices: every row slice with a rotating subset of column slices and vice versa (quick);
    # the full product in the thorough tier
    if q:
        k = 0
        for a, r in enumerate(rs):
            for b in range(6):
                ex.append((r, cs[(a * 7 + b * 11) % len(cs)]))
        for b, c in enumerate(cs):
            for a in range(3):
                ex.append((rs[(b * 5 + a * 13) % len(rs)], c))
    else:
        for r in rs:
            for c in cs:
                ex.append((r, c))
    for r in rs[:: (4 if q else 1)]:
        for j in ints_c:
            ex.append((r, j))
    for pair in ([0], [0]), ([n - 1, 0], [0, lengths[0] - 1]), ([-1], [-1]), ([0, 0], [0, 0]), ([n - 1], [lengths[-1]]):
        ex.append(pair)
    ex.append((slice(None), [0]))
    ex.append((slice(None), [0, 0]))
    return ex


def build(lengths, cellsrc, form, dtype=int):
    """RaggedArray from nested lists or flat+lengths; cellsrc(k) gives the k-th cell"""
    ra = RA()
    rows = []
    k = 0
    for n in lengths:
        rows.append([cellsrc(k + j) for j in range(n)])
        k += n
    symbolic = any(isinstance(c, SVal) for r in rows for c in r)
    mk = (lambda r: funcs.np_array(list(r), dtype=dtype)) if symbolic else (lambda r: np.array(list(r), dtype=dtype))
    if form == 'nested':
        return ra.RaggedArray([mk(r) for r in rows]), rows
    flat = [c for r in rows for c in r]
    return ra.RaggedArray(mk(flat), lengths=list(lengths)), rows


def narrow_lengths_job(lengths, dtype):
    """the row lengths are handed over as a NumPy array of a narrow integer type whose range the total number of elements
    exceeds (int8 lengths, 150 elements): rows, element reads, starts and flat data still follow the list-of-rows model.
    Three cells per row are symbolic, the others are their flat position."""
    lengths = list(lengths)
    N = sum(lengths)
    n = len(lengths)

    def path(ctx):
        ra = RA()
        starts = [sum(lengths[:t]) for t in range(n)]
        symk = set()
        for t in range(n):
            symk.update({starts[t], starts[t] + lengths[t] // 2, starts[t] + lengths[t] - 1})
        cellsrc = [core.fresh_int('e') if k in symk else k for k in range(N)]
        exc = None
        try:
            a = ra.RaggedArray(funcs.np_array(cellsrc, dtype=int), lengths=np.array(lengths, dtype=dtype))
            got_rows = [list(cells(_unlazy(r))) for r in a]
            st = [x for x in cells(_unlazy(a.starts))]
            picks = [(t, c) for t in range(n) for c in (0, lengths[t] - 1)]
            got_el = []
            for t, c in picks:
                v = _unlazy(a[t, c])
                got_el.append(list(cells(v))[0] if isinstance(v, np.ndarray) else v)
            last = list(cells(_unlazy(a[n - 1])))
        except Exception as e:
            if os.environ.get('VERIF_DEBUG'):
                import traceback
                traceback.print_exc()
            exc = e

        def oracle(rows_, starts_, els_, last_, src):
            exp = [[src[starts[t] + c] for c in range(lengths[t])] for t in range(n)]
            obs = [('rows-follow-the-lengths', [len(r) for r in rows_] == lengths and conj([x == y for r, e in zip(rows_, exp) for x, y in zip(r, e)])),
                   ('starts-are-the-running-sums', len(starts_) == n and conj([x == y for x, y in zip(starts_, starts)])),
                   ('element-reads', conj([g == exp[t][c] for g, (t, c) in zip(els_, [(t, c) for t in range(n) for c in (0, lengths[t] - 1)])])),
                   ('last-row-read', len(last_) == lengths[-1] and conj([x == y for x, y in zip(last_, exp[-1])]))]
            return obs

        def witness(model):
            src = [int(ev(model, c)) if isinstance(c, SVal) else int(c) for c in cellsrc]
            out = {'inputs': {'lengths': lengths, 'lengths_dtype': str(np.dtype(dtype)), 'symbolic cells': sorted(symk)}, 'skip_compare': True}
            with core.concrete_mode():
                try:
                    a2 = ra.RaggedArray(np.array(src, dtype=int), lengths=np.array(lengths, dtype=dtype))
                    rows2 = [np.asarray(r).tolist() for r in a2]
                    st2 = [int(x) for x in np.asarray(a2.starts).tolist()]
                    el2 = [np.asarray(a2[t, c]).reshape(-1).tolist()[0] for t in range(n) for c in (0, lengths[t] - 1)]
                    last2 = np.asarray(a2[n - 1]).tolist()
                except Exception as e:
                    out.update(out=None, exception=repr(e), violated=['raises ' + type(e).__name__],
                               signature='narrow-lengths:%s:raises-%s' % (np.dtype(dtype).name, type(e).__name__))
                    return out
            out['out'] = {'row lengths': [len(r) for r in rows2], 'starts': st2}
            out['violated'] = run_oracle(oracle(rows2, st2, el2, last2, src))
            out['signature'] = 'narrow-lengths:%s:%s' % (np.dtype(dtype).name, '+'.join(out['violated'])[:80])
            return out
        if exc is not None:
            return PathOut([('no-exception', False)], {}, witness, exc=type(exc).__name__, desc='raises %s: %s' % (type(exc).__name__, str(exc)[:80]))
        return PathOut(oracle(got_rows, st, got_el, last, cellsrc), {}, witness, desc='narrow lengths %s %s' % (lengths, dtype))
    return path


def getitem_job(lengths, form='nested', tier='quick'):
    lengths = list(lengths)
    exprs = index_exprs(lengths, tier)
    N = sum(lengths)

    def evaluate(a, rows):
        """-> list of (expr, got, expected) with got/expected structures or exception instances"""
        res = []
        for idx in exprs:
            try:
                exp = model_getitem([np.array(r, dtype=object) for r in rows], idx)
                exp = (exp[0], [list(r) for r in exp[1]] if exp[0] == 'ra' else exp[1])
            except Exception as e:
                exp = e
            try:
                got = struct(a[idx])
            except (core.Unsupported, core.Inconclusive):
                raise
            except Exception as e:
                got = e
            res.append((idx, got, exp))
        return res

    def path(ctx):
        toks = [core.fresh_int('e') for _ in range(N)]
        a, rows = build(lengths, lambda k: toks[k], form)
        res = evaluate(a, rows)
        by_region = {}
        for idx, got, exp in res:
            reg = region_of(idx, lengths, exp)
            by_region.setdefault(reg, []).append((idx, same(got, exp)))
        obs = []
        for reg, items in sorted(by_region.items()):
            obs.append(('read equals list-of-rows model [region %s; %d index expressions]' % (reg, len(items)),
                        conj([c for _, c in items])))
        # attributes and whole-array observers
        flat = [c for r in rows for c in r]
        attr = [list(cells(a.lengths)) == lengths, list(cells(a.starts)) == [sum(lengths[:i]) for i in range(len(lengths))],
                a.size == N, len(a) == len(lengths), str(a.dtype) == 'int64',
                a.shape == (len(lengths), lengths[0] if len(set(lengths)) == 1 else None)]
        obs.append(('lengths/starts/size/len/dtype/shape', all(bool(x) for x in attr)))
        obs.append(('flatten-is-the-concatenation-of-rows', conj([x == y for x, y in zip(cells(a.flatten()), flat)])
                    if len(cells(a.flatten())) == N else False))
        it_rows = [list(cells(r)) for r in a]
        obs.append(('iteration-yields-the-rows', same(('ra', it_rows), ('ra', [list(r) for r in rows]))))

        def witness(model, label=None):
            vals = list(range(100, 100 + N))
            with core.concrete_mode():
                a2, rows2 = build(lengths, lambda k: vals[k], form)
                res2 = evaluate(a2, rows2)
            bad = {}
            for idx, got, exp in res2:
                ok = same(got, exp)
                if not ok:
                    reg = region_of(idx, lengths, exp)
                    bad.setdefault(reg, []).append(show(idx))
            out = {'inputs': {'lengths': lengths, 'form': form, 'values': vals},
                   'out': {r: v[:6] for r, v in bad.items()}, 'skip_compare': True}
            # one region at a time so that each gets its own signature
            order = sorted(bad)
            if label is not None:
                order = [r for r in order if ('[region %s;' % r) in label] or []
                if not order and 'region' not in label:
                    order = sorted(bad)
            for reg in order:
                out['violated'] = ['read differs from list-of-rows model: ' + ', '.join(bad[reg][:4])]
                out['signature'] = 'getitem:' + reg
                out['all_regions'] = sorted(bad)
                return out
            out['violated'] = []
            return out
        return PathOut(obs, {}, witness, desc='getitem lengths=%s %s: %d expressions' % (lengths, form, len(exprs)))
    return path


def flat_cells(x):
    """all cells of a result in C order, whatever its nesting (RaggedArray, ndarray, list, scalar)"""
    x = _unlazy(x)
    if hasattr(x, '_array') and hasattr(x, 'lengths'):
        out = []
        for r in x._array:
            out += flat_cells(r)
        return out
    if isinstance(x, np.ndarray):
        return list(cells(x)) if isinstance(x, SArr) else [c for c in np.asarray(x, dtype=object).reshape(-1)]
    if isinstance(x, (list, tuple)):
        out = []
        for r in x:
            out += flat_cells(r)
        return out
    return [x]


def row_lengths(x):
    x = _unlazy(x)
    if hasattr(x, '_array'):
        return [len(r) for r in x._array]
    return None


def elements2d_job(lengths, form='nested', width=2):
    """ragged arrays whose elements are vectors (frames x width): reads against the list of per-row 2-D arrays"""
    lengths = list(lengths)
    N = sum(lengths)
    n = len(lengths)
    L = max(lengths)
    exprs = list(range(-n, n)) + [slice(None), slice(1, None), slice(None, -1), slice(None, None, 2), [n - 1, 0]]
    for i in range(-n, n):
        for j in range(-L, L):
            exprs.append((i, j))
        for c in (slice(None), slice(0, 1), slice(1, None), slice(None, None, 2), slice(None, -1)):
            exprs.append((i, c))
    for r in (slice(None), slice(0, 1), slice(1, None)):
        for c in (slice(None), slice(0, 1), slice(0, 2), slice(None, None, 2)):
            exprs.append((r, c))

    def mk(sym, k0):
        ra = RA()
        rows = []
        k = 0
        for ln in lengths:
            rows.append([[k0(k + j, w) for w in range(width)] for j in range(ln)])
            k += ln
        conv = (lambda r: funcs.np_array(r, dtype=int)) if sym else (lambda r: np.array(r, dtype=int))
        if form == 'nested':
            a = ra.RaggedArray([conv(r) for r in rows])
        else:
            a = ra.RaggedArray(conv([f for r in rows for f in r]), lengths=list(lengths))
        return a, rows

    def evaluate(a, rows):
        res = []
        mrows = [np.array(r, dtype=object).reshape(len(r), width) for r in rows]
        for idx in exprs:
            try:
                if isinstance(idx, tuple):
                    r_, c_ = idx
                    if isinstance(r_, int):
                        exp = mrows[r_][c_]
                        exp_l = None
                    else:
                        sel_ = mrows[r_]
                        exp = [x[c_] for x in sel_]
                        exp_l = [len(x[c_]) for x in sel_]
                elif isinstance(idx, int):
                    exp, exp_l = mrows[idx], None
                elif isinstance(idx, slice):
                    exp, exp_l = mrows[idx], [len(x) for x in mrows[idx]]
                else:
                    exp, exp_l = [mrows[i] for i in idx], [len(mrows[i]) for i in idx]
                expc = flat_cells(exp)
            except Exception as e:
                expc, exp_l = e, None
            try:
                g = a[idx]
                got, got_l = flat_cells(g), row_lengths(g)
            except (core.Unsupported, core.Inconclusive):
                raise
            except Exception as e:
                got, got_l = e, None
            res.append((idx, got, got_l, expc, exp_l))
        return res

    def agree(got, got_l, exp, exp_l):
        if isinstance(got, Exception) or isinstance(exp, Exception):
            return isinstance(got, Exception) and isinstance(exp, Exception)
        if len(got) != len(exp):
            return False
        if exp_l is not None and got_l is not None and list(got_l) != list(exp_l):
            return False
        return conj([x == y for x, y in zip(got, exp)]) if got else True

    def region2(idx, exp, exp_l):
        if isinstance(idx, tuple):
            r_, c_ = idx
            fake_expected = exp if isinstance(exp, Exception) else ('ra', [[0] * l for l in exp_l]) if exp_l is not None else ('arr', [])
            return region_of((r_, c_), lengths, fake_expected)
        if isinstance(idx, slice) and exp_l is not None and len(exp_l) == 0:
            return 'ra[rows]:empty-selection'
        return 'regular'

    def path(ctx):
        toks = {}

        def tok(k, w):
            if (k, w) not in toks:
                toks[(k, w)] = core.fresh_int('e')
            return toks[(k, w)]
        a, rows = mk(True, tok)
        res = evaluate(a, rows)
        by = {}
        for idx, got, got_l, exp, exp_l in res:
            by.setdefault(region2(idx, exp, exp_l), []).append(agree(got, got_l, exp, exp_l))
        obs = [('vector-element reads equal the list-of-rows model [region %s; %d index expressions]' % (reg, len(v)), conj(v))
               for reg, v in sorted(by.items())]
        obs.append(('shape-reports-the-element-width', tuple(a.shape) == (n, lengths[0] if len(set(lengths)) == 1 else None, width)))
        allc = [c for r in rows for f in r for c in f]
        it = [flat_cells(r) for r in a]
        obs.append(('iteration-yields-the-rows', len(it) == n and conj([x == y for i in range(n) for x, y in
                                                                         zip(it[i], [c for f in rows[i] for c in f])])))
        fl = flat_cells(a.flatten())
        obs.append(('flatten-yields-every-cell-in-order', len(fl) == len(allc) and conj([x == y for x, y in zip(fl, allc)])))
        pairs = [(i, j) for i in range(n) for j in range(lengths[i])]
        pr = pairs[::-1]
        got = a[[p[0] for p in pr], [p[1] for p in pr]]
        exp = [c for (i, j) in pr for c in rows[i][j]]
        gl = flat_cells(got)
        obs.append(('paired fancy indices select the addressed frames', len(gl) == len(exp) and conj([x == y for x, y in zip(gl, exp)])))

        def witness(model, label=None):
            with core.concrete_mode():
                a2, rows2 = mk(False, lambda k, w: 100 + 10 * k + w)
                res2 = evaluate(a2, rows2)
            bad = {}
            for idx, got, got_l, exp, exp_l in res2:
                if not agree(got, got_l, exp, exp_l):
                    bad.setdefault(region2(idx, exp, exp_l), []).append(show(idx))
            out = {'inputs': {'lengths': lengths, 'form': form, 'element_width': width}, 'out': {r: v[:6] for r, v in bad.items()},
                   'skip_compare': True, 'violated': []}
            order = sorted(bad)
            if label is not None:
                order = [r for r in order if ('[region %s;' % r) in label]
            for reg in order:
                out['violated'] = ['read differs from list-of-rows model: ' + ', '.join(bad[reg][:4])]
                out['signature'] = 'getitem:' + reg
                return out
            return out
        return PathOut(obs, {}, witness, desc='vector elements lengths=%s %s: %d expressions' % (lengths, form, len(exprs)))
    return path


def multi_confirm(spec, po, label, model):
    pass


def element_job(lengths, form='nested'):
    """ra[i, j] for SYMBOLIC integers i, j (all integers at once): in range -> that element; otherwise an error,
    never a neighbour's element"""
    lengths = list(lengths)
    N = sum(lengths)
    n = len(lengths)

    def path(ctx):
        toks = [core.fresh_int('e') for _ in range(N)]
        a, rows = build(lengths, lambda k: toks[k], form)
        i, j = core.fresh_int('i'), core.fresh_int('j')
        exc = None
        try:
            r = a[i, j]
        except Exception as e:
            exc = e
        valid = False
        exp = None
        for rr in range(n - 1, -1, -1):
            for cc in range(lengths[rr] - 1, -1, -1):
                hit = sand(sor(i == rr, i == rr - n), sor(j == cc, j == cc - lengths[rr]))
                valid = sor(valid, hit)
                exp = rows[rr][cc] if exp is None else ite(hit, rows[rr][cc], exp)

        def witness(model):
            iv, jv = int(ev(model, i)), int(ev(model, j))
            vals = list(range(100, 100 + N))
            out = {'inputs': {'lengths': lengths, 'form': form, 'i': iv, 'j': jv}, 'skip_compare': True}
            with core.concrete_mode():
                a2, rows2 = build(lengths, lambda k: vals[k], form)
                try:
                    got = a2[iv, jv]
                    got_s = struct(got)
                except Exception as e:
                    got_s = e
                    out['exception'] = repr(e)
            try:
                want = ('scalar', rows2[iv][jv])
            except IndexError as e:
                want = e
            out['out'] = repr(got_s)[:200]
            ok = same(got_s, want)
            bad = []
            if not ok:
                if isinstance(want, Exception):
                    bad.append('out-of-range element access returned data instead of raising')
                    out['signature'] = 'element:out-of-range-returns-data'
                elif isinstance(got_s, Exception):
                    bad.append('valid element access raised %s' % type(got_s).__name__)
                    out['signature'] = 'element:valid-index-raises'
                elif got_s[0] != 'scalar' and list(got_s[1]) == [want[1]]:
                    bad.append('element access returns a length-1 array instead of the element')
                    out['signature'] = 'element:negative-index-returns-length-1-array'
                else:
                    bad.append('element access returns the wrong element')
                    out['signature'] = 'element:wrong-element'
            out['violated'] = bad
            return out
        if exc is not None:
            ok = type(exc).__name__ in ('IndexError',)
            return PathOut([('error-only-for-an-index-outside-the-row', snot(valid) if ok else False)], {}, witness,
                           exc=type(exc).__name__, desc='raises %s' % type(exc).__name__)
        s = struct(r)
        obs = [('index-was-valid', valid)]
        if s[0] == 'scalar':
            obs.append(('returns-exactly-that-element', s[1] == exp))
        else:
            obs.append(('returns-a-scalar-like-the-list-of-rows-model', False))
        return PathOut(obs, {}, witness, desc='element access, result kind %s' % s[0])
    return path


def mask_job(lengths, form='nested'):
    """boolean ragged mask with SYMBOLIC truth values, and ra.where"""
    lengths = list(lengths)
    N = sum(lengths)
    n = len(lengths)

    def path(ctx):
        ra = RA()
        toks = [core.fresh_int('e') for _ in range(N)]
        bits = [core.fresh_bool('m') for _ in range(N)]
        a, rows = build(lengths, lambda k: toks[k], form)
        m = ra.RaggedArray(funcs.np_array(bits, dtype=bool), lengths=list(lengths))
        exc = None
        try:
            r = a[m]
            got = list(cells(_unlazy(r))) if isinstance(_unlazy(r), np.ndarray) else struct(r)
            wr, wc = ra.where(m)
            wr, wc = [int(x) for x in cells(_unlazy(wr))], [int(x) for x in cells(_unlazy(wc))]
        except Exception as e:
            exc = e
        starts = [sum(lengths[:t]) for t in range(n)]

        def expected(bv):
            return [k for k in range(N) if bv[k]]

        def witness(model):
            bv = [bool(ev(model, b)) for b in bits]
            vals = list(range(100, 100 + N))
            out = {'inputs': {'lengths': lengths, 'mask': bv}, 'skip_compare': True}
            with core.concrete_mode():
                a2, rows2 = build(lengths, lambda k: vals[k], form)
                m2 = ra.RaggedArray(np.array(bv), lengths=list(lengths))
                try:
                    g = list(np.asarray(a2[m2]).tolist())
                    w = ra.where(m2)
                    w = ([int(x) for x in w[0]], [int(x) for x in w[1]])
                except Exception as e:
                    out['out'] = repr(e)
                    out['exception'] = repr(e)
                    out['violated'] = ['mask read raises %s' % type(e).__name__]
                    out['signature'] = 'mask:%s:%s' % ('no-element-set' if not any(bv) else 'some-set', type(e).__name__)
                    return out
            ks = expected(bv)
            bad = []
            if g != [vals[k] for k in ks]:
                bad.append('mask read differs from the flat model')
            rc = [(max(t for t in range(n) if starts[t] <= k), k - starts[max(t for t in range(n) if starts[t] <= k)]) for k in ks]
            if list(zip(*w)) != rc and not (not rc and list(w[0]) == []):
                bad.append('where() coordinates wrong')
            out['out'] = g
            out['violated'] = bad
            out['signature'] = 'mask:wrong-result'
            return out
        if exc is not None:
            none_set = conj([snot(b) for b in bits])
            return PathOut([('no-exception', False)], {}, witness, exc=type(exc).__name__,
                           desc='raises %s' % type(exc).__name__)
        # on this path the mask is concretised (forks); read the decided truth values back from the result size
        bv = [bool(b) for b in bits]
        ks = expected(bv)
        obs = [('mask-read-returns-exactly-the-selected-elements-in-order',
                conj([x == toks[k] for x, k in zip(got, ks)]) if len(got) == len(ks) else False),
               ('where-returns-(row,col)-of-every-set-position',
                list(zip(wr, wc)) == [(max(t for t in range(n) if starts[t] <= k), k - starts[max(t for t in range(n) if starts[t] <= k)]) for k in ks])]
        return PathOut(obs, {}, witness, desc='mask %s' % bv)
    return path


# ---------------------------------------------------------------------------------------------
# C06: writes, append, operators
# ---------------------------------------------------------------------------------------------

def inv_obligations(a, model_rows):
    """representation invariant + every observer agrees with the model"""
    flat = [c for r in model_rows for c in r]
    lens = [len(r) for r in model_rows]
    obs = []
    dl = list(cells(a._data))
    obs.append(('_data-is-the-concatenation-of-model-rows', conj([x == y for x, y in zip(dl, flat)]) if len(dl) == len(flat) else False))
    obs.append(('lengths-and-starts', [int(x) for x in cells(a.lengths)] == lens and
                [int(x) for x in cells(a.starts)] == [sum(lens[:i]) for i in range(len(lens))]))
    arr_rows = [list(cells(r)) for r in a._array]
    obs.append(('_array-rows-equal-model-rows', same(('ra', arr_rows), ('ra', [list(r) for r in model_rows]))))
    it_rows = [list(cells(a[i])) for i in range(len(a))]
    obs.append(('row-reads-equal-model-rows', same(('ra', it_rows), ('ra', [list(r) for r in model_rows]))))
    # offset-based observers (tuple indices go through `starts`)
    el = []
    try:
        for r in range(len(model_rows)):
            for c in range(len(model_rows[r])):
                el.append(a[r, c] == model_rows[r][c])
        if model_rows and model_rows[-1]:
            v = a[-1, 0]
            v = (list(cells(v))[0] if isinstance(v, np.ndarray) else v)
            el.append(v == model_rows[-1][0])
        obs.append(('(row, column) reads equal the model (also for the last row via -1)', conj(el)))
        obs.append(('flatten-equals-model', conj([x == y for x, y in zip(cells(a.flatten()), flat)])
                    if len(cells(a.flatten())) == len(flat) else False))
    except IndexError:
        obs.append(('(row, column) reads equal the model (also for the last row via -1)', False))
    return obs


def observe(a):
    """an observing step of a history: every way of looking at the array that could populate derived state"""
    a.starts
    a.lengths
    a.shape
    a.size
    a[0, 0]
    a[:, 0:1]
    a.flatten()
    [r for r in a]
    try:
        a[a == a]
    except Exception:
        pass


def write_job(lengths, op, form='nested', touch=False, dtype=None):
    """one mutating operation with symbolic operands from an arbitrary constructor-built state (inductive step).
    dtype: element type of the array before the write (e.g. 'int16'); the written values are int64 and need not fit it - the
    list-of-rows model holds them exactly (the library re-concatenates, which promotes)"""
    adt = np.dtype(dtype) if dtype else np.dtype(int)
    lengths = list(lengths)
    N = sum(lengths)
    n = len(lengths)

    def apply(a, rows, P, concrete):
        """perform op on the RaggedArray `a` and on the model `rows`; P = operand source"""
        ra = RA()
        mk = (lambda r: np.array(list(r), dtype=int)) if concrete else (lambda r: funcs.np_array(list(r), dtype=int))
        kind = op[0]
        if kind == 'elem':
            _, i, j = op
            a[i, j] = P(0)
            rows[i][j] = P(0)
        elif kind == 'row':
            _, i = op
            new = [P(k) for k in range(len(rows[i]))]
            a[i] = mk(new)
            rows[i] = new
        elif kind == 'row-otherlen':
            _, i, ln = op
            new = [P(k) for k in range(ln)]
            a[i] = mk(new)
            rows[i] = new
        elif kind == 'slice2d':
            _, rs, cs = op
            sel_rows = list(range(n))[rs]
            k = 0
            newrows = []
            for t in sel_rows:
                cols = list(range(len(rows[t])))[cs]
                newrows.append([P(k + q) for q in range(len(cols))])
                for q, c in enumerate(cols):
                    rows[t][c] = P(k + q)
                k += len(cols)
            a[rs, cs] = [mk(r) for r in newrows]
        elif kind == 'slice2d-scalar':
            _, rs, cs = op
            for t in list(range(n))[rs]:
                for c in list(range(len(rows[t])))[cs]:
                    rows[t][c] = P(0)
            a[rs, cs] = P(0)
        elif kind == 'append-rows':
            _, lens = op
            k = 0
            new = []
            for ln in lens:
                new.append([P(k + q) for q in range(ln)])
                k += ln
            a.append([mk(r) for r in new])
            rows.extend(new)
        elif kind == 'append-ra':
            _, lens = op
            k = 0
            new = []
            for ln in lens:
                new.append([P(k + q) for q in range(ln)])
                k += ln
            a.append(ra.RaggedArray([mk(r) for r in new]))
            rows.extend(new)
        elif kind == 'iadd':
            a += P(0)
            for r in rows:
                for c in range(len(r)):
                    r[c] = r[c] + P(0)
        elif kind == 'mask-assign':
            m = ra.RaggedArray(mk([1] * N).astype(bool) if concrete else funcs.np_array([True] * N, dtype=bool),
                               lengths=list(lengths))
            thr = P(1)
            mask = a > thr
            a[mask] = P(0)
            for r in rows:
                for c in range(len(r)):
                    r[c] = ite(r[c] > thr, P(0), r[c]) if not concrete else (P(0) if r[c] > thr else r[c])
        else:
            raise ValueError(op)
        return a

    def path(ctx):
        if dtype:
            info = np.iinfo(adt)
            toks = [core.fresh_int('e', int(info.min), int(info.max)) for _ in range(N)]
        else:
            toks = [core.fresh_int('e') for _ in range(N)]
        ops = [core.fresh_int('v') for _ in range(12)]
        a, rows = build(lengths, lambda k: toks[k], form, dtype=adt)
        rows = [list(r) for r in rows]
        exc = None
        try:
            if touch:
                observe(a)
            a = apply(a, rows, lambda k: ops[k], False)
            a2nd = None
        except Exception as e:
            exc = e

        def witness(model):
            tv = [int(ev(model, t)) for t in toks]
            ov = [int(ev(model, t)) for t in ops]
            out = {'inputs': {'lengths': lengths, 'form': form, 'op': repr(op), 'values': tv, 'operands': ov[:4], 'element_type': str(adt)},
                   'skip_compare': True}
            with core.concrete_mode():
                a2, rows2 = build(lengths, lambda k: tv[k], form, dtype=adt)
                rows2 = [list(r) for r in rows2]
                try:
                    if touch:
                        observe(a2)
                    a2 = apply(a2, rows2, lambda k: ov[k], True)
                except Exception as e:
                    out['out'] = repr(e)[:200]
                    out['exception'] = repr(e)
                    out['violated'] = ['write raises %s' % type(e).__name__]
                    tag = ''
                    if op[0] == 'row-otherlen':
                        tag = ':all-rows-equal-length' if len(set(lengths)) == 1 else ':rows-of-different-length'
                    if op[0] == 'mask-assign':
                        tag = ':no-element-selected' if not any(v > ov[1] for v in tv) else ':some-selected'
                    out['signature'] = 'write:%s%s:raises-%s' % (op[0], tag, type(e).__name__)
                    return out
                bad = run_oracle(inv_obligations(a2, rows2))
            out['out'] = [list(map(int, r)) for r in a2._array]
            out['violated'] = bad
            out['signature'] = 'write:%s:incoherent-views' % op[0]
            return out
        if exc is not None:
            return PathOut([('no-exception', False)], {}, witness, exc=type(exc).__name__,
                           desc='raises %s: %s' % (type(exc).__name__, str(exc)[:80]))
        return PathOut(inv_obligations(a, rows), {}, witness, desc='%swrite %s on lengths=%s' % ('observe, ' if touch else '', op, lengths))
    return path


def vector_write_job(lengths, op, form='nested', width=2):
    """one write to a ragged array whose elements are vectors (frames x width) against the list-of-2-D-rows model"""
    lengths = list(lengths)
    n = len(lengths)
    N = sum(lengths)

    def mkarr(x, concrete):
        return np.array(x, dtype=int) if concrete else funcs.np_array(x, dtype=int)

    def mk(cell, concrete):
        ra = RA()
        rows = []
        k = 0
        for ln in lengths:
            rows.append([[cell(k + j, w) for w in range(width)] for j in range(ln)])
            k += ln
        if form == 'nested':
            a = ra.RaggedArray([mkarr(r, concrete) for r in rows])
        else:
            a = ra.RaggedArray(mkarr([f for r in rows for f in r], concrete), lengths=list(lengths))
        return a, rows

    def apply(a, rows, P, concrete):
        ra = RA()
        kind = op[0]
        if kind == 'frame':                       # a[i, j] = vector
            _, i, j = op
            v = [P(w) for w in range(width)]
            a[i, j] = mkarr(v, concrete)
            rows[i][j] = list(v)
        elif kind == 'row':                       # a[i] = (len x width) array
            _, i = op
            new = [[P(q * width + w) for w in range(width)] for q in range(len(rows[i]))]
            a[i] = mkarr(new, concrete)
            rows[i] = new
        elif kind == 'slice2d-scalar':
            _, rs, cs = op
            for t in list(range(n))[rs]:
                for c in list(range(len(rows[t])))[cs]:
                    rows[t][c] = [P(0)] * width
            a[rs, cs] = P(0)
        elif kind == 'append':
            _, lens = op
            new = []
            k = 0
            for ln in lens:
                new.append([[P((k + q) * width + w) for w in range(width)] for q in range(ln)])
                k += ln
            a.append([mkarr(r, concrete) for r in new])
            rows.extend(new)
        elif kind == 'append-ra':
            _, lens = op
            new = []
            k = 0
            for ln in lens:
                new.append([[P((k + q) * width + w) for w in range(width)] for q in range(ln)])
                k += ln
            a.append(ra.RaggedArray([mkarr(r, concrete) for r in new]))
            rows.extend(new)
        elif kind == 'iadd':
            a += P(0)
            for r in rows:
                for f in r:
                    for w in range(width):
                        f[w] = f[w] + P(0)
        else:
            raise ValueError(op)
        return a

    def coherent(a, rows):
        flat = [c for r in rows for f in r for c in f]
        obs = []

        def eqs(got, exp):
            return conj([x == y for x, y in zip(got, exp)]) if len(got) == len(exp) else False
        obs.append(('_data-is-the-concatenation-of-model-rows', eqs(flat_cells(a._data), flat)))
        obs.append(('_data-keeps-the-element-width', tuple(a._data.shape) == (len(flat) // width, width)))
        obs.append(('lengths', [int(x) for x in cells(a.lengths)] == [len(r) for r in rows]))
        ok = len(a._array) == len(rows)
        obs.append(('_array-rows-equal-model-rows',
                    conj([eqs(flat_cells(a._array[i]), [c for f in rows[i] for c in f]) for i in range(len(rows))]) if ok else False))
        obs.append(('_array-rows-keep-their-shape',
                    all(tuple(np.shape(a._array[i])) == (len(rows[i]), width) for i in range(len(rows))) if ok else False))
        obs.append(('row-reads-equal-model-rows',
                    conj([eqs(flat_cells(a[i]), [c for f in rows[i] for c in f]) for i in range(len(rows))]) if ok else False))
        el = []
        try:
            for r in range(len(rows)):
                for c in range(len(rows[r])):
                    el.append(eqs(flat_cells(a[r, c]), rows[r][c]))
            obs.append(('(row, frame) reads equal the model', conj(el)))
        except IndexError:
            obs.append(('(row, frame) reads equal the model', False))
        return obs

    def path(ctx):
        toks = {}

        def tok(k, w):
            if (k, w) not in toks:
                toks[(k, w)] = core.fresh_int('e')
            return toks[(k, w)]
        ops = [core.fresh_int('v') for _ in range(12)]
        a, rows = mk(tok, False)
        exc = None
        try:
            a = apply(a, rows, lambda k: ops[k], False)
        except Exception as e:
            exc = e

        def witness(model):
            ov = [int(ev(model, t)) for t in ops]
            out = {'inputs': {'lengths': lengths, 'form': form, 'element_width': width, 'op': repr(op), 'operands': ov[:4]},
                   'skip_compare': True}
            with core.concrete_mode():
                a2, rows2 = mk(lambda k, w: 100 + 10 * k + w, True)
                try:
                    a2 = apply(a2, rows2, lambda k: ov[k], True)
                    bad = run_oracle(coherent(a2, rows2))
                except Exception as e:
                    out.update(out=repr(e)[:200], exception=repr(e), violated=['write raises %s' % type(e).__name__],
                               signature='vector-write:%s:raises-%s' % (op[0], type(e).__name__))
                    return out
            out['out'] = [np.asarray(r).tolist() for r in a2._array]
            out['violated'] = bad
            out['signature'] = 'vector-write:%s:incoherent-views' % op[0]
            return out
        if exc is not None:
            return PathOut([('write-does-not-raise', False)], {}, witness, exc=type(exc).__name__,
                           desc='vector write %r raises %s: %s' % (op, type(exc).__name__, str(exc)[:80]))
        return PathOut(coherent(a, rows), {}, witness, desc='vector write %r lengths=%s' % (op, lengths))
    return path


def operator_job(lengths, opname, other='ra'):
    """binary operator between ragged arrays / with a scalar: element-wise, structure kept, new object, operands intact"""
    import operator as O
    lengths = list(lengths)
    N = sum(lengths)
    fn = getattr(O, opname)

    def path(ctx):
        x = [core.fresh_int('x') for _ in range(N)]
        y = [core.fresh_int('y') for _ in range(N)]
        if opname in ('floordiv', 'mod', 'truediv'):
            for v in y:
                ctx.add(v.t > 0)
        s = core.fresh_int('s')
        if opname in ('floordiv', 'mod', 'truediv'):
            ctx.add(s.t > 0)
        a, arows = build(lengths, lambda k: x[k], 'nested')
        b, brows = build(lengths, lambda k: y[k], 'flat')
        a0 = list(cells(a._data))
        b0 = list(cells(b._data))
        exc = None
        try:
            r = fn(a, b) if other == 'ra' else fn(a, s)
        except Exception as e:
            exc = e

        def witness(model):
            xv = [int(ev(model, t)) for t in x]
            yv = [int(ev(model, t)) for t in y]
            sv = int(ev(model, s))
            out = {'inputs': {'lengths': lengths, 'op': opname, 'other': other, 'x': xv, 'y': yv, 's': sv}, 'skip_compare': True}
            with core.concrete_mode():
                a2, _ = build(lengths, lambda k: xv[k], 'nested')
                b2, _ = build(lengths, lambda k: yv[k], 'flat')
                try:
                    r2 = fn(a2, b2) if other == 'ra' else fn(a2, sv)
                except Exception as e:
                    out['out'] = repr(e)[:200]
                    out['exception'] = repr(e)
                    out['violated'] = ['operator raises %s' % type(e).__name__]
                    out['signature'] = 'operator:%s:raises-%s' % (opname, type(e).__name__)
                    return out
                bad = []
                want = [fn(p, q) for p, q in zip(xv, yv)] if other == 'ra' else [fn(p, sv) for p in xv]
                if not hasattr(r2, '_data') or list(np.asarray(r2._data).tolist()) != want:
                    bad.append('result-not-element-wise')
                elif [int(v) for v in r2.lengths] != lengths:
                    bad.append('row-structure-lost')
                if list(a2._data) != xv or list(b2._data) != yv:
                    bad.append('operand-modified')
                if hasattr(r2, '_data') and (np.shares_memory(r2._data, a2._data) or np.shares_memory(r2._data, b2._data)):
                    bad.append('result-shares-storage-with-an-operand')
            out['out'] = want
            out['violated'] = bad
            out['signature'] = 'operator:%s:%s' % (opname, bad[0] if bad else 'ok')
            return out
        if exc is not None:
            return PathOut([('no-exception', False)], {}, witness, exc=type(exc).__name__,
                           desc='raises %s: %s' % (type(exc).__name__, str(exc)[:80]))
        is_ra = hasattr(r, '_data') and hasattr(r, 'lengths')
        obs = [('result-is-a-new-ragged-array', is_ra and r is not a and r is not b)]
        if is_ra:
            want = [fn(p, q) for p, q in zip(x, y)] if other == 'ra' else [fn(p, s) for p in x]
            got = list(cells(r._data))
            obs.append(('element-wise', conj([g == w for g, w in zip(got, want)]) if len(got) == N else False))
            obs.append(('row-structure-kept', [int(v) for v in cells(r.lengths)] == lengths))
            obs.append(('no-storage-shared-with-operands',
                        not np.shares_memory(_raw(r._data), _raw(a._data)) and not np.shares_memory(_raw(r._data), _raw(b._data))))
        obs.append(('operands-unaltered', conj([p == q for p, q in zip(list(cells(a._data)) + list(cells(b._data)), a0 + b0)])))
        return PathOut(obs, {}, witness, desc='%s %s' % (opname, other))
    return path


def reduce_job(lengths):
    """reductions (all / any / max / min), ~, | and & on boolean ragged arrays agree with the list-of-rows model"""
    lengths = list(lengths)
    N = sum(lengths)

    def path(ctx):
        ra = RA()
        x = [core.fresh_int('x') for _ in range(N)]
        b1 = [core.fresh_bool('p') for _ in range(N)]
        b2 = [core.fresh_bool('q') for _ in range(N)]
        a, _ = build(lengths, lambda k: x[k], 'nested')
        A = ra.RaggedArray(funcs.np_array(b1, dtype=bool), lengths=list(lengths))
        B = ra.RaggedArray(funcs.np_array(b2, dtype=bool), lengths=list(lengths))
        mx, mn = a.max(), a.min()
        obs = [('max-is-an-element-and-an-upper-bound', sand(sor(*[mx == v for v in x]), conj([mx >= v for v in x]))),
               ('min-is-an-element-and-a-lower-bound', sand(sor(*[mn == v for v in x]), conj([mn <= v for v in x]))),
               ('all', A.all() == sand(*b1)), ('any', A.any() == sor(*b1))]
        inv, orr, andd = ~A, A | B, A & B
        for name, r, want in (('invert', inv, [snot(v) for v in b1]), ('or', orr, [sor(p, q) for p, q in zip(b1, b2)]),
                              ('and', andd, [sand(p, q) for p, q in zip(b1, b2)])):
            ok = hasattr(r, '_data') and [int(v) for v in cells(r.lengths)] == lengths and r is not A and r is not B
            obs.append(('%s-is-a-new-ragged-array-with-the-same-structure' % name, ok))
            if ok:
                obs.append(('%s-element-wise' % name, conj([g == w for g, w in zip(cells(r._data), want)])))
        obs.append(('operands-unaltered', conj([p == q for p, q in zip(list(cells(A._data)) + list(cells(B._data)), b1 + b2)])))

        def witness(model):
            xv = [int(ev(model, v)) for v in x]
            p1 = [bool(ev(model, v)) for v in b1]
            p2 = [bool(ev(model, v)) for v in b2]
            out = {'inputs': {'lengths': lengths, 'x': xv, 'p': p1, 'q': p2}, 'skip_compare': True, 'out': None}
            with core.concrete_mode():
                a2, _ = build(lengths, lambda k: xv[k], 'nested')
                A2 = ra.RaggedArray(np.array(p1), lengths=list(lengths))
                B2 = ra.RaggedArray(np.array(p2), lengths=list(lengths))
                bad = []
                try:
                    if a2.max() != max(xv) or a2.min() != min(xv):
                        bad.append('max/min wrong')
                    if bool(A2.all()) != all(p1) or bool(A2.any()) != any(p1):
                        bad.append('all/any wrong')
                    if list((~A2)._data) != [not v for v in p1] or list((A2 | B2)._data) != [u or v for u, v in zip(p1, p2)] or \
                            list((A2 & B2)._data) != [u and v for u, v in zip(p1, p2)]:
                        bad.append('boolean operator wrong')
                    if list(A2._data) != p1 or list(B2._data) != p2:
                        bad.append('operand modified')
                except Exception as e:
                    bad.append('raises %s' % type(e).__name__)
            out['violated'] = bad
            out['signature'] = 'reduce:' + (bad[0] if bad else 'ok')
            return out
        return PathOut(obs, {}, witness, desc='reductions and boolean operators lengths=%s' % lengths)
    return path


def copy_job(lengths):
    """building a ragged array by copy never aliases the caller's data (flat+lengths and nested forms)"""
    lengths = list(lengths)
    N = sum(lengths)

    def path(ctx):
        ra = RA()
        x = [core.fresh_int('x') for _ in range(N)]
        v = core.fresh_int('v')
        src = funcs.np_array(list(x), dtype=int)
        a = ra.RaggedArray(src, lengths=list(lengths))
        a[0, 0] = v
        obs = [('caller-array-unaffected-by-a-write-to-the-copy', conj([p == q for p, q in zip(cells(src), x)])),
               ('no-shared-storage', not np.shares_memory(_raw(a._data), _raw(src)))]
        src2 = funcs.np_array(list(x), dtype=int)
        b = ra.RaggedArray(src2, lengths=list(lengths))
        src2[0] = v
        obs.append(('copy-unaffected-by-a-later-write-to-the-caller-array', cells(b._data)[0] == x[0]))

        def witness(model):
            xv = [int(ev(model, t)) for t in x]
            vv = int(ev(model, v))
            if vv == xv[0]:
                vv += 1
            with core.concrete_mode():
                s = np.array(xv)
                a2 = ra.RaggedArray(s, lengths=list(lengths))
                a2[0, 0] = vv
                bad = [] if s.tolist() == xv else ['constructor-aliases-caller-data']
            return {'inputs': {'lengths': lengths, 'x': xv}, 'out': s.tolist(), 'violated': bad, 'skip_compare': True,
                    'signature': 'constructor:aliases-caller-data'}
        return PathOut(obs, {}, witness, desc='copy lengths=%s' % lengths)
    return path


def alias_job(n, L, how):
    """no aliasing between a ragged array and (a) a rectangular 2-D ndarray it was built from, (b) another ragged array it was
    sliced from / derived from by an operator: a write on one side must not show on the other"""
    def scenario(ra, mk, vals, v, concrete):
        """returns (list of (label, untouched object cells, expected cells))"""
        grid = [[vals[i * L + j] for j in range(L)] for i in range(n)]
        checks = []
        if how == 'from-2d-ndarray':
            x = mk(grid)
            r = ra.RaggedArray(x)
            r[n - 1, 0] = v
            checks.append(('caller-2d-array-unaffected-by-a-write-to-the-ragged-array', x, [c for row in grid for c in row]))
            x2 = mk(grid)
            r2 = ra.RaggedArray(x2)
            x2[0, L - 1] = v
            checks.append(('ragged-array-unaffected-by-a-later-write-to-the-caller-array', r2._data, [c for row in grid for c in row]))
            checks.append(('row-view-unaffected-by-a-later-write-to-the-caller-array', r2[0], grid[0]))
        else:
            a = ra.RaggedArray(mk([c for row in grid for c in row]), lengths=[L] * n)      # equal-length rows
            b = a + 0 if how == 'slice-of-operator-result' else a
            c = b[0:max(1, n - 1)] if how != 'full-slice' else b[:]
            c[0, 0] = v
            checks.append(('source-array-unaffected-by-a-write-to-its-row-slice', b._data, [c_ for row in grid for c_ in row]))
            checks.append(('source-rows-unaffected-by-a-write-to-its-row-slice', b[0], grid[0]))
        return checks

    def path(ctx):
        ra = RA()
        vals = [core.fresh_int('x') for _ in range(n * L)]
        v = core.fresh_int('v')
        checks = scenario(ra, lambda g: funcs.np_array(g, dtype=int), vals, v, False)
        obs = [(lab, conj([p == q for p, q in zip(flat_cells(obj), exp)]) if len(flat_cells(obj)) == len(exp) else False)
               for lab, obj, exp in checks]

        def witness(model):
            xv = [int(ev(model, t)) for t in vals]
            vv = int(ev(model, v))
            while vv in xv:
                vv += 1
            with core.concrete_mode():
                cks = scenario(ra, lambda g: np.array(g, dtype=int), xv, vv, True)
                bad = [lab for lab, obj, exp in cks if [int(t) for t in flat_cells(obj)] != [int(t) for t in exp]]
            return {'inputs': {'rows': n, 'row_length': L, 'scenario': how, 'values': xv, 'written': vv}, 'out': None, 'violated': bad,
                    'skip_compare': True, 'signature': 'aliasing:' + how}
        return PathOut(obs, {}, witness, desc='aliasing %s %dx%d' % (how, n, L))
    return path


def index_args_job(lengths, write=False):
    """2-D fancy indexing with integer NDARRAY index arguments (negative entries included): the result equals the list-of-rows
    model and the caller's index arrays are left as they were (they may be re-used on another array)"""
    lengths = list(lengths)
    n = len(lengths)
    N = sum(lengths)
    pairs = [(i, j) for i in range(n) for j in range(lengths[i])]
    neg = [(i - n, j - lengths[i]) for i, j in pairs]
    mixed = [(i - n if k % 2 else i, j - lengths[i] if k % 3 else j) for k, (i, j) in enumerate(pairs)]
    cases = [pairs[::-1], neg, mixed, [neg[-1]], [pairs[0], neg[0]]]

    def run(ra, mk, mkidx, vals, v):
        res = []
        for case in cases:
            a, rows = build_with(ra, mk, lengths, vals)
            r_idx, c_idx = mkidx([p[0] for p in case]), mkidx([p[1] for p in case])
            r0, c0 = [p[0] for p in case], [p[1] for p in case]
            exp = [rows[i][j] for i, j in case]
            if write:
                a[(r_idx, c_idx)] = v
                got = None
            else:
                got = flat_cells(a[(r_idx, c_idx)])
            res.append((case, got, exp, flat_cells(r_idx), r0, flat_cells(c_idx), c0))
        return res

    def build_with(ra, mk, lengths_, vals):
        rows, k = [], 0
        for ln in lengths_:
            rows.append([vals[k + j] for j in range(ln)])
            k += ln
        return ra.RaggedArray([mk(r) for r in rows]), rows

    def path(ctx):
        ra = RA()
        vals = [core.fresh_int('e') for _ in range(N)]
        v = core.fresh_int('v')
        res = run(ra, lambda r: funcs.np_array(list(r), dtype=int), lambda ix: SArr.from_typed(np.array(ix, dtype=np.int64)), vals, v)
        obs = []
        if not write:
            obs.append(('paired index arrays select the addressed elements',
                        conj([conj([x == y for x, y in zip(got, exp)]) if len(got) == len(exp) else False for _, got, exp, *_ in res])))
        obs.append(('index-arrays-passed-by-the-caller-are-not-modified',
                    all([int(x) for x in ri] == r0 and [int(x) for x in ci] == c0 for _, _, _, ri, r0, ci, c0 in res)))

        def witness(model):
            xv = [int(ev(model, t)) for t in vals]
            vv = int(ev(model, v))
            with core.concrete_mode():
                r2 = run(ra, lambda r: np.array(list(r), dtype=int), lambda ix: np.array(ix, dtype=np.int64), xv, vv)
            bad = []
            for case, got, exp, ri, r0, ci, c0 in r2:
                if got is not None and [int(x) for x in got] != [int(x) for x in exp]:
                    bad.append('wrong elements for index arrays %s' % (case,))
                if [int(x) for x in ri] != r0 or [int(x) for x in ci] != c0:
                    bad.append('index arrays modified: rows %s -> %s, cols %s -> %s' % (r0, [int(x) for x in ri], c0, [int(x) for x in ci]))
            return {'inputs': {'lengths': lengths, 'write': write}, 'out': None, 'violated': bad[:3], 'skip_compare': True,
                    'signature': 'fancy-index:%s' % ('index-arrays-modified' if any('modified' in b for b in bad) else 'wrong-elements')}
        return PathOut(obs, {}, witness, desc='ndarray index arguments lengths=%s %s' % (lengths, 'write' if write else 'read'))
    return path


def length_vectors(maxrows, L):
    out = []
    for n in range(1, maxrows + 1):
        out += list(itertools.product(range(1, L + 1), repeat=n))
    return out
