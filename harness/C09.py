"""C09  K-medoids refinement never worsens the cost and keeps centers in the data."""
from harness import cluster

preload = cluster.preload

META = {
    'files': ['enspara/cluster/kmedoids.py', 'enspara/cluster/hybrid.py', 'enspara/cluster/util.py', 'enspara/mpi/ops.py'],
    'functions': ['enspara.cluster.kmedoids._kmedoids_pam_update/_propose_new_center_amongst/_msq/kmedoids/_kmedoids_iterations',
                  'enspara.cluster.hybrid.hybrid', 'enspara.mpi.ops.striped_array_mean (world size 1)',
                  'enspara.cluster.kcenters.kcenters (reference cost for hybrid)'],
    'bounds': {'quick': 'inductive PAM sweep from an arbitrary consistent state: N<=4,k<=3 (random or explicit proposals); '
                        'kmedoids/hybrid end-to-end N<=3, 1-2 sweeps; cold start with 1-2 random array draws that may repeat frames (N=3)',
               'thorough': 'inductive sweep N<=4 k<=3 (+N=5,k=2); end-to-end N<=4, 2 sweeps'},
    'stubs': ['metric = uninterpreted function D', 'random generators = nondeterministic stub; numpy global generator = '
              'forbidden (its use is reported)', 'np.square opaque (SQ>=0) + exact refinement for counterexamples'],
    'assumptions': ['exact real arithmetic', 'points pairwise distinct',
                    'explicit proposals are frames that are not the center of another cluster',
                    'fixed seed: NumPy generators are deterministic functions of their seed (not re-verified)'],
    'outside': ['args.save_intermediates (file output)', 'MPI mode (see C14)'],
}


def jobs(tier):
    J = []
    q = tier == 'quick'
    dl = 280 if q else 1700

    def km(name, **kw):
        J.append(dict(module='harness.cluster', func='kmedoids_job', name='km[%s]' % name,
                      kwargs=dict(kw, props=('C09',)), sig_prefix='kmedoids', deadline_s=dl))
    for N, k in [(2, 1), (2, 2), (3, 1), (3, 2), (3, 3), (4, 2), (4, 3)] + ([] if q else [(4, 1), (4, 4)]):
        km('pam,N=%d,k=%d' % (N, k), N=N, k=k, entry='pam')
        km('pam,N=%d,k=%d,proposals' % (N, k), N=N, k=k, entry='pam', proposals=True)
    for N, k in [(2, 1), (2, 2), (3, 1), (3, 2), (3, 3)] + ([] if q else [(4, 2), (4, 3)]):
        for sw in (1, 2):
            km('kmedoids,N=%d,k=%d,sweeps=%d' % (N, k, sw), N=N, k=k, entry='kmedoids', sweeps=sw)
            km('hybrid,N=%d,k=%d,sweeps=%d' % (N, k, sw), N=N, k=k, entry='hybrid', sweeps=sw, mode='n')
        km('hybrid,N=%d,k=%d,both' % (N, k), N=N, k=k, entry='hybrid', sweeps=1, mode='both')
        km('kmedoids,N=%d,k=%d,warm=all' % (N, k), N=N, k=k, entry='kmedoids', warm='all', sweeps=1)
        km('kmedoids,N=%d,k=%d,proposals' % (N, k), N=N, k=k, entry='kmedoids', warm='all', proposals=True, sweeps=1)
        if k >= 2 and N == 3:
            km('kmedoids,N=%d,k=%d,warm=all,(trajectory, frame) center indices' % (N, k), N=N, k=k, entry='kmedoids', warm='all-pairs', sweeps=1)
    # cold start with random ARRAY draws that may contain repeated frames (the library must redraw / reject them): one and two
    # colliding draws, then the duplicate-free cut
    for N, k, cd in ((3, 2, 1), (3, 2, 2), (3, 3, 1)) + (() if q else ((4, 2, 2), (4, 3, 2))):
        km('kmedoids,N=%d,k=%d,cold start,%d colliding draw(s)' % (N, k, cd), N=N, k=k, entry='kmedoids', sweeps=1, colliding_draws=cd)
    return J
