"""C18  Joint counts are exact and mutual information obeys its algebraic laws (Python part: E1;
kernel part: E2 in harness/kernels.py)."""
import itertools
import math

import numpy as np
import z3

from symnp import core, loader, funcs, stubs
from symnp.core import SVal, SFloat, ite, sand, sor, snot
from symnp.arr import SArr, _raw
from harness.common import PathOut, ev
from harness.cluster import conj, cells, run_oracle
from harness.tptjobs import Tol, tolm, tolv

META = {
    'files': ['enspara/info_theory/mutual_info.py', 'enspara/info_theory/entropy.py', 'enspara/info_theory/libinfo.pyx'],
    'functions': ['enspara.info_theory.mutual_info.mutual_information / channel_capacity_normalization / joint_counts / mi_matrix / '
                  '_validate_*', 'enspara.info_theory.entropy.shannon_entropy / kl_divergence',
                  'enspara.info_theory.libinfo.matrix_bincount2d / bincount2d (E2: typed Cython tree)'],
    'bounds': {'quick': 'joint-count tables 2 features x 2 features x (2x2 states) symbolic non-negative integers with at least one '
                        'observation; relabelling = every permutation of the state axes; normalisation: every (n_x, n_y) with '
                        '1..3 features per side and 2..4 states; entropy/KL: distributions of length <=3; out-of-range ids: 2 frames, state counts 2 vs 3; kernel: see evidence',
               'thorough': 'state tables up to 2x3; KL length 4'},
    'stubs': ['log = uninterpreted function; the instances log(1/p) = -log(p) (p>0) are assumed on the terms that occur (true '
              'facts about log)', 'libinfo kernels replaced by their specification in the Python-level jobs (the specification is '
              'what E2 proves about the kernel)'],
    'assumptions': ['exact real arithmetic', 'joint-count tables are non-negative with a positive total per feature pair'],
    'outside': ['MI <= min(H_x, H_y) (needs the product law of log, which the tangent-bound abstraction does not give); MI >= 0 beyond 2x2 '
                'tables (2x2: all tables with 12 and with 1000 observations, and unbounded totals for tables with an empty cell; larger '
                'tables attempted in the thorough tier); KL >= 0 beyond 4 outcomes', 'deconvolute_network, mi_to_nmi_apc (not in the property)',
                'weighted_mi beyond the clauses listed in the evidence'],
}


def spec_matrix_bincount2d(a, b, n_a, n_b):
    """specification of the kernel (what E2 proves about libinfo.matrix_bincount2d): exact joint counts, uint32"""
    import sys
    sym = isinstance(a, SArr) or isinstance(b, SArr)
    n_a, n_b = int(n_a), int(n_b)
    if not sym:
        a, b = np.asarray(a), np.asarray(b)
        assert a.shape[0] == b.shape[0]
        assert a.max() < n_a and b.max() < n_b and a.min() >= 0 and b.min() >= 0
        jc = np.zeros((a.shape[1], b.shape[1], n_a, n_b), dtype=np.uint32)
        for x in range(a.shape[1]):
            for y in range(b.shape[1]):
                np.add.at(jc[x, y], (a[:, x], b[:, y]), 1)
        return jc
    ra_, rb_ = _raw(funcs._as_sarr(a)), _raw(funcs._as_sarr(b))
    # the kernel's own input assertions (proved to guard every access by the E2 safety jobs)
    assert ra_.shape[0] == rb_.shape[0], "Feature arrays a and b must match in length"
    T = ra_.shape[0]
    rng_ok = core.sand(*([sand(v >= 0, v < n_a) for v in ra_.flat if isinstance(v, SVal)] +
                         [sand(v >= 0, v < n_b) for v in rb_.flat if isinstance(v, SVal)] + [True]))
    conc_ok = all(0 <= int(v) < n_a for v in ra_.flat if not isinstance(v, SVal)) and \
        all(0 <= int(v) < n_b for v in rb_.flat if not isinstance(v, SVal))
    if not conc_ok or not core.branch(rng_ok):
        raise AssertionError("States indices must be contiguous / non-negative.")
    o = np.empty((ra_.shape[1], rb_.shape[1], n_a, n_b), dtype=object)
    for x in range(ra_.shape[1]):
        for y in range(rb_.shape[1]):
            for i in range(n_a):
                for j in range(n_b):
                    acc = 0
                    for t in range(T):
                        acc = acc + ite(sand(ra_[t, x] == i, rb_[t, y] == j), 1, 0)
                    o[x, y, i, j] = acc
    r = o.view(SArr)
    r.ldtype = np.dtype(np.uint32)
    return r


def preload():
    import sys
    loader.load('enspara.msm.transition_matrices')
    loader.load('enspara.msm.builders')
    loader.load('enspara.info_theory.mutual_info')
    loader.load('enspara.info_theory.entropy')
    sys.modules['enspara.info_theory.libinfo'].matrix_bincount2d = spec_matrix_bincount2d


def feq(a, b):
    from symnp.ufuncs import s_isnan
    if isinstance(a, Tol) or isinstance(b, Tol):
        return a == b
    if isinstance(a, SVal) or isinstance(b, SVal):
        return sor(a == b, sand(s_isnan(a), s_isnan(b)))
    if isinstance(a, float) and isinstance(b, float) and a != a and b != b:
        return True
    return a == b


def sym_jc(ctx, fa, fb, sa, sb, positive_total=True):
    jc = np.empty((fa, fb, sa, sb), dtype=object)
    for ix in np.ndindex(jc.shape):
        v = core.fresh_int('jc', 0, None)
        jc[ix] = v
    if positive_total:
        for i in range(fa):
            for j in range(fb):
                tot = 0
                for u in range(sa):
                    for v in range(sb):
                        tot = tot + jc[i, j, u, v]
                ctx.add(core.to_z3_bool(tot > 0))
    return jc


def to_sarr(jc, dt=np.uint32):
    r = jc.copy().view(SArr)
    r.ldtype = np.dtype(dt)
    return r


def mi_perm_job(sa, sb):
    """MI is unchanged by relabelling the states (permuting the state axes of the joint counts) and
    MI of (X,Y) equals MI of (Y,X) on the transposed table."""
    mi_mod = loader.load('enspara.info_theory.mutual_info')

    def path(ctx):
        ctx.resolve_masks = True
        jc = sym_jc(ctx, 1, 1, sa, sb)
        base = mi_mod.mutual_information(to_sarr(jc))
        b00 = _raw(base)[0, 0]
        obs = []
        outs = {'mi': b00}
        for pa in itertools.permutations(range(sa)):
            for pb in itertools.permutations(range(sb)):
                if pa == tuple(range(sa)) and pb == tuple(range(sb)):
                    continue
                j2 = jc[:, :, list(pa), :][:, :, :, list(pb)]
                m2 = mi_mod.mutual_information(to_sarr(j2))
                obs.append(('relabelling-%s-%s-leaves-MI-unchanged' % (pa, pb), feq(_raw(m2)[0, 0], b00)))
        jt = np.transpose(jc, (1, 0, 3, 2))
        mt = mi_mod.mutual_information(to_sarr(jt))
        obs.append(('MI(X,Y)-equals-MI(Y,X)', feq(_raw(mt)[0, 0], b00)))

        def witness(model):
            cj = np.array([[[[int(ev(model, jc[0, 0, u, v])) for v in range(sb)] for u in range(sa)]]], dtype=np.uint32)
            out = {'inputs': {'joint_counts': cj.tolist()}}
            with core.concrete_mode():
                try:
                    m = mi_mod.mutual_information(cj)
                    bad = []
                    for pa in itertools.permutations(range(sa)):
                        for pb in itertools.permutations(range(sb)):
                            m2 = mi_mod.mutual_information(cj[:, :, list(pa), :][:, :, :, list(pb)])
                            if abs(m2[0, 0] - m[0, 0]) > 1e-9:
                                bad.append('relabelling-changes-MI')
                    mt2 = mi_mod.mutual_information(np.transpose(cj, (1, 0, 3, 2)))
                    if abs(mt2[0, 0] - m[0, 0]) > 1e-9:
                        bad.append('MI-not-symmetric')
                except Exception as e:
                    out.update(exception=repr(e), out=None, violated=['raises ' + type(e).__name__],
                               signature='exception:' + type(e).__name__)
                    return out
            out['out'] = {'mi': float(m[0, 0])}
            out['violated'] = sorted(set(bad))
            out['skip_compare'] = True
            return out
        return PathOut(obs, outs, witness, desc='MI %dx%d' % (sa, sb))
    return path


def mi_diag_job(S):
    """MI of a feature with itself (diagonal joint counts) equals the Shannon entropy of its marginal."""
    mi_mod = loader.load('enspara.info_theory.mutual_info')
    en = loader.load('enspara.info_theory.entropy')

    def path(ctx):
        ctx.resolve_masks = True
        cnt = [core.fresh_int('n', 0, None) for _ in range(S)]
        tot = sum(cnt[1:], cnt[0])
        ctx.add(core.to_z3_bool(tot > 0))
        jc = np.zeros((1, 1, S, S), dtype=object)
        for u in range(S):
            jc[0, 0, u, u] = cnt[u]
        m = mi_mod.mutual_information(to_sarr(jc))
        p = funcs.np_array([c for c in cnt], dtype=float)
        H = en.shannon_entropy(p, normalize=True)
        # assumed instances of a true law of log on the terms that occur: log(1/x) = -log(x) for x > 0
        for u in range(S):
            pu = core.to_z3_real(cnt[u]) / core.to_z3_real(tot)
            ctx.add(z3.Implies(pu > 0, core._LOG(pu / (pu * pu)) == -core._LOG(pu)))
        obs = [('diagonal-MI-equals-Shannon-entropy-of-the-marginal', feq(_raw(m)[0, 0], H))]

        def witness(model):
            cv = [int(ev(model, c)) for c in cnt]
            cj = np.zeros((1, 1, S, S), dtype=np.uint32)
            for u in range(S):
                cj[0, 0, u, u] = cv[u]
            out = {'inputs': {'marginal_counts': cv}}
            with core.concrete_mode():
                try:
                    m2 = mi_mod.mutual_information(cj)[0, 0]
                    h2 = en.shannon_entropy(np.array(cv, dtype=float), normalize=True)
                except Exception as e:
                    out.update(exception=repr(e), out=None, violated=['raises ' + type(e).__name__],
                               signature='exception:' + type(e).__name__)
                    return out
            out['out'] = {'mi': float(m2), 'H': float(h2)}
            out['violated'] = [] if (abs(m2 - h2) < 1e-9 or (m2 != m2 and h2 != h2)) else ['diagonal-MI-differs-from-entropy']
            out['skip_compare'] = True
            return out
        return PathOut(obs, {}, witness, desc='MI diagonal S=%d' % S)
    return path


def mi_nonneg_job(sa, sb, zero_cells=(), total=None):
    """mutual information of an arbitrary joint-count table is non-negative (Gibbs' inequality through the tangent bounds of
    the abstracted logarithm); zero_cells = cells fixed to 0 (the code skips them)"""
    mi_mod = loader.load('enspara.info_theory.mutual_info')

    def path(ctx):
        ctx.resolve_masks = True
        ctx.abstract_log = True
        ctx.log_bounds = True
        ctx.purify_div = True
        jc = np.empty((1, 1, sa, sb), dtype=object)
        for u in range(sa):
            for v in range(sb):
                jc[0, 0, u, v] = 0 if (u, v) in zero_cells else core.fresh_int('jc', 1, None)
        if total is not None:       # all tables with this many observations (keeps the frequencies linear in the counts)
            tot = 0
            for u in range(sa):
                for v in range(sb):
                    tot = tot + jc[0, 0, u, v]
            ctx.add(core.to_z3_bool(tot == total))
        exc = None
        try:
            m = mi_mod.mutual_information(to_sarr(jc))
            val = core.as_sfloat(_raw(m)[0, 0])
        except Exception as e:
            exc = e

        def witness(model):
            cj = np.zeros((1, 1, sa, sb), dtype=np.uint32)
            for ix in np.ndindex(cj.shape):
                c = jc[ix]
                cj[ix] = int(ev(model, c)) if isinstance(c, SVal) else int(c)
            out = {'inputs': {'joint_counts': cj.tolist()}, 'skip_compare': True}
            with core.concrete_mode():
                try:
                    m2 = float(mi_mod.mutual_information(cj)[0, 0])
                except Exception as e:
                    out.update(exception=repr(e), out=None, violated=['raises ' + type(e).__name__], signature='exception:' + type(e).__name__)
                    return out
            out['out'] = m2
            out['violated'] = [] if m2 >= -1e-12 else ['mutual-information-negative']
            return out
        if exc is not None:
            return PathOut([('no-exception', False)], {}, witness, exc=type(exc).__name__, desc='raises %s: %s' % (type(exc).__name__, str(exc)[:100]))
        obs = [('mutual-information-is-finite-and-non-negative', core.sand(core.SBool.mk(val.fin), val >= 0))]
        return PathOut(obs, {}, witness, desc='MI >= 0 on a %dx%d table, zero cells %s' % (sa, sb, list(zero_cells)))
    return path


def norm_job(nx, ny):
    """channel-capacity normalisation divides entry (i,j) by log(min(n_x[i], n_y[j]))"""
    mi_mod = loader.load('enspara.info_theory.mutual_info')
    nx, ny = list(nx), list(ny)

    def path(ctx):
        M = [[core.fresh_real('mi') for _ in ny] for _ in nx]
        A = funcs.np_array(M, dtype=float)
        A0 = A.copy()
        exc = None
        try:
            R = mi_mod.channel_capacity_normalization(A, np.array(nx), np.array(ny))
        except Exception as e:
            exc = e

        def witness(model):
            Mc = [[float(ev(model, x)) for x in row] for row in M]
            out = {'inputs': {'mi': Mc, 'n_x': nx, 'n_y': ny}}
            Ac = np.array(Mc)
            with core.concrete_mode():
                try:
                    R2 = mi_mod.channel_capacity_normalization(Ac, np.array(nx), np.array(ny))
                except Exception as e:
                    out.update(exception=repr(e), out=None, violated=['raises ' + type(e).__name__],
                               signature='normalization:exception:%s:%s' % (type(e).__name__, region()))
                    return out
            out['out'] = R2.tolist()
            bad = []
            for i in range(len(nx)):
                for j in range(len(ny)):
                    want = Mc[i][j] / math.log(min(nx[i], ny[j]))
                    if abs(R2[i, j] - want) > 1e-9 * max(1, abs(want)):
                        bad.append('entry-not-divided-by-log-of-smaller-state-count')
            if Ac.tolist() != Mc:
                bad.append('input-modified')
            out['violated'] = sorted(set(bad))
            out['signature'] = 'normalization:wrong-divisor:' + region()
            return out

        def region():
            if len(nx) != len(ny):
                return 'different-feature-counts'
            return 'same-feature-counts'
        if exc is not None:
            return PathOut([('no-exception', False)], {}, witness, exc=type(exc).__name__,
                           desc='raises %s: %s' % (type(exc).__name__, str(exc)[:100]))
        conds = []
        for i in range(len(nx)):
            for j in range(len(ny)):
                lg = float(np.log(np.array([min(nx[i], ny[j])]))[0])      # the same float NumPy produces
                conds.append(_raw(R)[i, j] * lg == M[i][j])
        obs = [('entry-ij-divided-by-log-of-smaller-state-count', conj(conds)),
               ('input-unmodified', conj([x == y for x, y in zip(A.cells(), A0.cells())]))]
        return PathOut(obs, R, witness, desc='normalization nx=%s ny=%s' % (nx, ny))
    return path


def garbage_vars(term_list):
    seen = {}

    def walk(t):
        if t.get_id() in seen:
            return
        seen[t.get_id()] = t
        for c in t.children():
            walk(c)
    for t in term_list:
        walk(t)
    return [t for t in seen.values() if z3.is_const(t) and t.decl().kind() == z3.Z3_OP_UNINTERPRETED
            and str(t).startswith('uninit')]


def independent_of_uninitialised(ctx, values):
    """2-safety: the result must not change when the content of memory NumPy did not initialise changes."""
    terms = []
    for v in values:
        if isinstance(v, SFloat):
            terms.append(v.k if isinstance(v.k, z3.ExprRef) else z3.IntVal(v.k))
            terms.append(v.v if isinstance(v.v, z3.ExprRef) else z3.RealVal(v.v))
        elif isinstance(v, SVal):
            terms.append(v.t)
    gv = garbage_vars(terms)
    if not gv:
        return True, 0
    subst = [(g, z3.FreshConst(g.sort(), 'uninit2')) for g in gv]
    conds = []
    for g, g2 in subst:
        if g.sort() == z3.IntSort() and str(g).startswith('uninitk'):
            conds.append(z3.And(g2 >= -1, g2 <= 2))
    same = []
    for i in range(0, len(terms), 2) if all(isinstance(v, SFloat) for v in values) else []:
        k1, v1 = terms[i], terms[i + 1]
        k2, v2 = z3.substitute(k1, *subst), z3.substitute(v1, *subst)
        same.append(z3.And(k1 == k2, z3.Or(k1 != 0, v1 == v2)))
    if not same:
        for t in terms:
            same.append(t == z3.substitute(t, *subst))
    return z3.Implies(z3.And(*conds) if conds else z3.BoolVal(True), z3.And(*same)), len(gv)


def poison_replay(fn, shape_elems, repeats=40):
    """call fn() after filling and freeing NaN/inf blocks of the size NumPy will allocate next;
    returns the list of distinct outcomes (repr) observed"""
    seen = []
    for r in range(repeats):
        for fill in (np.nan, np.inf, -np.inf, 1e300, 0.0):
            blocks = [np.full(shape_elems, fill) for _ in range(4)]
            del blocks
            try:
                v = fn()
                key = np.asarray(v, dtype=float).round(12).tolist()
            except Exception as e:
                key = 'EXC:' + type(e).__name__
            key = repr(key)
            if key not in seen:
                seen.append(key)
    return seen


def entropy_job(n, zeros, normalize=True):
    """shannon_entropy on a distribution with `zeros` entries equal to 0: value, and independence from
    uninitialised memory (C19)."""
    en = loader.load('enspara.info_theory.entropy')

    def path(ctx):
        ps = []
        for k in range(n):
            if k < zeros:
                ps.append(0.0)
            else:
                x = core.fresh_real('p')
                ctx.add(core.to_z3_real(x) > 0)
                ps.append(x)
        P = funcs.np_array(ps, dtype=float)
        P0 = P.copy()
        exc = None
        try:
            H = en.shannon_entropy(P, normalize=normalize)
        except Exception as e:
            exc = e

        def witness(model):
            pc = [float(ev(model, x)) if isinstance(x, SVal) else 0.0 for x in ps]
            out = {'inputs': {'p': pc}}
            arr = np.array(pc)
            with core.concrete_mode():
                seen = poison_replay(lambda: en.shannon_entropy(arr, normalize=normalize), len(pc))
            tot = sum(pc) if normalize else 1.0
            want = -sum((x / tot) * math.log(x / tot) for x in pc if x > 0)
            out['out'] = {'H_values_observed': seen[:5], 'expected': want}
            bad = []
            if len(seen) > 1:
                bad.append('result-depends-on-heap-contents')
            elif not seen[0].startswith("'EXC") and abs(float(eval(seen[0], {'nan': float('nan'), 'inf': float('inf')})) - want) > 1e-9:
                bad.append('entropy-value-wrong')
            out['violated'] = bad
            out['signature'] = 'shannon_entropy:zero-probability-entry:uninitialised-log-output'
            out['skip_compare'] = True
            return out
        if exc is not None:
            return PathOut([('no-exception', False)], {}, witness, exc=type(exc).__name__,
                           desc='raises %s: %s' % (type(exc).__name__, str(exc)[:100]))
        tot = sum(ps[1:], ps[0]) if normalize else 1.0
        want = 0.0
        for x in ps:
            if isinstance(x, SVal):
                want = want - (x / tot) * core.fl_log(x / tot)
        indep, ng = independent_of_uninitialised(ctx, [H] if isinstance(H, SFloat) else [])
        obs = [('result-independent-of-uninitialised-memory', indep),
               ('entropy-equals-minus-sum-p-log-p-over-positive-entries', feq(H, want))]
        return PathOut(obs, {}, witness, desc='shannon_entropy n=%d zeros=%d (uninitialised cells: %d)' % (n, zeros, ng))
    return path


def mi_garbage_job(empty_pair):
    """mutual_information on a table in which one feature pair has no observation at all"""
    mi_mod = loader.load('enspara.info_theory.mutual_info')

    def path(ctx):
        ctx.resolve_masks = True
        jc = sym_jc(ctx, 1, 2, 2, 2, positive_total=False)
        fixed = [[2, 1], [0, 3]]
        for u in range(2):
            for v in range(2):
                jc[0, 0, u, v] = fixed[u][v]        # the observed pair is concrete (keeps the path count small)
                if empty_pair:
                    jc[0, 1, u, v] = 0
        if not empty_pair:
            tot1 = sum(jc[0, 1].reshape(-1)[1:], jc[0, 1].reshape(-1)[0])
            ctx.add(core.to_z3_bool(tot1 > 0))
        A = to_sarr(jc)
        exc = None
        try:
            m = mi_mod.mutual_information(A)
        except Exception as e:
            exc = e

        def witness(model):
            cj = np.zeros((1, 2, 2, 2), dtype=np.uint32)
            for ix in np.ndindex(cj.shape):
                c = jc[ix]
                cj[ix] = int(ev(model, c)) if isinstance(c, SVal) else int(c)
            out = {'inputs': {'joint_counts': cj.tolist()}}
            with core.concrete_mode():
                seen = poison_replay(lambda: mi_mod.mutual_information(cj), 8)
            out['out'] = {'outcomes_observed': seen[:5]}
            bad = []
            if len(seen) > 1:
                bad.append('result-depends-on-heap-contents')
            elif seen[0].startswith("'EXC"):
                bad.append('raises ' + seen[0][5:-1])
            out['violated'] = bad
            out['signature'] = 'mutual_information:feature-pair-without-observations:uninitialised-divide-output'
            out['skip_compare'] = True
            return out
        if exc is not None:
            return PathOut([('no-exception-on-admissible-table', False)], {}, witness, exc=type(exc).__name__,
                           desc='raises %s: %s' % (type(exc).__name__, str(exc)[:100]))
        vals = [c for c in m.cells() if isinstance(c, SFloat)]
        indep, ng = independent_of_uninitialised(ctx, vals)
        obs = [('result-independent-of-uninitialised-memory', indep)]
        if empty_pair:
            obs.append(('pair-without-observations-has-zero-MI', feq(_raw(m)[0, 1], 0.0)))
        return PathOut(obs, {}, witness, desc='mutual_information empty_pair=%s (uninitialised cells: %d)' % (empty_pair, ng))
    return path


def weighted_mi_job(features, n_states, normalized_weights=True):
    """weighted_mi on a concrete feature table with SYMBOLIC observation weights: no exception on admissible input,
    symmetric result, result independent of memory NumPy did not initialise (cells whose marginal product is zero),
    arguments unmodified; under equal weights the result equals mutual_information(joint_counts(features))."""
    mi_mod = loader.load('enspara.info_theory.mutual_info')
    F = np.array(features, dtype=int)
    T, nf = F.shape

    def reference_uniform():
        """MI of the empirical distribution, in the exact rational/log form used by the property (natural log)"""
        import math
        M = np.zeros((nf, nf))
        for i in range(nf):
            for j in range(nf):
                for u in range(max(n_states)):
                    for v in range(max(n_states)):
                        puv = np.mean((F[:, i] == u) & (F[:, j] == v))
                        pu, pv = np.mean(F[:, i] == u), np.mean(F[:, j] == v)
                        if puv > 0:
                            M[i, j] += puv * math.log(puv / (pu * pv))
        return M

    def path(ctx):
        ctx.resolve_masks = True
        W = [core.fresh_real('w') for _ in range(T)]
        for x in W:
            ctx.add(core.to_z3_real(x) > 0)
        if normalized_weights:
            ctx.add(core.to_z3_bool(sum(W[1:], W[0]) == 1))
        A = funcs.np_array(W, dtype=float)
        A0 = A.copy()
        Fs = SArr.from_typed(F.copy())
        exc = None
        try:
            m = mi_mod.weighted_mi(Fs, A, n_feature_states=list(n_states), normalize=False)
        except Exception as e:
            exc = e

        def witness(model):
            wc = np.array([float(ev(model, x)) for x in W])
            out = {'inputs': {'features': F.tolist(), 'weights': wc.tolist(), 'n_feature_states': list(n_states)}, 'skip_compare': True}
            n_el = max(n_states) ** 2 * nf * nf
            with core.concrete_mode():
                seen = poison_replay(lambda: mi_mod.weighted_mi(F.copy(), wc.copy(), n_feature_states=list(n_states), normalize=False), n_el, repeats=12)
                uni = None
                try:
                    uni = mi_mod.weighted_mi(F.copy(), np.full(T, 1.0 / T), n_feature_states=list(n_states), normalize=False)
                except Exception as e:
                    uni = e
            out['out'] = {'outcomes_observed': seen[:4]}
            bad = []
            excs = [x for x in seen if x.startswith("'EXC")]
            if excs:
                out['exception'] = excs[0][5:-1]
            if len(seen) > 1:
                bad.append('result-depends-on-heap-contents')
            elif excs:
                bad.append('raises ' + seen[0][5:-1])
            else:
                r = np.array(eval(seen[0]), dtype=float)
                if not np.allclose(r, r.T, atol=1e-12):
                    bad.append('result-not-symmetric')
            if isinstance(uni, Exception):
                bad.append('uniform weights raise ' + type(uni).__name__)
            elif not np.allclose(uni, np.clip(reference_uniform(), 0, None), atol=1e-9):
                bad.append('uniform-weights-result-differs-from-the-mutual-information-of-the-counts')
            out['violated'] = bad
            out['signature'] = 'weighted_mi:' + (bad[0] if bad else 'ok')
            return out
        if exc is not None:
            return PathOut([('no-exception-on-admissible-input', False)], {}, witness, exc=type(exc).__name__,
                           desc='raises %s: %s' % (type(exc).__name__, str(exc)[:100]))
        vals = [c if isinstance(c, SFloat) else core.as_sfloat(c) for c in m.cells()]
        indep, ng = independent_of_uninitialised(ctx, [v for v in vals if isinstance(v.v, z3.ExprRef) or isinstance(v.k, z3.ExprRef)])
        raw = _raw(m)
        obs = [('result-independent-of-uninitialised-memory', indep),
               ('result-is-symmetric', conj([feq(raw[i, j], raw[j, i]) for i in range(nf) for j in range(i + 1, nf)])),
               ('result-is-finite-and-non-negative', conj([core.sand(core.SBool.mk(core.as_sfloat(c).fin), core.as_sfloat(c) >= 0) for c in vals])),
               ('arguments-unmodified', conj([x == y for x, y in zip(A.cells(), A0.cells())]) and bool(np.array_equal(Fs.typed(), F)))]
        return PathOut(obs, {}, witness, desc='weighted_mi T=%d features=%d states=%s (uninitialised cells: %d)' % (T, nf, list(n_states), ng))
    return path


def pooled_job(T, ntraj=2, S=2, nsym=None):
    """mi_matrix over several trajectories computes MI from the POOLED counts (and no count table silently wraps)"""
    mi_mod = loader.load('enspara.info_theory.mutual_info')

    def path(ctx):
        ctx.resolve_masks = True
        ns = T if nsym is None else nsym
        trajs = [[core.fresh_int('s', 0, S - 1) if t < ns else 0 for t in range(T)] for _ in range(ntraj)]
        Xs = [funcs.np_array([[v] for v in tr], dtype=np.int32) for tr in trajs]
        exc = None
        try:
            mi = mi_mod.mi_matrix(Xs, Xs, [S], [S], normalize=False)
            pooled = None
            for X in Xs:
                j = spec_matrix_bincount2d(X, X, S, S).astype(np.int64)
                pooled = j if pooled is None else pooled + j
            ref = mi_mod.mutual_information(pooled)
        except Exception as e:
            exc = e

        def witness(model):
            tv = [[int(ev(model, v)) if isinstance(v, SVal) else int(v) for v in tr] for tr in trajs]
            out = {'inputs': {'trajectories': [''.join(map(str, tr)) for tr in tv]}, 'skip_compare': True, 'out': None}
            X2 = [np.array(tr, dtype=np.int32).reshape(-1, 1) for tr in tv]
            with core.concrete_mode():
                try:
                    m2 = mi_mod.mi_matrix(X2, X2, [S], [S], normalize=False)
                    pj = sum(spec_matrix_bincount2d(X, X, S, S).astype(np.int64) for X in X2)
                    r2 = mi_mod.mutual_information(pj)
                except Exception as e:
                    out.update(exception=repr(e), violated=['raises ' + type(e).__name__], signature='pooled:exception:' + type(e).__name__)
                    return out
            out['out'] = {'mi_matrix': m2.tolist(), 'mi_of_pooled_counts': r2.tolist()}
            out['violated'] = [] if np.allclose(m2, r2, rtol=1e-9, atol=1e-12) else ['multi-trajectory MI is not the MI of the pooled counts']
            out['signature'] = 'pooled:mi-differs-from-pooled-counts'
            return out
        if exc is not None:
            return PathOut([('no-exception', False)], {}, witness, exc=type(exc).__name__,
                           desc='raises %s: %s' % (type(exc).__name__, str(exc)[:100]))
        obs = [('multi-trajectory-MI-equals-MI-of-pooled-counts',
                conj([feq(x, y) for x, y in zip(cells(mi), cells(ref))]))]
        return PathOut(obs, {}, witness, desc='pooled counts: %d trajectories x %d frames' % (ntraj, T))
    return path


def lagged_job(T, S=2, F=2):
    """time-lagged mutual information: X and Y are overlapping VIEWS of one buffer (data[:-1], data[1:]), F features each.  The MI
    matrix must be the MI of the exact joint counts of (X_i, Y_j) for every ordered pair - it is not symmetric in general -
    and must not depend on whether X and Y share memory."""
    mi_mod = loader.load('enspara.info_theory.mutual_info')

    def path(ctx):
        ctx.resolve_masks = True
        data = [[core.fresh_int('s', 0, S - 1) for _ in range(F)] for _ in range(T)]
        D = funcs.np_array(data, dtype=np.int32)
        X, Y = D[:-1], D[1:]
        exc = None
        try:
            mi = mi_mod.mi_matrix([X], [Y], [S] * F, [S] * F, normalize=False)
            ref = mi_mod.mutual_information(spec_matrix_bincount2d(X.copy(), Y.copy(), S, S).astype(np.int64))
        except Exception as e:
            exc = e

        def witness(model):
            dv = [[int(ev(model, v)) for v in row] for row in data]
            out = {'inputs': {'frames': dv, 'X': 'frames[:-1]', 'Y': 'frames[1:]'}, 'skip_compare': True, 'out': None}
            D2 = np.array(dv, dtype=np.int32)
            with core.concrete_mode():
                try:
                    m_views = mi_mod.mi_matrix([D2[:-1]], [D2[1:]], [S] * F, [S] * F, normalize=False)
                    m_copies = mi_mod.mi_matrix([D2[:-1].copy()], [D2[1:].copy()], [S] * F, [S] * F, normalize=False)
                    r2 = mi_mod.mutual_information(spec_matrix_bincount2d(D2[:-1].copy(), D2[1:].copy(), S, S).astype(np.int64))
                except Exception as e:
                    out.update(exception=repr(e), violated=['raises ' + type(e).__name__], signature='lagged:exception:' + type(e).__name__)
                    return out
            out['out'] = {'mi_matrix_on_views': m_views.tolist(), 'mi_matrix_on_copies': m_copies.tolist(), 'mi_of_exact_counts': r2.tolist()}
            bad = []
            if not np.allclose(m_views, r2, rtol=1e-9, atol=1e-12):
                bad.append('time-lagged MI (overlapping views) is not the MI of the exact joint counts')
            if not np.allclose(m_views, m_copies, rtol=1e-9, atol=1e-12):
                bad.append('result depends on whether X and Y share memory')
            out['violated'] = bad
            out['signature'] = 'lagged:mi-differs-from-exact-counts'
            return out
        if exc is not None:
            return PathOut([('no-exception', False)], {}, witness, exc=type(exc).__name__,
                           desc='raises %s: %s' % (type(exc).__name__, str(exc)[:100]))
        obs = [('time-lagged-MI-equals-MI-of-the-exact-joint-counts', conj([feq(x, y) for x, y in zip(cells(mi), cells(ref))]))]
        return PathOut(obs, {}, witness, desc='time-lagged MI: %d frames x %d features' % (T, F))
    return path


def mismatch_job():
    """feature arrays of different lengths are rejected - also when several trajectories are given and the X/Y frame-count
    mismatches of the individual trajectories cancel in the total"""
    mi_mod = loader.load('enspara.info_theory.mutual_info')
    cases = [([2, 3], [3, 2]), ([1, 2], [2, 1]), ([2], [3])]

    def path(ctx):
        ctx.resolve_masks = True
        outcomes = []
        for lx, ly in cases:
            Xs = [funcs.np_array([[core.fresh_int('s', 0, 1)] for _ in range(n)], dtype=np.int32) for n in lx]
            Ys = [funcs.np_array([[core.fresh_int('s', 0, 1)] for _ in range(n)], dtype=np.int32) for n in ly]
            try:
                mi_mod.mi_matrix(Xs, Ys, [2], [2], normalize=False)
                outcomes.append((lx, ly, None))
            except (core.Unsupported, core.Inconclusive):
                raise
            except Exception as e:
                outcomes.append((lx, ly, type(e).__name__))

        def witness(model):
            out = {'inputs': {'cases (X frame counts, Y frame counts)': cases}, 'skip_compare': True, 'out': None}
            bad = []
            with core.concrete_mode():
                for lx, ly in cases:
                    X2 = [np.zeros((n, 1), dtype=np.int32) for n in lx]
                    Y2 = [np.ones((n, 1), dtype=np.int32) for n in ly]
                    try:
                        mi_mod.mi_matrix(X2, Y2, [2], [2], normalize=False)
                        bad.append('mi_matrix accepted trajectories whose X and Y frame counts differ: X %s, Y %s' % (lx, ly))
                    except Exception:
                        pass
            out['violated'] = bad
            out['signature'] = 'mismatched-lengths-accepted'
            return out
        obs = [('trajectories whose X and Y frame counts differ are rejected (X %s, Y %s)' % (lx, ly), exc is not None) for lx, ly, exc in outcomes]
        return PathOut(obs, {}, witness, desc='length mismatch cases %s' % (cases,))
    return path


def outofrange_job(nx=2, ny=3, T=2, xdt='int32', ydt='int32', hi=None):
    """state ids outside their OWN side's declared range are rejected by mi_matrix even when they would be legal for the other
    side (different state counts on the two sides); in-range data is accepted"""
    mi_mod = loader.load('enspara.info_theory.mutual_info')

    def path(ctx):
        ctx.resolve_masks = True
        top = hi if hi is not None else max(nx, ny)
        xs = [core.fresh_int('x', 0, top - 1) for _ in range(T)]
        ys = [core.fresh_int('y', 0, top - 1) for _ in range(T)]
        X = [funcs.np_array([[v] for v in xs], dtype=np.dtype(xdt))]
        Y = [funcs.np_array([[v] for v in ys], dtype=np.dtype(ydt))]
        exc = None
        try:
            mi_mod.mi_matrix(X, Y, [nx], [ny], normalize=False)
        except (core.Unsupported, core.Inconclusive):
            raise
        except Exception as e:
            exc = e
        inrange = core.sand(*([v < nx for v in xs] + [v < ny for v in ys]))

        def witness(model):
            xv, yv = [int(ev(model, v)) for v in xs], [int(ev(model, v)) for v in ys]
            out = {'inputs': {'X': xv, 'Y': yv, 'n_x': [nx], 'n_y': [ny], 'X.dtype': xdt, 'Y.dtype': ydt}, 'skip_compare': True, 'out': None}
            ok = all(v < nx for v in xv) and all(v < ny for v in yv)
            with core.concrete_mode():
                try:
                    mi_mod.mi_matrix([np.array([[v] for v in xv], dtype=np.dtype(xdt))], [np.array([[v] for v in yv], dtype=np.dtype(ydt))],
                                     [nx], [ny], normalize=False)
                    raised = None
                except Exception as e:
                    raised = type(e).__name__
                    out['exception'] = repr(e)
            bad = []
            if not ok and raised is None:
                bad.append('a state id outside its own side\'s range was counted instead of rejected')
                out['signature'] = 'out-of-range-id-accepted'
            if ok and raised is not None:
                bad.append('in-range data rejected with %s' % raised)
                out['signature'] = 'in-range-data-rejected'
            out['violated'] = bad
            return out
        if exc is not None:
            return PathOut([('only-out-of-range-ids-are-rejected', core.snot(inrange))], {}, witness, exc=type(exc).__name__,
                           desc='rejected with %s' % type(exc).__name__)
        return PathOut([('ids-outside-their-own-range-are-rejected', inrange)], {}, witness, desc='accepted')
    return path


def kl_job(n):
    en = loader.load('enspara.info_theory.entropy')

    def path(ctx):
        ctx.resolve_masks = True
        P = [core.fresh_real('p') for _ in range(n)]
        for x in P:
            ctx.add(core.to_z3_real(x) > 0)
        ctx.add(core.to_z3_bool(sum(P[1:], P[0]) == 1))
        A = funcs.np_array(P, dtype=float)
        A0 = A.copy()
        exc = None
        try:
            d = en.kl_divergence(A, A.copy())
        except Exception as e:
            exc = e

        def witness(model):
            pc = [float(ev(model, x)) for x in P]
            out = {'inputs': {'P': pc, 'Q': pc}}
            with core.concrete_mode():
                try:
                    d2 = en.kl_divergence(np.array(pc), np.array(pc))
                except Exception as e:
                    out.update(exception=repr(e), out=None, violated=['raises ' + type(e).__name__],
                               signature='exception:' + type(e).__name__)
                    return out
            out['out'] = float(d2)
            out['violated'] = [] if abs(float(d2)) < 1e-12 else ['KL(P,P)-not-zero']
            out['skip_compare'] = True
            return out
        if exc is not None:
            return PathOut([('no-exception', False)], {}, witness, exc=type(exc).__name__,
                           desc='raises %s: %s' % (type(exc).__name__, str(exc)[:100]))
        obs = [('relative-entropy-of-equal-distributions-is-zero', feq(d, 0.0)),
               ('inputs-unmodified', conj([x == y for x, y in zip(A.cells(), A0.cells())]))]
        return PathOut(obs, {}, witness, desc='kl_divergence(P,P) n=%d' % n)
    return path


def kl_general_job(n, pattern):
    """relative entropy of two different distributions with a fixed zero pattern: pattern[i] = (P_i is zero, Q_i is zero).
    log is abstracted to a real satisfying the tangent bounds 1 - 1/x <= log x <= x - 1 (strict away from 1), which is all
    Gibbs' inequality needs."""
    en = loader.load('enspara.info_theory.entropy')
    mismatch = any((not pz) and qz for pz, qz in pattern)

    def path(ctx):
        ctx.resolve_masks = True
        ctx.abstract_log = True
        ctx.log_bounds = True
        ctx.purify_div = True
        P = [0.0 if pz else core.fresh_real('p') for pz, qz in pattern]
        Q = [0.0 if qz else core.fresh_real('q') for pz, qz in pattern]
        for x in P + Q:
            if isinstance(x, core.SVal):
                ctx.add(core.to_z3_real(x) > 0)
        ctx.add(core.to_z3_bool(sum(P[1:], P[0]) == 1))
        ctx.add(core.to_z3_bool(sum(Q[1:], Q[0]) == 1))
        A, B = funcs.np_array(P, dtype=float), funcs.np_array(Q, dtype=float)
        A0, B0 = A.copy(), B.copy()
        exc = None
        try:
            d = en.kl_divergence(A, B)
        except Exception as e:
            exc = e

        def witness(model):
            pc = [float(ev(model, x)) if isinstance(x, core.SVal) else 0.0 for x in P]
            qc = [float(ev(model, x)) if isinstance(x, core.SVal) else 0.0 for x in Q]
            out = {'inputs': {'P': pc, 'Q': qc}, 'skip_compare': True}
            with core.concrete_mode():
                try:
                    d2 = float(en.kl_divergence(np.array(pc), np.array(qc)))
                except Exception as e:
                    out.update(exception=repr(e), out=None, violated=['raises ' + type(e).__name__],
                               signature='exception:' + type(e).__name__)
                    return out
            out['out'] = d2
            bad = []
            if mismatch:
                if d2 != float('inf'):
                    bad.append('relative entropy is not +inf although Q is zero where P is positive')
            else:
                if not d2 >= -1e-12:
                    bad.append('relative-entropy-negative')
                if abs(d2) < 1e-13 and max(abs(a - b) for a, b in zip(pc, qc)) > 1e-4:
                    bad.append('relative-entropy-zero-for-different-distributions')
            out['violated'] = bad
            return out
        if exc is not None:
            return PathOut([('no-exception', False)], {}, witness, exc=type(exc).__name__,
                           desc='raises %s: %s' % (type(exc).__name__, str(exc)[:100]))
        dd = core.as_sfloat(d if not isinstance(d, np.ndarray) else cells(d)[0])
        obs = []
        if mismatch:
            obs.append(('relative entropy is +inf when Q is zero somewhere P is positive', core.SBool.mk(dd.pinf)))
        else:
            obs.append(('relative-entropy-is-finite-and-non-negative', core.sand(core.SBool.mk(dd.fin), dd >= 0)))
            same = conj([x == y for x, y in zip(P, Q)])
            obs.append(('relative-entropy-zero-only-for-equal-distributions', core.sor(core.snot(dd == 0), same)))
        obs.append(('inputs-unmodified', conj([x == y for x, y in zip(A.cells() + B.cells(), A0.cells() + B0.cells())])))
        return PathOut(obs, {}, witness, desc='kl_divergence(P,Q) pattern=%s' % (pattern,))
    return path


def jobs(tier):
    J = []
    q = tier == 'quick'

    def add(func, name, **kw):
        J.append(dict(module='harness.C18', func=func, name=name, kwargs=kw, sig_prefix='info', deadline_s=250 if q else 1500,
                      timeout_ms=30000 if q else 120000))
    add('mi_perm_job', 'mi-relabel[2x2]', sa=2, sb=2)
    if not q:
        add('mi_perm_job', 'mi-relabel[2x3]', sa=2, sb=3)
    for S in ((2,) if q else (2, 3)):
        add('mi_diag_job', 'mi-diagonal[S=%d]' % S, S=S)
    add('mi_nonneg_job', 'mi>=0[2x2, 12 observations]', sa=2, sb=2, total=12)
    add('mi_nonneg_job', 'mi>=0[2x2, 1000 observations]', sa=2, sb=2, total=1000)
    add('mi_nonneg_job', 'mi>=0[2x2, one empty cell]', sa=2, sb=2, zero_cells=((0, 1),))
    add('mi_nonneg_job', 'mi>=0[2x2, diagonal]', sa=2, sb=2, zero_cells=((0, 1), (1, 0)))
    if not q:
        add('mi_nonneg_job', 'mi>=0[2x2]', sa=2, sb=2)
        add('mi_nonneg_job', 'mi>=0[2x3]', sa=2, sb=3)
        add('mi_nonneg_job', 'mi>=0[3x3, band]', sa=3, sb=3, zero_cells=((0, 2), (2, 0)))
    shapes = [([2], [2]), ([2, 3], [3, 2]), ([2, 3], [2, 3]), ([3, 2], [4, 4]), ([2, 3, 4], [3, 3, 2]), ([2, 3], [2, 3, 4]),
              ([2], [3, 4]), ([4, 2, 3], [2])]
    for nx, ny in shapes:
        add('norm_job', 'normalization[%s,%s]' % (nx, ny), nx=nx, ny=ny)
    for n in (2, 3):
        add('kl_job', 'kl-self[n=%d]' % n, n=n)
    FF, TF, FT, TT = (False, False), (True, False), (False, True), (True, True)
    pats = [(FF, FF), (FF, TF), (FF, FT), (TF, FT), (FF, FF, FF), (FF, FF, TF), (FF, FF, FT), (FF, TF, FT), (FF, FF, TT)]
    if not q:
        pats += [(FF, FF, FF, FF), (FF, FF, TF, FT), (FF, TF, TF), (FF, FT, FT)]
    for pat in pats:
        tag = ','.join(('0' if pz else 'p') + ('0' if qz else 'q') for pz, qz in pat)
        add('kl_general_job', 'kl[P vs Q: %s]' % tag, n=len(pat), pattern=pat)
    # weighted estimator: a state that a feature never takes (zero marginal) is where masked ufuncs leave cells unwritten
    add('weighted_mi_job', 'weighted-mi[3 frames,states 2/2]', features=[[0, 0], [1, 1], [0, 1]], n_states=(2, 2))
    add('weighted_mi_job', 'weighted-mi[3 frames,states 2/3, one state never taken]', features=[[0, 0], [1, 2], [0, 2]], n_states=(2, 3))
    add('weighted_mi_job', 'weighted-mi[unnormalised weights]', features=[[0, 1], [1, 0], [1, 1]], n_states=(2, 2), normalized_weights=False)
    add('lagged_job', 'time-lagged-mi[3 frames x 2 features, overlapping views]', T=3)
    if not q:
        add('lagged_job', 'time-lagged-mi[4 frames x 2 features, overlapping views]', T=4)
    add('mismatch_job', 'length-mismatch-rejected[per trajectory, also when the totals agree]')
    add('outofrange_job', 'out-of-range-ids[states 2 vs 3]', nx=2, ny=3, T=2)
    add('outofrange_job', 'out-of-range-ids[states 3 vs 2]', nx=3, ny=2, T=2)
    # feature arrays of DIFFERENT integer types and ids far outside the range (an id that would be legal after wrapping in a narrower type)
    add('outofrange_job', 'out-of-range-ids[states 2 vs 3, int64 vs int32, ids < 600]', nx=2, ny=3, T=2, xdt='int64', ydt='int32', hi=600)
    add('outofrange_job', 'out-of-range-ids[states 3 vs 3, int16 vs int64, ids < 30000]', nx=3, ny=3, T=1, xdt='int16', ydt='int64', hi=30000)
    add('pooled_job', 'pooled-counts[2 trajectories x 3 frames]', T=3)
    add('pooled_job', 'pooled-counts[2 x 130 frames (2 symbolic each): count tables must not wrap in a narrow dtype]', T=130, nsym=2)
    from harness import kernels
    J += kernels.jobs_for('C18', tier)
    return J
