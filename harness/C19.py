"""C19  Results depend on arguments only, not on history, threads or heap contents."""
import ast
import os

from harness import C18

META = {
    'files': ['enspara/info_theory/entropy.py', 'enspara/info_theory/mutual_info.py', 'enspara/msm/builders.py',
              'enspara/msm/transition_matrices.py', 'enspara/tpt/core.py', 'enspara/tpt/tpt.py', 'enspara/tpt/path.py',
              'enspara/cluster/util.py', 'enspara/geometry/libdist.pyx', 'enspara/info_theory/libinfo.pyx', 'enspara/ra/ra.py'],
    'functions': ['enspara.info_theory.entropy.shannon_entropy', 'enspara.info_theory.mutual_info.mutual_information',
                  'every masked ufunc call without out= and every np.empty* found by the AST scan of the anchored files',
                  'prange loops of libdist / libinfo (E2 iteration-independence obligations)',
                  'enspara.cluster.util.assign_to_nearest_center / KCenters.predict (arguments and metric results not written)'],
    'bounds': {'quick': 'shannon_entropy: length<=3 with 0..2 zero entries; mutual_information: 1x2 feature pairs of 2x2 tables with '
                        'and without an unobserved pair; kernels: see C13/C18 evidence',
               'thorough': 'same, larger tables'},
    'stubs': ['memory NumPy does not initialise (np.empty*, masked ufunc without out=) = fresh cells of arbitrary kind '
              '(finite / +inf / -inf / NaN)'],
    'assumptions': ['input immutability and determinism of the other routines are obligations of the harnesses C01-C17 '
                    '(each asserts its inputs unchanged; their executions contain no uninitialised cell unless listed here)'],
    'outside': ['worker processes (C15 disjoint-window argument)', 'allocator behaviour itself'],
}

def preload():
    C18.preload()
    from harness import C04
    C04.preload()


def scan_sites():
    """every ufunc call with where= and no out=, and every np.empty*, in the anchored Python files"""
    repo = os.environ.get('VERIF_REPO', '/repo')
    sites = []
    for rel in META['files']:
        if not rel.endswith('.py'):
            continue
        try:
            tree = ast.parse(open(os.path.join(repo, rel)).read())
        except (OSError, SyntaxError):
            continue
        funcs = {}
        for node in ast.walk(tree):
            if isinstance(node, ast.FunctionDef):
                for sub in ast.walk(node):
                    funcs[id(sub)] = node.name
        for node in ast.walk(tree):
            if isinstance(node, ast.Call):
                kws = {k.arg for k in node.keywords}
                name = ast.unparse(node.func)
                if 'where' in kws and 'out' not in kws and name.startswith('np.'):
                    sites.append({'file': rel, 'line': node.lineno, 'call': name, 'kind': 'masked-ufunc-without-out',
                                  'function': funcs.get(id(node), '<module>')})
                if name in ('np.empty', 'np.empty_like', 'numpy.empty', 'numpy.empty_like'):
                    sites.append({'file': rel, 'line': node.lineno, 'call': name, 'kind': 'np.empty',
                                  'function': funcs.get(id(node), '<module>')})
    return sites


HARNESSED = {'shannon_entropy', 'mutual_information', 'weighted_mi', 'assign_to_nearest_center', 'distribute_frame', '_row_normalize'}


def jobs(tier):
    J = []
    q = tier == 'quick'

    def add(func, name, **kw):
        J.append(dict(module='harness.C18', func=func, name=name, kwargs=kw, sig_prefix='uninit', deadline_s=250 if q else 1500,
                      timeout_ms=30000 if q else 120000))
    for n, z in ((2, 0), (2, 1), (3, 1), (3, 2)):
        for norm in (True, False):
            add('entropy_job', 'shannon_entropy[n=%d,zeros=%d,normalize=%s]' % (n, z, norm), n=n, zeros=z, normalize=norm)
    add('mi_garbage_job', 'mutual_information[all-pairs-observed]', empty_pair=False)
    add('mi_garbage_job', 'mutual_information[one-pair-unobserved]', empty_pair=True)
    add('weighted_mi_job', 'weighted_mi[3 frames,states 2/2]', features=[[0, 0], [1, 1], [0, 1]], n_states=(2, 2))
    add('weighted_mi_job', 'weighted_mi[3 frames,states 2/3, one state never taken]', features=[[0, 0], [1, 2], [0, 2]], n_states=(2, 3))
    add('weighted_mi_job', 'weighted_mi[3 features, states 2/3/2]', features=[[0, 0, 1], [1, 2, 0], [0, 2, 1]], n_states=(2, 3, 2))
    # arguments are not mutated: integer index ARRAYS handed to RaggedArray fancy indexing (negative entries are normalised
    # internally - on a copy)
    for lv, wr in (((2, 1), False), ((1, 3, 2), False), ((2, 2), True)):
        J.append(dict(module='harness.ragged', func='index_args_job', name='ragged-index-arguments[%s,%s]' % (list(lv), 'write' if wr else 'read'),
                      kwargs=dict(lengths=lv, write=wr), sig_prefix='uninit', deadline_s=250 if q else 1500))
    for n in (2, 3):
        for which in ('normalize', 'transpose'):
            J.append(dict(module='harness.C04', func='builder_job', name='%s[n=%d,zero rows allowed]' % (which, n),
                          kwargs=dict(which=which, n=n, eq=False, zero_rows=True), sig_prefix='uninit', deadline_s=250 if q else 1500,
                          timeout_ms=30000 if q else 120000, tol=1e-5))
    # cluster/util.py: assign_to_nearest_center / predict must not write into the arrays the metric hands back (a metric may
    # return views of its own distance table: writing there changes the answer of the NEXT call) and must not modify their arguments
    for N_, K_ in ((2, 2), (3, 2), (2, 3)) + (() if q else ((4, 3), (3, 4))):
        J.append(dict(module='harness.C10', func='assign_job', name='assign_to_nearest_center[N=%d,K=%d]' % (N_, K_), kwargs=dict(N=N_, K=K_),
                      sig_prefix='uninit', deadline_s=250 if q else 1500))
    J.append(dict(module='harness.C10', func='assign_job', name='predict[N=3,K=2]', kwargs=dict(N=3, K=2, entry='predict'),
                  sig_prefix='uninit', deadline_s=250 if q else 1500))
    # msm/transition_matrices.py: trim_disconnected (both renumbering modes) leaves the caller's count matrix alone
    for rn in (True, False):
        J.append(dict(module='harness.C11', func='trim_job', name='trim_disconnected[n=2,renumber_states=%s]' % rn, kwargs=dict(n=2, renumber=rn, form='dense'),
                      sig_prefix='uninit', deadline_s=250 if q else 1500))
    # tpt/: results depend on the arguments of THIS call only - the same array objects analysed before with other contents
    J.append(dict(module='harness.tptjobs', func='flux_job', name='tpt-fluxes[n=3,arrays re-used after an earlier analysis]',
                  kwargs=dict(n=3, sources=[0], sinks=[2], reuse=True), sig_prefix='uninit', deadline_s=250 if q else 1500,
                  timeout_ms=40000 if q else 300000, tol=1e-5))
    from harness import kernels
    J += kernels.jobs_for('C19', tier)
    return J


def main(tier):
    from harness import common
    sites = scan_sites()
    unc = [s for s in sites if s['function'] not in HARNESSED]
    meta = dict(META)
    meta['stubs'] = META['stubs'] + ['AST scan: %d uninitialised-output sites found: %s' % (
        len(sites), '; '.join('%s:%d %s in %s' % (s['file'], s['line'], s['call'], s['function']) for s in sites))]
    for s in unc:
        print('INCONCLUSIVE property=C19 uncovered site %s:%d %s in %s() is not executed by any harness' %
              (s['file'], s['line'], s['call'], s['function']))
    return common.run_property('C19', jobs(tier), meta, tier)
