"""CLI: check <Cxx> [--tier quick|thorough] | replay <file>"""
import argparse
import importlib
import json
import os
import sys

VERIF = os.path.dirname(os.path.dirname(os.path.abspath(__file__)))
sys.path.insert(0, VERIF)


def main():
    ap = argparse.ArgumentParser()
    ap.add_argument('what')
    ap.add_argument('arg', nargs='?')
    ap.add_argument('--tier', default=os.environ.get('VERIF_TIER', 'quick'), choices=['quick', 'thorough'])
    ap.add_argument('--only', default=None, help='substring filter on job names (debugging)')
    a = ap.parse_args()
    from harness import common
    if a.what == 'replay':
        d = json.load(open(a.arg))
        spec = d['replay_spec']
        mod = importlib.import_module(spec['module'])
        rep = getattr(mod, 'replay', None)
        if rep is None:
            from harness.common import generic_replay as rep
        ok = rep(spec, d)
        sys.exit(1 if ok else 0)
    prop = a.what
    mod = importlib.import_module('harness.' + prop)
    if hasattr(mod, 'main'):
        sys.exit(mod.main(a.tier))
    jobs = mod.jobs(a.tier)
    if a.only:
        jobs = [j for j in jobs if a.only in j['name']]
    sys.exit(common.run_property(prop, jobs, mod.META, a.tier))


if __name__ == '__main__':
    main()
