"""CLI: check <Cxx> [--tier quick|thorough] | replay <file>"""
import argparse
import importlib
import json
import os
import sys

VERIF = os.path.dirname(os.path.dirname(os.path.abspath(__file__)))
sys.path.insert(0, VERIF)


def main():
    ap = argparse.ArgumentParser()
    ap.add_argument('what')
    ap.add_argument('arg', nargs='?')
    ap.add_argument('--tier', default=os.environ.get('VERIF_TIER', 'quick'), choices=['quick', 'thorough'])
    ap.add_argument('--only', default=None, help='substring filter on job names (debugging)')
    a = ap.parse_args()
    from harness import common
    if a.what == 'replay':
        d = json.load(open(a.arg))
        spec = d['replay_spec']
        mod = importlib.import_module(spec['module'])
        rep = getattr(mod, 'replay', None)
        if rep is not None:
            sys.exit(1 if rep(spec, d) else 0)
        # generic replay: re-run the one job the record names on the CURRENT tree (solver search + replay of its
        # counterexamples on the real code) and report whether a violation with the recorded signature shows up again
        prop = d.get('property')
        pmod = importlib.import_module('harness.' + prop)
        job = None
        for tier in ('quick', 'thorough'):
            for j in pmod.jobs(tier):
                if j['name'] == d.get('job'):
                    job = j
                    break
            if job:
                break
        print('recorded counterexample (%s, job %s):' % (d.get('signature'), d.get('job')))
        print(json.dumps({'inputs': d.get('inputs'), 'violated': d.get('violated'), 'exception': d.get('exception')}, indent=1)[:2000])
        if job is None:
            print('job not found in the current harness; nothing re-run')
            sys.exit(2)
        res = common.run_jobs_hard([job])
        again = [v for r in res for v in r.get('violations', []) if v.get('signature') == d.get('signature')]
        other = [v for r in res for v in r.get('violations', []) if v.get('signature') != d.get('signature')]
        if again:
            print('REPRODUCED on the current tree: %s  inputs=%s' % (again[0]['signature'], json.dumps(again[0].get('inputs'))[:600]))
            sys.exit(1)
        print('NOT REPRODUCED on the current tree (%d other violation(s) in this job)' % len(other))
        sys.exit(1 if other else 0)
    prop = a.what
    mod = importlib.import_module('harness.' + prop)
    if hasattr(mod, 'main'):
        sys.exit(mod.main(a.tier))
    jobs = mod.jobs(a.tier)
    if a.only:
        jobs = [j for j in jobs if a.only in j['name']]
    sys.exit(common.run_property(prop, jobs, mod.META, a.tier))


if __name__ == '__main__':
    main()
