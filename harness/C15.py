"""C15  Stored and bulk-loaded data come back identical (decidable core, with I/O stubs)."""
import itertools
import math
import os
import tempfile

import numpy as np
import z3

from symnp import core, loader, funcs, stubs, stubs_io
from symnp.core import SVal, ite, sand, sor, snot
from symnp.arr import SArr, _raw
from harness.common import PathOut, ev
from harness.cluster import conj, cells, run_oracle

META = {
    'files': ['enspara/ra/ra.py', 'enspara/util/load.py', 'enspara/mpi/io.py'],
    'functions': ['enspara.ra.ra.save', 'enspara.ra.ra.load', 'enspara.util.load.load_as_concatenated / _load_to_position / '
                  'sound_trajectory / shared_array_like_trj / _tonumpyarray / _init', 'enspara.mpi.io.load_npy_as_striped / '
                  'load_h5_as_striped (world size 1)'],
    'bounds': {'quick': 'save/load: R in {1,2,3,9,10,11,12} rows (crossing the 9->10 digit boundary of the key names), row lengths cycling '
                        '1..3, symbolic cells, int64 and float64, stride 1..3, key subsets, a path that already holds an earlier save (6->3, 12->3, 3->12, 2->2 rows); sound_trajectory: UNBOUNDED frame count, stride '
                        '1..8; parallel load: <=3 files of <=3 frames (<=5 files when several carry frame=), stride 1..2, frame=, atom selection, both task orders, lengths hint '
                        'none/right/wrong; striped npy/h5 loading: <=3 files, stride 1..2',
               'thorough': 'R up to 101 (99->100 boundary); parallel loads of up to 4 files (length<=5), stride<=3; striped loads of up to 4 files; sound_trajectory stride<=32'},
    'stubs': ['tables = in-memory store whose list_nodes() returns children sorted by name, with open modes w / a / r, root membership, duplicate-name '
              'rejection and remove_node (all checked against real PyTables at run time)',
              'mdtraj.load/open = in-memory trajectories honouring stride / frame / atom_indices', 'multiprocessing.Pool = in-process '
              'task runner executing the tasks forward or in reverse order; multiprocessing.Array = shared array',
              'math.ceil on a symbolic real = the integer c with c-1 < x <= c'],
    'assumptions': ['PyTables stores and returns values and dtypes unchanged (HDF5/zlib byte fidelity is outside the claim)',
                    'a parallel load is order-independent if it is the same for the forward and the reverse task order and the windows '
                    'written by the tasks are pairwise disjoint (checked)'],
    'outside': ['HDF5 / zlib byte fidelity, dtype preservation by PyTables, compression levels', "mdtraj's parsers and atom selection language",
                'real multiprocessing scheduling and shared memory', 'old-style (array + lengths) files'],
}


def preload():
    loader.load('enspara.ra.ra')
    loader.load('enspara.util.load')
    loader.load('enspara.mpi.ops')
    loader.load('enspara.mpi.io')


def conformance_listing_order():
    """trusted-base check: real PyTables lists nodes sorted by name, like the stub"""
    import tables
    d = tempfile.mkdtemp(prefix='c15_', dir='/dev/shm' if os.path.isdir('/dev/shm') else None)
    try:
        fn = os.path.join(d, 'x.h5')
        names = ['arr_%s' % str(i).zfill(3) for i in (11, 2, 10, 0, 9, 1, 100)] + ['b', 'arr_1', 'a_9']
        with tables.open_file(fn, 'w') as h:
            for n in names:
                h.create_carray('/', n, obj=np.zeros(1))
        with tables.open_file(fn) as h:
            got = [k.name for k in h.list_nodes('/')]
            got2 = [k.name for k in h.iter_nodes('/')]
        return got == sorted(names) and got2 == sorted(names), got
    finally:
        import shutil
        shutil.rmtree(d, ignore_errors=True)


def conformance_open_modes():
    """trusted-base check: the open modes / node management of the store stub against real PyTables - the same script is run
    on both and must give the same observations"""
    import tables

    def script(open_file, fn, mkarr):
        obs = []
        with open_file(fn, 'w') as h:
            h.create_carray('/', 'arr_0', obj=None, atom=tables.Atom.from_dtype(np.dtype('int64')), shape=(2,))
            h.create_carray('/', 'arr_1', obj=None, atom=tables.Atom.from_dtype(np.dtype('int64')), shape=(1,))
        with open_file(fn, 'a') as h:                      # append keeps the nodes
            obs.append(sorted(k.name for k in h.list_nodes('/')))
            obs.append(('arr_0' in h.root, 'arr_7' in h.root))
            try:
                h.create_carray('/', 'arr_1', obj=None, atom=tables.Atom.from_dtype(np.dtype('int64')), shape=(1,))
                obs.append('created twice')
            except tables.NodeError:
                obs.append('NodeError')
            h.remove_node(h.root, 'arr_1')
            h.create_carray('/', 'arr_2', obj=None, atom=tables.Atom.from_dtype(np.dtype('int64')), shape=(3,))
            obs.append(sorted(k.name for k in h.list_nodes('/')))
        with open_file(fn, 'w') as h:                      # write truncates
            obs.append(sorted(k.name for k in h.list_nodes('/')))
        with open_file(fn + '.new', 'a') as h:             # append creates a missing file
            obs.append(sorted(k.name for k in h.list_nodes('/')))
        try:
            open_file(fn + '.missing', 'r')
            obs.append('opened a missing file')
        except (IOError, OSError):
            obs.append('IOError')
        return obs
    d = tempfile.mkdtemp(prefix='c15_', dir='/dev/shm' if os.path.isdir('/dev/shm') else None)
    try:
        real = script(tables.open_file, os.path.join(d, 'm.h5'), None)
        stubs_io.reset()
        fake = script(lambda f, m='r': stubs_io._Handle(f, m), 'modes.h5', None)
        return real == fake, (real, fake)
    finally:
        import shutil
        shutil.rmtree(d, ignore_errors=True)


def rows_for(R, dtype, sym):
    rows = []
    for i in range(R):
        n = 1 + (i % 3)
        if sym:
            rows.append([core.fresh_int('e') if dtype == 'int64' else core.fresh_real('e') for _ in range(n)])
        else:
            rows.append([(i * 7 + j) if dtype == 'int64' else (i * 7 + j) / 4.0 for j in range(n)])
    return rows


def saveload_job(R, dtype='int64', stride=1, subset=None, rect=False, prior=0):
    """prior: number of rows of ANOTHER array saved to the same path before (a file is rewritten, not merged)"""
    def path(ctx):
        ra = loader.load('enspara.ra.ra')
        stubs_io.USE_FAKE[0] = True
        stubs_io.reset()
        rows = rows_for(R, dtype, True)
        if rect:
            rows = [r[:1] + r[:1] for r in rows]
        a = ra.RaggedArray([funcs.np_array(r, dtype=dtype) for r in rows])
        exc = None
        try:
            if prior:
                ra.save('mem.h5', ra.RaggedArray([funcs.np_array([7] * (1 + i % 3), dtype=dtype) for i in range(prior)]))
            ra.save('mem.h5', a)
            names = sorted(stubs_io.STORE['mem.h5'])
            keys = Ellipsis if subset is None else [names[i] for i in subset]
            b = ra.load('mem.h5', keys=keys, stride=stride)
        except Exception as e:
            exc = e
        finally:
            stubs_io.USE_FAKE[0] = False
        sel = list(range(R)) if subset is None else list(subset)
        want = [rows[i][::stride] for i in sel]

        def result_rows(b_):
            if hasattr(b_, '_array'):
                return [list(cells(r)) if isinstance(r, SArr) else list(np.asarray(r).tolist()) for r in b_._array], 'ra', b_.dtype
            return [list(cells(b_)) if isinstance(b_, SArr) else np.asarray(b_).tolist()], 'ndarray', b_.dtype

        def witness(model):
            """real PyTables round trip in a scratch file"""
            vals = [[(int(ev(model, c)) if dtype == 'int64' else float(ev(model, c))) for c in r] for r in rows]
            out = {'inputs': {'rows': R, 'dtype': dtype, 'stride': stride, 'subset': subset, 'values': vals[:4],
                              'rows saved to the same path before': prior}, 'skip_compare': True}
            d = tempfile.mkdtemp(prefix='c15_', dir='/dev/shm' if os.path.isdir('/dev/shm') else None)
            try:
                with core.concrete_mode():
                    a2 = ra.RaggedArray([np.array(r, dtype=dtype) for r in vals])
                    fn = os.path.join(d, 'w.h5')
                    try:
                        if prior:
                            ra.save(fn, ra.RaggedArray([np.array([7] * (1 + i % 3), dtype=dtype) for i in range(prior)]))
                        ra.save(fn, a2)
                        import tables
                        with tables.open_file(fn) as h:
                            names2 = [k.name for k in h.list_nodes('/')]
                        keys2 = Ellipsis if subset is None else [names2[i] for i in subset]
                        b2 = ra.load(fn, keys=keys2, stride=stride)
                        got, kind, dt = result_rows(b2)
                    except Exception as e:
                        out.update(exception=repr(e), out=None, violated=['raises ' + type(e).__name__],
                                   signature='saveload:exception:' + type(e).__name__)
                        return out
                w2 = [vals[i][::stride] for i in sel]
                bad = []
                if got != w2:
                    bad.append('loaded rows differ from saved rows (order / values / stride)')
                if str(dt) != dtype:
                    bad.append('element type changed')
                if not bad and stride > 1 and subset is None:
                    # the same scenario with rows longer than a real PyTables chunk (the store stub uses 2-row chunks)
                    with core.concrete_mode():
                        big = [np.arange(16384 + 5, dtype=dtype), np.arange(10000, dtype=dtype) + 7]
                        fn2 = os.path.join(d, 'big.h5')
                        try:
                            ra.save(fn2, ra.RaggedArray(big))
                            b3 = ra.load(fn2, stride=stride)
                            g3 = [np.asarray(r).tolist() for r in b3._array]
                            if g3 != [r[::stride].tolist() for r in big]:
                                bad.append('loaded rows differ from saved rows (rows longer than one storage chunk, stride %d)' % stride)
                        except Exception as e:
                            bad.append('load of rows longer than one storage chunk raises %s' % type(e).__name__)
                out['out'] = got[:4]
                out['violated'] = bad
                return out
            finally:
                import shutil
                shutil.rmtree(d, ignore_errors=True)
        if exc is not None:
            return PathOut([('no-exception', False)], {}, witness, exc=type(exc).__name__,
                           desc='raises %s: %s' % (type(exc).__name__, str(exc)[:100]))
        got, kind, dt = result_rows(b)
        obs = [('number-and-lengths-of-rows', [len(r) for r in got] == [len(r) for r in want]),
               ('element-type-kept', str(dt) == dtype)]
        if obs[0][1]:
            obs.append(('values-in-row-order(stride / key subset = slicing the full load)',
                        conj([x == y for rg, rw in zip(got, want) for x, y in zip(rg, rw)])))
        obs.append(('ragged-array-when-more-than-one-key', kind == ('ra' if len(sel) > 1 else 'ndarray')))
        return PathOut(obs, {}, witness, desc='save/load R=%d stride=%d subset=%s' % (R, stride, subset))
    return path


def sound_job(stride):
    """sound_trajectory(file, stride) == number of frames md.load(file, stride=stride) returns, for ANY frame count"""
    def path(ctx):
        ul = loader.load('enspara.util.load')
        stubs_io.USE_FAKE[0] = True
        n = core.fresh_int('nframes', 0, None)

        class F:
            def __enter__(s): return s
            def __exit__(s, *a): return False
            def __len__(s): raise TypeError('use n')
        md_proxy = vars(ul)['md']
        orig = md_proxy.open

        class Opened:
            def __enter__(s): return s
            def __exit__(s, *a): return False
        # len() must return an int: the stub file reports its (symbolic) length through __len__ -> not possible;
        # sound_trajectory calls len(f): give it a length object via the module-level len override
        try:
            res = None
            saved_len = vars(ul).get('len')
            vars(ul)['len'] = lambda f: n if isinstance(f, Opened) else len(f)
            md_proxy.open = lambda fn, *a, **k: Opened()
            res = ul.sound_trajectory('any.xtc', stride=stride)
        finally:
            md_proxy.open = orig
            if saved_len is None:
                vars(ul).pop('len', None)
            else:
                vars(ul)['len'] = saved_len
            stubs_io.USE_FAKE[0] = False
        # definition: frames 0, s, 2s, ... below n  ->  count c with (c-1)*s < n <= c*s  (c = 0 iff n = 0)
        c = res
        obs = [('length-of-strided-trajectory-is-ceil(n/stride)', sand(c * stride >= n, (c - 1) * stride < n, c >= 0))]
        return PathOut(obs, {}, None, desc='sound_trajectory stride=%d' % stride)
    return path


def parload_job(lens, stride=1, hint='none', atoms=None, frame_for=None, as_args=False, strides=None):
    # strides: one stride PER FILE, passed in the per-file form args=[{'stride': s0}, {'stride': s1}, ...] (None entry = no stride key)
    lens = list(lens)
    # frame_for: index of the file loaded with frame=1 (a single frame), or a tuple of such indices
    ff = () if frame_for is None else ((frame_for,) if isinstance(frame_for, int) else tuple(frame_for))

    def setup(sym):
        stubs_io.reset()
        files = []
        data = []
        for i, n in enumerate(lens):
            if sym:
                x = funcs.np_array([[[core.fresh_real('x') for _ in range(3)] for _ in range(2)] for _ in range(n)], dtype=np.float32)
            else:
                x = (np.arange(n * 6, dtype=np.float32).reshape(n, 2, 3) + 100 * i)
            fn = 'trj%d.xtc' % i
            stubs_io.TRAJ[fn] = x
            files.append(fn)
            data.append(x)
        return files, data

    def call(ul, files, order):
        stubs_io.POOL_ORDER[0] = order
        kw = {}
        if stride != 1:
            kw['stride'] = stride
        if atoms is not None:
            kw['atom_indices'] = list(atoms)
        args = None
        if frame_for is not None:
            args = [dict(kw, frame=1) if i in ff else dict(kw) for i in range(len(files))]
            kw = {}
        elif strides is not None:
            args = [dict(kw, **({} if s_ is None else {'stride': s_})) for s_ in strides]
            kw = {}
        elif as_args:
            # the per-file form args=[{...}, ...] (what load_trajectory_as_striped and cluster/util.py pass) instead of keyword arguments
            args = [dict(kw) for _ in files]
            kw = {}
        true_l = [1 if (i in ff) else len(range(0, n, (strides[i] or 1) if strides is not None else stride)) for i, n in enumerate(lens)]
        lh = None
        if hint == 'right':
            lh = list(true_l)
        elif hint == 'wrong':
            lh = list(true_l)
            lh[-1] += 1
        return ul.load_as_concatenated(files, lengths=lh, processes=2, args=args, **kw), true_l

    def expected(data):
        out = []
        for i, x in enumerate(data):
            y = x[1:2] if i in ff else x[::((strides[i] or 1) if strides is not None else stride)]
            if atoms is not None:
                y = y[:, list(atoms)]
            out.append(y)
        return out

    def path(ctx):
        ul = loader.load('enspara.util.load')
        stubs_io.USE_FAKE[0] = True
        files, data = setup(True)
        exc = None
        res = {}
        try:
            for order in ('forward', 'reverse'):
                (lengths, xyz), true_l = call(ul, files, order)
                res[order] = (list(lengths), xyz)
        except Exception as e:
            exc = e
        finally:
            stubs_io.USE_FAKE[0] = False
            stubs_io.POOL_ORDER[0] = 'forward'

        def witness(model):
            out = {'inputs': {'frames': lens, 'stride': stride, 'lengths_hint': hint, 'atoms': atoms, 'frame_for': frame_for},
                   'skip_compare': True, 'out': None}
            stubs_io.USE_FAKE[0] = True
            try:
                with core.concrete_mode():
                    files2, data2 = setup(False)
                    try:
                        r2 = {}
                        for order in ('forward', 'reverse'):
                            (l2, x2), tl = call(ul, files2, order)
                            r2[order] = (list(l2), np.array(x2))
                    except Exception as e:
                        ok = hint == 'wrong' and type(e).__name__ in ('DataInvalid', 'ValueError')
                        out.update(exception=repr(e), violated=[] if ok else ['raises ' + type(e).__name__],
                                   signature='parload:exception:' + type(e).__name__)
                        return out
                    bad = []
                    if hint == 'wrong':
                        bad.append('wrong-lengths-hint-accepted')
                    want = np.concatenate(expected(data2))
                    if r2['forward'][0] != tl:
                        bad.append('lengths-wrong')
                    if r2['forward'][1].shape != want.shape or not np.array_equal(r2['forward'][1], want):
                        bad.append('result-is-not-the-concatenation-in-file-order')
                    if not np.array_equal(r2['forward'][1], r2['reverse'][1]) or r2['reverse'][0] != tl:
                        bad.append('result-depends-on-task-order')
                    out['violated'] = bad
                    return out
            finally:
                stubs_io.USE_FAKE[0] = False
                stubs_io.POOL_ORDER[0] = 'forward'
        if exc is not None:
            ok = hint == 'wrong' and type(exc).__name__ in ('DataInvalid', 'ValueError')
            return PathOut([('wrong-hint-rejected' if ok else 'no-exception', ok)], {}, witness, exc=type(exc).__name__,
                           desc='raises %s: %s' % (type(exc).__name__, str(exc)[:100]))
        obs = []
        if hint == 'wrong':
            obs.append(('wrong-lengths-hint-rejected', False))
        want = expected(data)
        wflat = [c for w in want for c in w.cells()]
        lw = [w.shape[0] for w in want]
        for order in ('forward', 'reverse'):
            lengths, xyz = res[order]
            obs.append(('%s: lengths' % order, [int(x) for x in lengths] == lw))
            got = list(cells(xyz))
            obs.append(('%s: concatenation in file order of the individually loaded trajectories' % order,
                        conj([x == y for x, y in zip(got, wflat)]) if len(got) == len(wflat) else False))
        starts = [sum(lw[:i]) for i in range(len(lw))]
        obs.append(('windows-pairwise-disjoint-and-covering', all(starts[i] + lw[i] == (starts[i + 1] if i + 1 < len(lw) else sum(lw))
                                                               for i in range(len(lw)))))
        return PathOut(obs, {}, witness, desc='load_as_concatenated frames=%s stride=%d hint=%s' % (lens, stride, hint))
    return path


def striped_job(kind, lens, stride=1):
    lens = list(lens)

    def path(ctx):
        io = loader.load('enspara.mpi.io')
        ra = loader.load('enspara.ra.ra')
        stubs_io.USE_FAKE[0] = True
        stubs_io.reset()
        rows = [[core.fresh_int('e') for _ in range(n)] for n in lens]
        exc = None
        try:
            if kind == 'npy':
                names = ['f%d.npy' % i for i in range(len(lens))]
                for nm, r in zip(names, rows):
                    stubs_io.NPY[nm] = funcs.np_array(r, dtype=np.int64)
                gl, data = io.load_npy_as_striped(names, stride=stride)
            else:
                a = ra.RaggedArray([funcs.np_array(r, dtype=np.int64) for r in rows])
                ra.save('s.h5', a)
                gl, data = io.load_h5_as_striped('s.h5', stride=stride)
        except Exception as e:
            exc = e
        finally:
            stubs_io.USE_FAKE[0] = False
        want = [r[::stride] for r in rows]

        def witness(model):
            vals = [[int(ev(model, c)) for c in r] for r in rows]
            out = {'inputs': {'kind': kind, 'lengths': lens, 'stride': stride}, 'skip_compare': True, 'out': None}
            d = tempfile.mkdtemp(prefix='c15_', dir='/dev/shm' if os.path.isdir('/dev/shm') else None)
            try:
                with core.concrete_mode():
                    try:
                        if kind == 'npy':
                            names = []
                            for i, r in enumerate(vals):
                                fn = os.path.join(d, 'f%d.npy' % i)
                                np.save(fn, np.array(r, dtype=np.int64))
                                names.append(fn)
                            gl2, d2 = io.load_npy_as_striped(names, stride=stride)
                        else:
                            fn = os.path.join(d, 's.h5')
                            ra.save(fn, ra.RaggedArray([np.array(r, dtype=np.int64) for r in vals]))
                            gl2, d2 = io.load_h5_as_striped(fn, stride=stride)
                    except Exception as e:
                        out.update(exception=repr(e), violated=['raises ' + type(e).__name__],
                                   signature='striped-%s:stride=%s:exception:%s' % (kind, 'one' if stride == 1 else 'gt1', type(e).__name__))
                        return out
                w2 = [r[::stride] for r in vals]
                bad = []
                if list(np.asarray(d2).tolist()) != [c for r in w2 for c in r]:
                    bad.append('loaded data is not the concatenation of the strided files')
                if [int(x) for x in gl2] != [len(r) for r in w2]:
                    bad.append('reported lengths are not the lengths of the loaded (strided) trajectories')
                out['out'] = {'lengths': [int(x) for x in gl2], 'data': np.asarray(d2).tolist()}
                out['violated'] = bad
                out['signature'] = 'striped-%s:stride=%s:%s' % (kind, 'one' if stride == 1 else 'gt1', bad[0] if bad else 'ok')
                return out
            finally:
                import shutil
                shutil.rmtree(d, ignore_errors=True)
        if exc is not None:
            return PathOut([('no-exception', False)], {}, witness, exc=type(exc).__name__,
                           desc='raises %s: %s' % (type(exc).__name__, str(exc)[:100]))
        got = list(cells(data))
        wflat = [c for r in want for c in r]
        obs = [('data-is-the-concatenation-of-the-strided-files', conj([x == y for x, y in zip(got, wflat)]) if len(got) == len(wflat) else False),
               ('reported-lengths-are-the-lengths-of-the-loaded-trajectories', [int(x) for x in gl] == [len(r) for r in want])]
        return PathOut(obs, {}, witness, desc='load_%s_as_striped lengths=%s stride=%d' % (kind, lens, stride))
    return path


def conformance_job():
    def path(ctx):
        ok, got = conformance_listing_order()
        ok2, got2 = conformance_open_modes()
        return PathOut([('real PyTables lists nodes sorted by name (stub conformance)', ok),
                        ('open modes w / a / r, node membership, duplicate creation and removal behave as in real PyTables (stub conformance)', ok2)],
                       {}, None, desc='listing order %s; modes %s' % (got[:4], got2 if not ok2 else 'same'))
    return path


def jobs(tier):
    J = []
    q = tier == 'quick'

    def add(func, name, **kw):
        J.append(dict(module='harness.C15', func=func, name=name, kwargs=kw, sig_prefix='io', deadline_s=280 if q else 1700))
    add('conformance_job', 'pytables-listing-order')
    Rs = [1, 2, 3, 9, 10, 11, 12] if q else [1, 2, 3, 9, 10, 11, 12, 13, 20, 99, 100, 101]
    for R in Rs:
        add('saveload_job', 'saveload[R=%d,int64]' % R, R=R, dtype='int64')
        if R in (2, 3, 10, 11, 100):
            add('saveload_job', 'saveload[R=%d,float64,stride=2]' % R, R=R, dtype='float64', stride=2)
            add('saveload_job', 'saveload[R=%d,int64,stride=3]' % R, R=R, dtype='int64', stride=3)
            add('saveload_job', 'saveload[R=%d,subset]' % R, R=R, dtype='int64', subset=[R - 1, 0])
            add('saveload_job', 'saveload[R=%d,one key]' % R, R=R, dtype='int64', subset=[1 % R])
            add('saveload_job', 'saveload[R=%d,rectangular]' % R, R=R, dtype='int64', rect=True)
    # a path that already holds an earlier save (more rows / another number of digits in the node names / fewer rows): the file is
    # rewritten, the second array alone comes back
    for R, prior in ((3, 6), (3, 12), (12, 3), (2, 2)) + (() if q else ((10, 11), (1, 100))):
        add('saveload_job', 'saveload[R=%d,after a save of %d rows to the same path]' % (R, prior), R=R, dtype='int64', prior=prior)
    add('saveload_job', 'saveload[R=3,stride=2,after a save of 6 rows to the same path]', R=3, dtype='int64', stride=2, prior=6)
    for s in range(1, 9 if q else 33):
        add('sound_job', 'sound_trajectory[stride=%d,unbounded]' % s, stride=s)
    for lens in (((2,), (1, 2), (3, 1), (2, 1, 3)) if q else ((2,), (1, 2), (3, 1), (2, 1, 3), (1, 1, 1), (4, 2), (1, 4, 2, 3), (5, 1, 1))):
        for stride in ((1, 2) if q else (1, 2, 3)):
            add('parload_job', 'parload[%s,stride=%d]' % (list(lens), stride), lens=lens, stride=stride)
        add('parload_job', 'parload[%s,hint=right]' % list(lens), lens=lens, hint='right')
        add('parload_job', 'parload[%s,hint=wrong]' % list(lens), lens=lens, hint='wrong')
        add('parload_job', 'parload[%s,atoms=[1]]' % list(lens), lens=lens, atoms=[1])
    add('parload_job', 'parload[[3, 2],frame= for file 0]', lens=(3, 2), frame_for=0)
    # several single-frame entries mixed with whole trajectories (their length-1 slots are re-inserted into the sounded lengths)
    add('parload_job', 'parload[[3, 2, 3],frame= for files 0 and 2]', lens=(3, 2, 3), frame_for=(0, 2))
    add('parload_job', 'parload[[2, 3, 2],frame= for files 0 and 1]', lens=(2, 3, 2), frame_for=(0, 1))
    add('parload_job', 'parload[[3, 2, 2, 2, 3],frame= for files 1, 2 and 4]', lens=(3, 2, 2, 2, 3), frame_for=(1, 2, 4))
    add('parload_job', 'parload[[2, 2, 3, 2],frame= for files 0 and 3]', lens=(2, 2, 3, 2), frame_for=(0, 3))
    for lens in ((3,), (2,), (3, 2)):
        add('parload_job', 'parload[%s,stride=2,options per file (args=)]' % list(lens), lens=lens, stride=2, as_args=True)
    add('parload_job', 'parload[[3],atoms=[1],options per file (args=)]', lens=(3,), atoms=[1], as_args=True)
    # a different stride for every file (args=[{'stride': 2}, {'stride': 1}, ...]; an entry without a stride key)
    for lens, sts in (((3, 2), (2, 1)), ((3, 3), (1, 2)), ((4, 2, 4), (2, 1, 3)), ((3, 2), (2, None))):
        add('parload_job', 'parload[%s,strides per file %s]' % (list(lens), list(sts)), lens=lens, strides=sts)
    add('parload_job', 'parload[[3],stride=2,hint=right,options per file (args=)]', lens=(3,), stride=2, hint='right', as_args=True)
    for kind in ('npy', 'h5'):
        for lens in (((2,), (3, 2), (1, 3, 2)) if q else ((2,), (3, 2), (1, 3, 2), (4, 1), (2, 2, 2), (1, 1, 5, 2))):
            for stride in ((1, 2) if q else (1, 2, 3)):
                add('striped_job', 'striped-%s[%s,stride=%d]' % (kind, list(lens), stride), kind=kind, lens=lens, stride=stride)
    return J
