"""C12  The reversible estimator is a true maximum-likelihood fixed point.

Decided clauses (see META['outside'] for what is not): (1) no internal assertion / TypeError on admissible
input: bounded real sweeps (E1 for the Python, E2 for the Cython implementation), the final normalisation +
assertions of the CURRENT source in two float models (RelErr: cannot fire; FP bit-precise: can the exact
comparison fire?), `assert c <= 0` from any exact invariant state AND from any state whose row sums have drifted by rounding; (2) Prinz self-consistency: the diagonal and
pair update blocks of the current source, run from an arbitrary invariant state, establish their stationarity
equation and preserve the invariant; (3) compiled = pure Python on the update blocks and on one full sweep."""
import ast
import math
import os
import textwrap
from fractions import Fraction

import numpy as np
import z3

from symnp import core, loader, funcs, fp
from symnp.core import SVal, SFloat, ite, sand, sor, snot
from symnp.arr import SArr, _raw
from harness.common import PathOut, ev
from harness.cluster import conj, cells, run_oracle
from harness.tptjobs import Tol, tolm, tolv
from harness import kernels

META = {
    'files': ['enspara/msm/builders.py', 'enspara/msm/libmsm.pyx'],
    'functions': ['enspara.msm.builders._prinz_mle_py (whole function with max_iter=1; and its diagonal-update, pair-update and '
                  'final-normalisation statement blocks extracted from the current source by AST)',
                  'enspara.msm.libmsm._mle_prinz_dense (typed Cython tree, whole function with max_iter=1)', 'enspara.msm.builders.mle'],
    'bounds': {'quick': 'n=2 states (n=3 for the update blocks and the final block); FP model Float32 for the reachability question; '
                        'RelErr model u=2^-53; one real sweep (max_iter=1, tol=inf); pair-update assertion from a state whose row sums are within a relative 2^-30 of '
                        'the true row sums (n<=3)',
               'thorough': 'FP model Float64 (n=2), update blocks n=3, sweep with the default tolerance'},
    'stubs': ['sqrt = r>=0 & r*r=x', 'log / log10 = one fresh real per distinct argument (only the convergence test reads them)',
              'warnings.warn is the real function'],
    'assumptions': ['update blocks: arbitrary state satisfying the sweep invariant (X symmetric, positive; X_rs its row sums; counts '
                    'non-negative with positive row sums) - covers every iteration of every run',
                    'final block: arbitrary positive symmetric X and arbitrary positive X_rs (over-approximates every reachable state)',
                    'RelErr model: results in the normal range (no overflow / underflow)'],
    'outside': ['convergence of the iteration and hence "log-likelihood at least that of any other reversible matrix" at the limit: an '
                'unbounded floating-point loop with a transcendental objective cannot be encoded; what is decided instead is stationarity '
                'at every fixed point (first-order condition)', 'the different stopping metric of the two implementations (log vs log10)',
                'sparse inputs', 'rounding inside the sweep (reals), except for the assertion questions: final assertions (RelErr), and '
                '`assert c <= 0` with row sums that are only within a relative 2^-30 of the true row sums (X entries >= 0, zeros allowed)'],
}


def preload():
    loader.load('enspara.msm.transition_matrices')
    loader.load('enspara.msm.builders')
    kernels.preload()


# ---------------------------------------------------------------------------------------------
# statement blocks of the current source
# ---------------------------------------------------------------------------------------------

_BLOCKS = {}


def blocks():
    """compile the diagonal-update, pair-update and final blocks of _prinz_mle_py (current /repo source) into
    functions that run in the builders module namespace (so `np` is the proxy)"""
    if 'b' in _BLOCKS:
        return _BLOCKS['b']
    b = loader.load('enspara.msm.builders')
    path = os.path.join(loader.REPO, 'enspara/msm/builders.py')
    src = open(path).read()
    tree = ast.parse(src)
    fn = [n for n in tree.body if isinstance(n, ast.FunctionDef) and n.name == '_prinz_mle_py']
    if not fn:
        raise core.Unsupported('_prinz_mle_py not found')
    fn = fn[0]
    outer = [n for n in fn.body if isinstance(n, ast.For)]
    if len(outer) != 1:
        raise core.Unsupported('_prinz_mle_py: expected one outer iteration loop')
    inner = [n for n in outer[0].body if isinstance(n, ast.For)]
    if len(inner) != 2 or not any(isinstance(m, ast.For) for m in inner[1].body):
        raise core.Unsupported('_prinz_mle_py: expected a diagonal loop and a nested pair loop')
    diag_body = inner[0].body
    pair_loop = [m for m in inner[1].body if isinstance(m, ast.For)][0]
    pair_body = pair_loop.body
    idx = fn.body.index(outer[0])
    tail = [n for n in fn.body[idx + 1:] if not isinstance(n, ast.Return)]
    # drop the convergence-warning `if` from the tail (it does not touch X)
    tail = [n for n in tail if not (isinstance(n, ast.If) and 'max_iter' in ast.unparse(n.test))]

    def mk(name, args, body, ret):
        f = ast.FunctionDef(name=name, args=ast.arguments(posonlyargs=[], args=[ast.arg(arg=a) for a in args], kwonlyargs=[],
                                                          kw_defaults=[], defaults=[]),
                            body=list(body) + [ast.parse('return ' + ret).body[0]], decorator_list=[], type_params=[])
        mod = ast.Module(body=[f], type_ignores=[])
        ast.fix_missing_locations(mod)
        ns = {}
        exec(compile(mod, path + ':<block %s>' % name, 'exec'), vars(b), ns)
        return ns[name]
    out = {
        'diag': mk('diag_block', ['i', 'C', 'X', 'X_rs', 'C_rs', 'logl'], diag_body, '(X, X_rs)'),
        'pair': mk('pair_block', ['i', 'j', 'C', 'X', 'X_rs', 'C_rs', 'logl'], pair_body, '(X, X_rs)'),
        'tail': mk('tail_block', ['X', 'X_rs'], tail, '(T, pi)'),
        'tail_src': '\n'.join(ast.unparse(n) for n in tail),
    }
    _BLOCKS['b'] = out
    return out


def sym_state(ctx, n):
    """arbitrary state satisfying the sweep invariant"""
    C = [[core.fresh_real('c') for _ in range(n)] for _ in range(n)]
    for row in C:
        for x in row:
            ctx.add(core.to_z3_real(x) >= 0)
        ctx.add(core.to_z3_bool(sum(row[1:], row[0]) > 0))
    X = [[None] * n for _ in range(n)]
    for i in range(n):
        for j in range(i, n):
            x = core.fresh_real('x')
            ctx.add(core.to_z3_real(x) > 0)
            X[i][j] = X[j][i] = x
    X_rs = [sum(X[i][1:], X[i][0]) for i in range(n)]
    C_rs = [sum(C[i][1:], C[i][0]) for i in range(n)]
    return C, X, X_rs, C_rs


def invariant(n, Xn, Xrs):
    conds = []
    for i in range(n):
        for j in range(i + 1, n):
            conds.append(Xn[i][j] == Xn[j][i])
        conds.append(Xrs[i] == sum(Xn[i][1:], Xn[i][0]))
    return conds


def block_job(which, n, i=0, j=1):
    """one update block of the CURRENT source from an arbitrary invariant state"""
    def path(ctx):
        ctx.resolve_masks = True
        ctx.abstract_log = True
        B = blocks()
        C, X, X_rs, C_rs = sym_state(ctx, n)
        Ca, Xa = funcs.np_array(C, dtype=float), funcs.np_array(X, dtype=float)
        Xr, Cr = funcs.np_array(X_rs, dtype=float), funcs.np_array(C_rs, dtype=float)
        exc = None
        try:
            if which == 'diag':
                Xo, Xro = B['diag'](i, Ca, Xa, Xr, Cr, 0.0)
            else:
                Xo, Xro = B['pair'](i, j, Ca, Xa, Xr, Cr, 0.0)
        except Exception as e:
            exc = e

        def witness(model):
            Cc = [[float(ev(model, x)) for x in row] for row in C]
            Xc = [[float(ev(model, x)) for x in row] for row in X]
            out = {'inputs': {'block': which, 'i': i, 'j': j, 'C': Cc, 'X': Xc}, 'skip_compare': True}
            Ca2, Xa2 = np.array(Cc), np.array(Xc)
            with core.concrete_mode():
                try:
                    if which == 'diag':
                        Xo2, Xro2 = B['diag'](i, Ca2, Xa2, Xa2.sum(axis=1), Ca2.sum(axis=1), 0.0)
                    else:
                        Xo2, Xro2 = B['pair'](i, j, Ca2, Xa2, Xa2.sum(axis=1), Ca2.sum(axis=1), 0.0)
                except Exception as e:
                    out.update(exception=repr(e), out=None, violated=['raises ' + type(e).__name__],
                               signature='mle-block:%s:exception:%s' % (which, type(e).__name__))
                    return out
            Tol.TOL = 1e-7
            bad = run_oracle(oracle(tolm(Cc), tolv(Ca2.sum(axis=1)), tolm(Xo2.tolist()), tolv(Xro2)))
            out['out'] = {'X': Xo2.tolist(), 'X_rs': Xro2.tolist()}
            out['violated'] = bad
            return out

        def oracle(C_, Crs_, Xn, Xrs):
            obs = [('invariant-preserved(X symmetric, X_rs = row sums)', conj(invariant(n, Xn, Xrs)))]
            if which == 'diag':
                # stationarity of the diagonal entry: C_ii * X_rs_i = C_rs_i * X_ii  (when the state has off-diagonal counts)
                den = Crs_[i] - C_[i][i]
                eqn = C_[i][i] * Xrs[i] == Crs_[i] * Xn[i][i]
                obs.append(('diagonal-update-satisfies-its-Prinz-equation',
                            sor(snot(den > 0), eqn) if isinstance(den, SVal) else (eqn if den > 0 else True)))
            else:
                a = (Crs_[i] - C_[i][j]) + (Crs_[j] - C_[j][i])
                v = Xn[i][j]
                # (C_ij + C_ji)/v = C_rs_i/X_rs_i + C_rs_j/X_rs_j, cleared of denominators
                eqn = (C_[i][j] + C_[j][i]) * Xrs[i] * Xrs[j] == v * (Crs_[i] * Xrs[j] + Crs_[j] * Xrs[i])
                obs.append(('pair-update-satisfies-its-Prinz-equation',
                            sor(a == 0, eqn) if isinstance(a, SVal) else (eqn if a != 0 else True)))
                obs.append(('updated-entry-non-negative', v >= 0))
            return obs
        if exc is not None:
            return PathOut([('no-internal-assertion-from-an-invariant-state', False)], {}, witness, exc=type(exc).__name__,
                           desc='raises %s: %s' % (type(exc).__name__, str(exc)[:100]))
        Xn = [[_raw(Xo)[a, b] for b in range(n)] for a in range(n)]
        Xrs = list(cells(Xro))
        return PathOut(oracle(C, C_rs, Xn, Xrs), {}, witness, desc='%s block n=%d' % (which, n))
    return path


def tail_relerr_job(n):
    """final normalisation + assertions of the current source in the RelErr float model: they must not be able to fire"""
    def path(ctx):
        ctx.relerr = Fraction(1, 2 ** 53)
        ctx.resolve_masks = True
        B = blocks()
        X = [[None] * n for _ in range(n)]
        for i in range(n):
            for j in range(i, n):
                x = core.fresh_real('x')
                ctx.add(core.to_z3_real(x) > 0)
                X[i][j] = X[j][i] = x
        Xrs = [core.fresh_real('xrs') for _ in range(n)]
        for x in Xrs:
            ctx.add(core.to_z3_real(x) > 0)
        exc = None
        try:
            T, pi = B['tail'](funcs.np_array(X, dtype=float), funcs.np_array(Xrs, dtype=float))
        except Exception as e:
            exc = e

        def witness(model):
            # the RelErr counterexample fixes rounding errors, not inputs: look for a concrete float64 input with the FP model
            return fp_counterexample(n, B, budget_ms=240000)
        if exc is not None:
            return PathOut([('final-assertions-cannot-fire-under-rounding(RelErr model)', False)], {}, witness,
                           exc=type(exc).__name__, desc='raises %s' % type(exc).__name__)
        return PathOut([('final-assertions-cannot-fire-under-rounding(RelErr model)', True)], {}, None,
                       desc='tail n=%d, RelErr: %s' % (n, B['tail_src'].splitlines()[-2:]))
    return path


def pair_relerr_job(n, i=0, j=1):
    """`assert c <= 0` of the pair update under rounding.  The state is the FLOATING-POINT invariant, not the exact
    one: X symmetric with entries >= 0 (zero entries stay zero), X_rs[i] equal to the row sum only up to a relative drift of
    2^-30 (the row sums are maintained incrementally: X_rs[i] + (v - X[i, j]) is rounded twice per visit).  For a state whose
    row holds a single non-zero entry the exact remainder X_rs[i] - X[i, j] is 0 and the computed one may come out negative."""
    def path(ctx):
        # (the operations of the block itself are exact here: every factor of c is rounded with a relative error < 1, which keeps
        # its sign - the rounding that matters for this assertion is the drift of the incrementally maintained row sums)
        ctx.resolve_masks = True
        ctx.abstract_log = True
        B = blocks()
        C = [[core.fresh_real('c') for _ in range(n)] for _ in range(n)]
        for row in C:
            for x in row:
                ctx.add(core.to_z3_real(x) >= 0)
            ctx.add(core.to_z3_bool(sum(row[1:], row[0]) > 0))
        X = [[None] * n for _ in range(n)]
        for a in range(n):
            for b_ in range(a, n):
                x = core.fresh_real('x')
                ctx.add(core.to_z3_real(x) >= 0)
                X[a][b_] = X[b_][a] = x
        drift = Fraction(1, 2 ** 30)
        Xrs = []
        for a in range(n):
            r = core.fresh_real('xrs')
            tot = z3.Sum(*[core.to_z3_real(x) for x in X[a]])
            ctx.add(tot > 0)
            ctx.add(z3.And(core.to_z3_real(r) >= tot * (1 - z3.RealVal(str(drift))), core.to_z3_real(r) <= tot * (1 + z3.RealVal(str(drift)))))
            Xrs.append(r)
        # C_rs is computed once by a pairwise sum: exact up to rounding, never below any of its terms
        Crs = [sum(C[a][1:], C[a][0]) for a in range(n)]
        exc = None
        try:
            Xo, Xro = B['pair'](i, j, funcs.np_array(C, dtype=float), funcs.np_array(X, dtype=float),
                                funcs.np_array(Xrs, dtype=float), funcs.np_array(Crs, dtype=float), 0.0)
        except AssertionError as e:
            exc = e

        def witness(model):
            # the RelErr counterexample fixes rounding errors, not inputs: look for concrete counts through the public builder
            r = concrete_pair_reproduction()
            return r if r is not None else {'inputs': None, 'out': None, 'violated': [], 'skip_compare': True}
        lab = 'pair-update-assertion-cannot-fire-with-rounded-row-sums(relative drift 2^-30)'
        if exc is not None:
            return PathOut([(lab, False)], {}, witness, exc='AssertionError', desc='assert in the pair block fires under rounding')
        return PathOut([(lab, True), ('updated-entry-non-negative-under-rounding', _raw(Xo)[i, j] >= 0)], {}, witness,
                       desc='pair block n=%d under rounding' % n)
    return path


class _null:
    def __enter__(self): return self
    def __exit__(self, *a): return False


def concrete_pair_reproduction():
    """replay stage only: the solver has shown the pair-update assertion reachable under rounding; find integer counts with a
    strongly connected graph on which the PUBLIC builder dies.  Chains 0 <-> 1 <-> 2 (end states have a single neighbour)."""
    import itertools
    import warnings
    b = loader.load('enspara.msm.builders')
    tried = 0
    with core.concrete_mode(), warnings.catch_warnings():
        warnings.simplefilter('ignore')
        for s_ in range(4, 200):
            for vals in itertools.product(range(1, 31), repeat=4):
                if sum(vals) != s_:
                    continue
                tried += 1
                if tried > 1500:
                    return None
                a_, b_, c_, d_ = vals
                C = np.array([[0, a_, 0], [b_, 0, c_], [0, d_, 0]], dtype=float)
                try:
                    b._prinz_mle_py(C.copy(), max_iter=60)
                    continue
                except AssertionError:
                    pass
                except Exception:
                    continue
                try:
                    b.mle(C.copy())
                except AssertionError as e:
                    return {'inputs': {'counts': C.tolist(), 'call': 'builders.mle(counts)'}, 'out': None, 'exception': repr(e),
                            'violated': ['pair-update-assertion-fails-in-floating-point'], 'skip_compare': True,
                            'signature': 'pair-update-assertion-fails-in-floating-point'}
                except Exception:
                    continue
    return None


def concrete_reproduction(n, B):
    """replay stage only: the solver has shown the final assertion reachable (RelErr / FP32); find a float64 input of
    the PUBLIC builder that actually dies on it.  Small integer count matrices are tried through builders.mle."""
    import itertools
    import warnings
    b = loader.load('enspara.msm.builders')
    tried = 0
    with core.concrete_mode(), warnings.catch_warnings():
        warnings.simplefilter('ignore')
        for vals in itertools.product(range(1, 22, 3), repeat=n * n):
            C = np.array(vals, dtype=float).reshape(n, n)
            tried += 1
            if tried > 3000:
                break
            try:
                b.mle(C)
            except AssertionError as e:
                return {'inputs': {'counts': C.tolist(), 'call': 'builders.mle(counts)'}, 'out': None, 'exception': repr(e),
                        'violated': ['final-assertion-fails-in-floating-point'], 'skip_compare': True,
                        'signature': 'final-assertion-fails-in-floating-point'}
            except Exception:
                continue
    return None


def fp_counterexample(n, B, budget_ms, model='fp64'):
    """bit-precise search for a float64 X on which the current final block raises; replayed with real NumPy on the
    same statements and through the public builders.mle on the symmetric counts X/2"""
    quick = concrete_reproduction(n, B)
    if quick is not None:
        return quick
    out = {'inputs': None, 'out': None, 'violated': [], 'skip_compare': True}
    ex = core.Explorer(timeout_ms=budget_ms)
    found = {}

    def run(ctx):
        X = [[None] * n for _ in range(n)]
        for i in range(n):
            for j in range(i, n):
                X[i][j] = X[j][i] = fp.fresh_fp('x', model)
        Xrs = [fp.fresh_fp('r', model) for _ in range(n)]
        try:
            B['tail'](funcs.np_array(X, dtype=float), funcs.np_array(Xrs, dtype=float))
        except AssertionError:
            m = ctx.get_model()
            found['X'] = [[fp.fp_value(m, x) for x in row] for row in X]
            found['Xrs'] = [fp.fp_value(m, x) for x in Xrs]
        return None
    try:
        for pr in ex.explore(run):
            if found:
                break
    except Exception:
        pass
    if not found:
        return out
    Xc, Xr = np.array(found['X'], dtype=float), np.array(found['Xrs'], dtype=float)
    out['inputs'] = {'X': Xc.tolist(), 'X_rs': Xr.tolist(), 'statements': B['tail_src']}
    with core.concrete_mode():
        try:
            B['tail'](Xc.copy(), Xr.copy())
        except AssertionError as e:
            out['violated'] = ['final-assertion-fails-in-floating-point']
            out['exception'] = repr(e)
            out['signature'] = 'final-assertion-fails-in-floating-point'
            b = loader.load('enspara.msm.builders')
            try:
                b.mle(Xc / 2.0)
                out['public_api'] = 'builders.mle(X/2) did not raise'
            except AssertionError as e2:
                out['public_api'] = 'builders.mle(X/2) raises AssertionError'
            except Exception as e2:
                out['public_api'] = 'builders.mle(X/2) raises %r' % e2
        except Exception as e:
            out['exception'] = repr(e)
    return out


def tail_fp_job(n, model='fp32'):
    """bit-precise: can the final assertions of the current source fire?  (sat => genuine reachability at this
    format; on the current tree the tolerance-based assertions are expected not to be refutable quickly, so an
    `unknown` here is reported as inconclusive, and the RelErr job carries the proof)"""
    def path(ctx):
        B = blocks()
        X = [[None] * n for _ in range(n)]
        for i in range(n):
            for j in range(i, n):
                X[i][j] = X[j][i] = fp.fresh_fp('x', model)
        Xrs = [fp.fresh_fp('r', model) for _ in range(n)]
        # keep sums finite
        fired = None
        try:
            B['tail'](funcs.np_array(X, dtype=float), funcs.np_array(Xrs, dtype=float))
        except AssertionError as e:
            fired = e

        def witness(model_):
            return fp_counterexample(n, B, budget_ms=240000, model=model if model == 'fp64' else 'fp64')
        if fired is not None:
            return PathOut([('final-assertion-unreachable(bit-precise %s)' % model, False)], {}, witness, exc='AssertionError',
                           desc='assertion reachable at %s' % model)
        return PathOut([('final-assertion-unreachable(bit-precise %s)' % model, True)], {}, None, desc='no assertion on this path')
    return path


def sweep_equiv_job(n=2, pattern=None):
    """compiled (typed Cython tree) and pure-Python implementation give the same (T, pi) after one real sweep"""
    def path(ctx):
        ctx.resolve_masks = True
        ctx.abstract_log = True
        ctx.purify_div = True
        b = loader.load('enspara.msm.builders')
        C = [[core.fresh_real('c') if (pattern is None or pattern[i][j]) else 0.0 for j in range(n)] for i in range(n)]
        for row in C:
            for x in row:
                if isinstance(x, SVal):
                    ctx.add(core.to_z3_real(x) > 0)
        K = kernels.KModule('libmsm')
        exc = None
        try:
            T1, p1 = b._prinz_mle_py(funcs.np_array(C, dtype=float), tol=float('inf'), max_iter=1)
            T2, p2 = K._mle_prinz_dense(funcs.np_array(C, dtype=float), float('inf'), 1)
        except (Exception, kernels.KernelAssertion) as e:
            exc = e

        def witness(model):
            Cc = [[float(ev(model, x)) if isinstance(x, SVal) else float(x) for x in row] for row in C]
            out = {'inputs': {'C': Cc, 'max_iter': 1, 'tol': 'inf'}, 'skip_compare': True}
            import warnings
            try:
                mod = kernels.build_ext('libmsm')
            except Exception as e:
                return dict(out, out=None, violated=None, exception='build failed: %r' % e)
            with core.concrete_mode(), warnings.catch_warnings():
                warnings.simplefilter('ignore')
                try:
                    Ta, pa = b._prinz_mle_py(np.array(Cc), tol=float('inf'), max_iter=1)
                    Tb, pb = mod._mle_prinz_dense(np.array(Cc), float('inf'), 1)
                except Exception as e:
                    out.update(exception=repr(e), out=None, violated=['raises ' + type(e).__name__],
                               signature='mle:exception:' + type(e).__name__)
                    return out
            out['out'] = {'T_py': Ta.tolist(), 'T_pyx': np.asarray(Tb).tolist()}
            bad = []
            if not np.allclose(Ta, Tb, rtol=1e-9, atol=1e-12) or not np.allclose(pa, pb, rtol=1e-9, atol=1e-12):
                bad.append('compiled-and-python-implementations-disagree')
            out['violated'] = bad
            return out
        if exc is not None:
            return PathOut([('no-exception-in-either-implementation', False)], {}, witness, exc=type(exc).__name__,
                           desc='raises %s: %s' % (type(exc).__name__, str(exc)[:100]))
        eq = [x == y for x, y in zip(list(cells(T1)) + list(cells(p1)), list(cells(T2)) + list(cells(p2)))]
        return PathOut([('compiled-equals-pure-python-after-one-sweep', conj(eq))], {}, witness, desc='sweep equivalence n=%d' % n)
    return path


def pyx_blocks():
    """the diagonal-update and pair-update loop bodies of _mle_prinz_dense in Cython's typed tree"""
    from Cython.Compiler import Visitor
    K = kernels.KModule('libmsm')
    fn = K.fns['_mle_prinz_dense']
    loops = []

    class F(Visitor.TreeVisitor):
        def visit_Node(self, node):
            self.visitchildren(node)

        def visit_ForFromStatNode(self, node):
            loops.append(node)
            self.visitchildren(node)
    F().visit(fn.body)

    def tname(l):
        return str(getattr(l.target, 'name', ''))

    def contains(a, b):
        found = []

        class G(Visitor.TreeVisitor):
            def visit_Node(self, node):
                if node is b:
                    found.append(1)
                self.visitchildren(node)
        G().visit(a.body)
        return bool(found)
    i_loops = [l for l in loops if tname(l) == 'i']
    j_loops = [l for l in loops if tname(l) == 'j']
    if len(i_loops) != 2 or len(j_loops) != 1:
        raise core.Unsupported('_mle_prinz_dense: unexpected loop structure')
    diag = [l for l in i_loops if not contains(l, j_loops[0])][0]
    return K, fn, diag.body, j_loops[0].body


def block_equiv_job(which, n, i=0, j=1):
    """the same update block in the compiled (typed Cython tree) and the pure-Python source, from the same arbitrary
    invariant state, gives the same X and X_rs"""
    def path(ctx):
        ctx.resolve_masks = True
        ctx.abstract_log = True
        B = blocks()
        K, fn, diag_body, pair_body = pyx_blocks()
        C, X, X_rs, C_rs = sym_state(ctx, n)

        def arrs():
            return (funcs.np_array(C, dtype=float), funcs.np_array(X, dtype=float), funcs.np_array(X_rs, dtype=float),
                    funcs.np_array(C_rs, dtype=float))
        exc = None
        try:
            Ca, Xa, Xr, Cr = arrs()
            if which == 'diag':
                Xp, Xrp = B['diag'](i, Ca, Xa, Xr, Cr, 0.0)
            else:
                Xp, Xrp = B['pair'](i, j, Ca, Xa, Xr, Cr, 0.0)
            Cb, Xb, Xrb, Crb = arrs()
            env = {'$opts': K.it.directives(fn), 'C': Cb, 'X': Xb, 'X_rs': Xrb, 'C_rs': Crb, 'i': i, 'j': j, 'logl': 0.0,
                   'n_states': n, 'tmp': 0.0, 'denom': 0.0, 'a': 0.0, 'b': 0.0, 'c': 0.0, 'v': 0.0}
            K.it.ex(diag_body if which == 'diag' else pair_body, env)
        except (Exception, kernels.KernelAssertion) as e:
            exc = e
        def witness(model):
            """the block state cannot be injected into the compiled code: replay compares the two real implementations
            on one sweep from the model's counts (and two fixed matrices)"""
            import warnings
            b = loader.load('enspara.msm.builders')
            out = {'inputs': None, 'out': None, 'violated': [], 'skip_compare': True}
            try:
                mod = kernels.build_ext('libmsm')
            except Exception as e:
                return dict(out, violated=None, exception='build failed: %r' % e)
            cands = [np.array([[float(ev(model, x)) for x in row] for row in C])]
            cands += [np.arange(1, n * n + 1, dtype=float).reshape(n, n), (np.arange(n * n, dtype=float).reshape(n, n) % 3) + 1.5]
            with core.concrete_mode(), warnings.catch_warnings():
                warnings.simplefilter('ignore')
                for Cc in cands:
                    if not (Cc > 0).all():
                        continue        # whole-function replays only on strongly connected (here: positive) counts
                    try:
                        Ta, pa = b._prinz_mle_py(Cc.copy(), tol=float('inf'), max_iter=1)
                        Tb, pb = mod._mle_prinz_dense(Cc.copy(), float('inf'), 1)
                    except Exception as e:
                        return dict(out, inputs={'C': Cc.tolist()}, exception=repr(e), violated=['raises ' + type(e).__name__],
                                    signature='exception:' + type(e).__name__)
                    if not np.allclose(Ta, Tb, rtol=1e-9, atol=1e-12) or not np.allclose(pa, pb, rtol=1e-9, atol=1e-12):
                        return dict(out, inputs={'C': Cc.tolist(), 'max_iter': 1, 'tol': 'inf'},
                                    out={'T_py': Ta.tolist(), 'T_pyx': np.asarray(Tb).tolist()},
                                    violated=['compiled-and-python-implementations-disagree'],
                                    signature='compiled-and-python-implementations-disagree')
            return out
        if exc is not None:
            return PathOut([('no-exception-in-either-implementation', False)], {}, witness, exc=type(exc).__name__,
                           desc='raises %s: %s' % (type(exc).__name__, str(exc)[:100]))
        eq = [p == q for p, q in zip(list(cells(Xp)) + list(cells(Xrp)), list(cells(Xb)) + list(cells(Xrb)))]
        obs = [('compiled-block-equals-python-block(X, X_rs)', conj(eq))] + kernels.ob_list(K.it, ('bounds',))
        return PathOut(obs, {}, witness, desc='%s block equivalence n=%d' % (which, n))
    return path


def py_sweep_fn():
    """prelude + ONE pass of the outer iteration loop of the current _prinz_mle_py, with the state (X, X_rs) overridden
    after the prelude: works for any source structure that has a single outer iteration loop"""
    if 'sweep' in _BLOCKS:
        return _BLOCKS['sweep']
    b = loader.load('enspara.msm.builders')
    path = os.path.join(loader.REPO, 'enspara/msm/builders.py')
    tree = ast.parse(open(path).read())
    fn = [n for n in tree.body if isinstance(n, ast.FunctionDef) and n.name == '_prinz_mle_py'][0]
    outer = [n for n in fn.body if isinstance(n, ast.For)]
    if len(outer) != 1:
        raise core.Unsupported('_prinz_mle_py: expected one outer iteration loop')
    idx = fn.body.index(outer[0])
    prelude = [n for n in fn.body[:idx] if not (isinstance(n, ast.Expr) and isinstance(getattr(n, 'value', None), ast.Constant))]
    loop = ast.For(target=outer[0].target, iter=ast.parse('range(1)').body[0].value, body=outer[0].body, orelse=[])
    override = ast.parse('X = __X\nX_rs = __X_rs').body
    ret = ast.parse('return (X, X_rs)').body[0]
    f = ast.FunctionDef(name='sweep_once', args=ast.arguments(posonlyargs=[], args=[ast.arg(arg=a) for a in ('C', '__X', '__X_rs', 'tol', 'max_iter')],
                                                                kwonlyargs=[], kw_defaults=[], defaults=[]),
                        body=prelude + override + [loop, ret], decorator_list=[], type_params=[])
    mod = ast.Module(body=[f], type_ignores=[])
    ast.fix_missing_locations(mod)
    ns = {}
    exec(compile(mod, path + ':<one sweep>', 'exec'), vars(b), ns)
    _BLOCKS['sweep'] = ns['sweep_once']
    return ns['sweep_once']


def pyx_sweep(K, fn, C, X, X_rs):
    """prelude + one pass of the outer loop of _mle_prinz_dense (typed tree) with the state overridden after the prelude"""
    stats = list(fn.body.stats)
    env = {'$opts': K.it.directives(fn), 'C': C, 'tol': float('inf'), 'max_iter': 1}
    from Cython.Compiler import Visitor

    def has_outer_loop(node):
        found = []

        class G(Visitor.TreeVisitor):
            def visit_Node(self, n):
                self.visitchildren(n)

            def visit_ForFromStatNode(self, n):
                if str(getattr(n.target, 'name', '')) == 'n_iter':
                    found.append(n)
                self.visitchildren(n)
        G().visit(node)
        return bool(found)
    loop = None
    for st in stats:
        if has_outer_loop(st):
            loop = st
            break
        K.it.ex(st, env)
    if loop is None:
        raise core.Unsupported('_mle_prinz_dense: outer loop not found')
    env['X'], env['X_rs'] = X, X_rs
    K.it.ex(loop, env)
    return env['X'], env['X_rs']


def sweep_state_job(n, pattern=None):
    """one full sweep of both implementations from the same ARBITRARY invariant state gives the same state"""
    def path(ctx):
        ctx.resolve_masks = True
        ctx.abstract_log = True
        sw = py_sweep_fn()
        K = kernels.KModule('libmsm')
        fn = K.fns['_mle_prinz_dense']
        C, X, X_rs, C_rs = sym_state(ctx, n)
        if pattern is not None:
            for i in range(n):
                for j in range(n):
                    if not pattern[i][j]:
                        ctx.add(core.to_z3_real(C[i][j]) == 0)
                    else:
                        ctx.add(core.to_z3_real(C[i][j]) > 0)
        exc = None
        try:
            Xp, Xrp = sw(funcs.np_array(C, dtype=float), funcs.np_array(X, dtype=float), funcs.np_array(X_rs, dtype=float),
                         float('inf'), 1)
            Xc, Xrc = pyx_sweep(K, fn, funcs.np_array(C, dtype=float), funcs.np_array(X, dtype=float),
                                funcs.np_array(X_rs, dtype=float))
        except (Exception, kernels.KernelAssertion) as e:
            exc = e

        def witness(model):
            """replay through the real public implementations on strongly connected matrices with one-directional zeros"""
            import warnings
            b = loader.load('enspara.msm.builders')
            out = {'inputs': None, 'out': None, 'violated': [], 'skip_compare': True}
            try:
                mod = kernels.build_ext('libmsm')
            except Exception as e:
                return dict(out, violated=None, exception='build failed: %r' % e)
            cands = [np.array([[10., 0, 3], [4, 8, 0], [0, 5, 12]]), np.array([[2., 0, 0, 3], [4, 1, 0, 0], [0, 5, 2, 0], [0, 0, 6, 1]]),
                     np.array([[10., 0, 3, 1], [4, 8, 2, 0], [1, 5, 12, 2], [2, 3, 1, 6]]), np.arange(1, 10, dtype=float).reshape(3, 3)]
            with core.concrete_mode(), warnings.catch_warnings():
                warnings.simplefilter('ignore')
                for Cc in cands:
                    for kw in (dict(tol=float('inf'), max_iter=1), dict()):
                        try:
                            Ta, pa = b._prinz_mle_py(Cc.copy(), **kw)
                            Tb, pb = mod._mle_prinz_dense(Cc.copy(), **kw)
                        except Exception as e:
                            return dict(out, inputs={'C': Cc.tolist()}, exception=repr(e), violated=['raises ' + type(e).__name__],
                                        signature='exception:' + type(e).__name__)
                        if not np.allclose(Ta, Tb, rtol=1e-6, atol=1e-9):
                            return dict(out, inputs={'C': Cc.tolist(), 'kwargs': {k: str(v) for k, v in kw.items()}},
                                        out={'T_py': Ta.tolist(), 'T_pyx': np.asarray(Tb).tolist()},
                                        violated=['compiled-and-python-implementations-disagree'],
                                        signature='compiled-and-python-implementations-disagree')
            return out
        if exc is not None:
            return PathOut([('no-exception-in-either-implementation', False)], {}, witness, exc=type(exc).__name__,
                           desc='raises %s: %s' % (type(exc).__name__, str(exc)[:100]))
        eq = [p == q for p, q in zip(list(cells(Xp)) + list(cells(Xrp)), list(cells(Xc)) + list(cells(Xrc)))]
        return PathOut([('one-sweep-of-compiled-equals-one-sweep-of-python(X, X_rs)', conj(eq))], {}, witness,
                       desc='sweep equivalence from an arbitrary state n=%d pattern=%s' % (n, pattern))
    return path


def jobs(tier):
    J = []
    q = tier == 'quick'

    def add(func, name, **kw):
        J.append(dict(module='harness.C12', func=func, name=name, kwargs=kw, sig_prefix='mle', deadline_s=280 if q else 1700,
                      timeout_ms=60000 if q else 300000, tol=1e-5))
    for n in ((2,) if q else (2, 3)):
        for i in range(n):
            add('block_job', 'diag-block[n=%d,i=%d]' % (n, i), which='diag', n=n, i=i)
        for i in range(n - 1):
            for j in range(i + 1, n):
                add('block_job', 'pair-block[n=%d,%d,%d]' % (n, i, j), which='pair', n=n, i=i, j=j)
    for n in ((2, 3) if q else (2, 3, 4)):
        add('tail_relerr_job', 'final-block-RelErr[n=%d]' % n, n=n)
    for n in ((2, 3) if q else (2, 3, 4)):
        add('pair_relerr_job', 'pair-block-rounded-row-sums[n=%d]' % n, n=n, i=0, j=n - 1)
    for n in ((2,) if q else (2, 3)):
        add('block_equiv_job', 'compiled-vs-python-diag[n=%d]' % n, which='diag', n=n, i=n - 1)
        add('block_equiv_job', 'compiled-vs-python-pair[n=%d]' % n, which='pair', n=n, i=0, j=n - 1)
    add('sweep_equiv_job', 'compiled-vs-python-whole-function[n=1]', n=1)
    add('sweep_state_job', 'compiled-vs-python-sweep-from-arbitrary-state[n=2, C01=0]', n=2, pattern=[[1, 0], [1, 1]])
    add('sweep_state_job', 'compiled-vs-python-sweep-from-arbitrary-state[n=2, C10=0]', n=2, pattern=[[1, 1], [0, 1]])
    if not q:
        # two attempts the solvers do not finish (bit-precise fp32 final block; whole-sweep equivalence at n=2): bounded to 10
        # minutes each and reported INCONCLUSIVE - they are listed so that a faster solver would pick them up
        add('tail_fp_job', 'final-block-FP32[n=2]', n=2, model='fp32')
        add('sweep_equiv_job', 'compiled-vs-python-sweep[n=2]', n=2)
        for jb in J[-2:]:
            jb['deadline_s'] = 600
    # the same sweep on column-major counts must give the same numbers as on row-major counts
    J.append(dict(module='harness.C04', func='mle_container_job', name='mle[n=2,column-major ndarray,one sweep]', kwargs=dict(n=2, container='ndarray-F'),
                  sig_prefix='mle', deadline_s=280 if q else 1700, timeout_ms=60000 if q else 300000, tol=1e-5))
    J.append(dict(module='harness.C04', func='mle_container_job', name='mle[n=2,coo with repeated coordinates,one sweep]', kwargs=dict(n=2, container='coo-dup'),
                  sig_prefix='mle', deadline_s=280 if q else 1700, timeout_ms=60000 if q else 300000, tol=1e-5))
    # the bounded whole-function run (TypeError / assertion regressions, stochasticity, detailed balance) lives in C04's mle job
    J.append(dict(module='harness.C04', func='mle_job', name='mle[n=2,max_iter=1,tol=inf]', kwargs=dict(n=2, max_iter=1, tol=float('inf')),
                  sig_prefix='mle', deadline_s=280 if q else 1700, timeout_ms=60000 if q else 300000, tol=1e-5))
    return J
