"""E2 jobs (typed Cython tree -> SMT).  Filled in below; jobs_for(prop, tier) returns job specs."""


def jobs_for(prop, tier):
    return []
