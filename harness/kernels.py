"""E2 jobs: the Cython kernels (libdist, libinfo, libmsm) interpreted from Cython's typed tree.

jobs_for(prop, tier) returns the job specs that belong to C13 / C18 / C19 / C12."""
import atexit
import importlib.util
import itertools
import math
import os
import shutil
import subprocess
import sys
import sysconfig
import tempfile

import numpy as np
import z3

import cy2smt
from cy2smt import Interp, AbstractBuf, KernelAssertion
from symnp import core, funcs, loader
from symnp.core import SVal, SInt, SFloat, ite, sand, sor, snot
from symnp.arr import SArr, _raw
from harness.common import PathOut, ev
from harness.cluster import conj, cells, run_oracle

REPO = loader.REPO
PYX = {'libdist': 'enspara/geometry/libdist.pyx', 'libinfo': 'enspara/info_theory/libinfo.pyx',
       'libmsm': 'enspara/msm/libmsm.pyx'}

# ---------------------------------------------------------------------------------------------
# real extension modules of the CURRENT tree, built in scratch (for replays)
# ---------------------------------------------------------------------------------------------

_BUILD = {}


def build_ext(name, boundscheck=False):
    """cythonize + compile /repo's <name>.pyx into a scratch directory and import it.  Nothing is
    written to /repo or /verif; the directory is removed as soon as the shared object is loaded (the mapping stays
    valid after the unlink).  boundscheck=True builds the SAME source with
    Cython's buffer bounds checking switched on (the decorators are flipped in the scratch copy): an
    out-of-bounds access then raises IndexError deterministically -- the replay device for memory-safety
    counterexamples, in the role a sanitizer build plays for C."""
    key = (name, boundscheck)
    if key in _BUILD:
        return _BUILD[key]
    d = tempfile.mkdtemp(prefix='enspara_ext_', dir='/dev/shm' if os.path.isdir('/dev/shm') else None)
    try:
        return _build_in(d, name, boundscheck, key)
    finally:
        shutil.rmtree(d, True)


def _build_in(d, name, boundscheck, key):
    src = os.path.join(REPO, PYX[name])
    pyx = os.path.join(d, name + '.pyx')
    shutil.copy(src, pyx)
    if boundscheck:
        txt = open(pyx).read().replace('@cython.boundscheck(False)', '@cython.boundscheck(True)')
        open(pyx, 'w').write(txt)
    cy = [sys.executable, '-m', 'cython', '-3', pyx]
    r = subprocess.run(cy, capture_output=True, text=True, cwd=d)
    if r.returncode != 0:
        raise RuntimeError('cython failed: ' + r.stderr[-800:])
    so = os.path.join(d, name + sysconfig.get_config_var('EXT_SUFFIX'))
    cmd = ['gcc', '-shared', '-fPIC', '-O2', '-fopenmp', '-w', '-I' + sysconfig.get_paths()['include'],
           '-I' + np.get_include(), os.path.join(d, name + '.c'), '-o', so]
    r = subprocess.run(cmd, capture_output=True, text=True)
    if r.returncode != 0:
        raise RuntimeError('gcc failed: ' + r.stderr[-800:])
    dotted = {'libdist': 'enspara.geometry.libdist', 'libinfo': 'enspara.info_theory.libinfo',
              'libmsm': 'enspara.msm.libmsm'}[name]
    spec = importlib.util.spec_from_file_location(dotted, so)
    mod = importlib.util.module_from_spec(spec)
    loader.prepare()
    import enspara.exception       # noqa: F401  (the kernels import it)
    spec.loader.exec_module(mod)
    _BUILD[key] = mod
    return mod


def preload():
    loader.prepare()
    for n in PYX:
        cy2smt.typed_tree(os.path.join(REPO, PYX[n]))


# ---------------------------------------------------------------------------------------------
# module wrapper: resolves names between the functions of one .pyx
# ---------------------------------------------------------------------------------------------

class AbsNP:
    """numpy namespace for abstract mode: allocation yields abstract buffers"""

    def __getattr__(self, n):
        return getattr(np, n)

    def zeros(self, shape, dtype=float):
        if not isinstance(shape, tuple):
            shape = (shape,)
        return AbstractBuf('alloc', shape, dtype)

    empty = zeros


class KModule:
    def __init__(self, name, abstract=False):
        self.name = name
        self.tree = cy2smt.typed_tree(os.path.join(REPO, PYX[name]))
        self.fns = cy2smt.functions(self.tree)
        import enspara.exception as exc
        import warnings
        self.it = Interp({'np': AbsNP() if abstract else funcs.NP, 'exception': exc, 'warnings': warnings}, abstract=abstract)
        for fname in self.fns:
            if '[' in fname:
                continue
            self.it.g[fname] = self._callable(fname)

    def specialisations(self, base):
        return {k: v for k, v in self.fns.items() if k.startswith(base + '[')}

    def _callable(self, fname):
        specs = self.specialisations(fname)

        def f(*args):
            if not specs:
                return self.it.call(self.fns[fname], list(args))
            # fused dispatch: Cython selects the specialisation from the buffer dtypes
            for sname, node in specs.items():
                want = [a.type for a in node.args]
                ok = True
                for a, t in zip(args, want):
                    if getattr(t, 'is_buffer', False):
                        dt = getattr(a, 'dtype', None)
                        nd = getattr(a, 'ndim', None)
                        if dt is None or np.dtype(dt) != cy2smt.np_dtype_of(t.dtype) or nd != t.ndim:
                            ok = False
                            break
                if ok:
                    return self.it.call(node, list(args))
            raise TypeError('No matching signature found')
        f.__name__ = fname
        return f

    def __getattr__(self, n):
        if n in self.it.g:
            return self.it.g[n]
        raise AttributeError(n)


# ---------------------------------------------------------------------------------------------
# obligations from the interpreter -> PathOut obligations
# ---------------------------------------------------------------------------------------------

HINTS = {}      # obligation label -> extra constraint to try first when looking for a refuting model (see common.run_job)


def ob_list(it, kinds=None, prefix=''):
    out = []
    groups = {}
    hints = {}
    for ob in it.obligations:
        if kinds and ob.kind not in kinds:
            continue
        groups.setdefault((ob.kind, ob.label, ob.where), []).append(ob.cond)
        if getattr(ob, 'clear_cut', None) is not None:
            hints.setdefault((ob.kind, ob.label, ob.where), []).append(ob.clear_cut)
    for (kind, label, where), conds in groups.items():
        lab = '%s%s: %s (%s)' % (prefix, kind, label, where)
        out.append((lab, conj(conds)))
        if (kind, label, where) in hints:
            HINTS[lab] = core.sor(*hints[(kind, label, where)])
    return out


INT_DTYPES = ['int8', 'int16', 'int32', 'int64']
UINT_DTYPES = ['uint8', 'uint16', 'uint32', 'uint64']
FLOAT_DTYPES = ['float32', 'float64']


def sym_cells(dtype, shape, base):
    dt = np.dtype(dtype)
    o = np.empty(shape, dtype=object)
    for ix in np.ndindex(shape):
        if dt.kind in 'iu':
            info = np.iinfo(dt)
            o[ix] = core.fresh_int(base, int(info.min), int(info.max))
        else:
            o[ix] = core.fresh_real(base)
    r = o.view(SArr)
    r.ldtype = dt
    return r


def conc_array(model, arr):
    dt = arr.ldtype
    r = _raw(arr)
    out = np.empty(r.shape, dtype=dt)
    for ix in np.ndindex(r.shape):
        v = ev(model, r[ix])
        out[ix] = int(v) if dt.kind in 'iu' else float(v)
    return out


def dist_job(metric, dtype, rows, feats, with_out=False):
    """functional exactness + C integer representability of one distance kernel specialisation, through
    the public wrapper"""
    def path(ctx):
        K = KModule('libdist')
        it = K.it
        X = sym_cells(dtype, (rows, feats), 'x')
        y = sym_cells(dtype, (feats,), 'y')
        if with_out == 'strided':          # a column of a table / every other element of a buffer: a valid 1-D float64 output
            out_base = funcs.np_full(2 * rows, 7.0, dtype=np.float64)
            out_arg = out_base[::2]
        else:
            out_arg = funcs.np_full(rows, 7.0, dtype=np.float64) if with_out else None
        X0, y0 = X.copy(), y.copy()
        exc = None
        try:
            res = getattr(K, metric)(X, y, out_arg)
        except (Exception, KernelAssertion) as e:
            exc = e

        wide = np.dtype(dtype).kind in 'iu' and np.dtype(dtype).itemsize == 8

        def rd(v):
            # Euclidean / Manhattan are defined on the float64 values of the inputs (the result type): a 64-bit integer beyond
            # 2^53 is first rounded to the nearest double, exactly as C's (double)v does.  Hamming compares the integers.
            if not wide:
                return v
            if isinstance(v, SVal):
                from cy2smt import round_to_double
                return round_to_double(v)
            import fractions
            return fractions.Fraction(float(int(v)))

        def exact(Xc, yc):
            want = []
            for i in range(rows):
                d = [Xc[i][j] - yc[j] for j in range(feats)] if metric == 'hamming' else [rd(Xc[i][j]) - rd(yc[j]) for j in range(feats)]
                if metric == 'euclidean':
                    want.append(sum(x * x for x in d))
                elif metric == 'manhattan':
                    want.append(sum((ite(x < 0, -x, x) if isinstance(x, SVal) else abs(x)) for x in d))
                else:
                    want.append(sum((ite(Xc[i][j] != yc[j], 1, 0) if isinstance(Xc[i][j], SVal) or isinstance(yc[j], SVal)
                                     else int(Xc[i][j] != yc[j])) for j in range(feats)))
            return want

        def witness(model):
            Xc, yc = conc_array(model, X), conc_array(model, y)
            out = {'inputs': {'metric': metric, 'dtype': dtype, 'X': Xc.tolist(), 'y': yc.tolist(), 'out_given': with_out}}
            try:
                mod = build_ext('libdist')
            except Exception as e:
                return dict(out, out=None, violated=None, exception='build failed: %r' % e)
            bad = []
            results = []
            layouts = {'C': np.ascontiguousarray(Xc), 'F': np.asfortranarray(Xc),
                       'strided': np.ascontiguousarray(np.repeat(Xc, 2, axis=1))[:, ::2]}
            y_strided = np.ascontiguousarray(np.repeat(yc, 2))[::2]          # the same target as a non-contiguous view
            for lname, Xl in layouts.items():
                for nt in ('1', '4', '16'):
                    os.environ['OMP_NUM_THREADS'] = nt
                    o = (np.full(2 * rows, 7.0)[::2] if with_out == 'strided' else np.full(rows, 7.0)) if with_out else None
                    yl = y_strided if nt == '4' else yc
                    with core.concrete_mode():
                        try:
                            r = getattr(mod, metric)(Xl, yl, o) if with_out else getattr(mod, metric)(Xl, yl)
                        except Exception as e:
                            out.update(exception=repr(e), out=None, violated=['raises ' + type(e).__name__],
                                       signature='%s:%s:exception:%s' % (metric, dtype, type(e).__name__))
                            return out
                    if with_out and r is not o and with_out != 'strided':
                        bad.append('result-is-not-the-supplied-out-buffer')
                    if with_out and o.tolist() != np.asarray(r).tolist():
                        bad.append('supplied-out-buffer-does-not-hold-the-result')
                    if r.dtype != np.float64 or r.ndim != 1:
                        bad.append('result-not-1d-float64')
                    results.append(r.tolist())
            os.environ['OMP_NUM_THREADS'] = '1'
            if any(x != results[0] for x in results):
                bad.append('result-depends-on-layout-or-thread-count')
            # exact reference in rational / integer arithmetic
            import fractions
            Xe = [[int(v) if np.dtype(dtype).kind in 'iu' else fractions.Fraction(float(v)) for v in row] for row in Xc.tolist()]
            ye = [int(v) if np.dtype(dtype).kind in 'iu' else fractions.Fraction(float(v)) for v in yc.tolist()]
            want = exact(Xe, ye)
            for i in range(rows):
                w = float(want[i])
                if metric == 'euclidean':
                    w = math.sqrt(w)
                elif metric == 'hamming':
                    w = w / feats
                g = results[0][i]
                if not (abs(g - w) <= 1e-9 * max(1.0, abs(w))):
                    bad.append('value-differs-from-exact-%s' % metric)
                    break
            out['out'] = results[0]
            out['violated'] = sorted(set(bad))
            if bad == ['value-differs-from-exact-%s' % metric]:
                out['signature'] = '%s:%s:wrong-value' % (metric, dtype)
            out['skip_compare'] = True
            return out
        if exc is not None:
            return PathOut([('no-exception-on-valid-input', False)], {}, witness, exc=type(exc).__name__,
                           desc='raises %s: %s' % (type(exc).__name__, str(exc)[:120]))
        obs = ob_list(it, ('overflow', 'bounds'))
        Xl = [[_raw(X0)[i, j] for j in range(feats)] for i in range(rows)]
        yl = [_raw(y0)[j] for j in range(feats)]
        want = exact(Xl, yl)
        rc = cells(res)
        shape_ok = isinstance(res, SArr) and res.ndim == 1 and res.shape[0] == rows and res.ldtype == np.float64
        obs.append(('result-is-1d-float64', shape_ok))
        if with_out and with_out != 'strided':
            obs.append(('result-is-the-supplied-out-buffer', res is out_arg))
        if with_out and shape_ok:
            obs.append(('supplied-out-buffer-holds-the-result', conj([a == b for a, b in zip(cells(out_arg), rc)])))
        if shape_ok:
            if metric == 'euclidean':
                obs.append(('out[i] >= 0 and out[i]^2 == sum (x-y)^2', conj([(rc[i] >= 0) & (rc[i] * rc[i] == want[i]) for i in range(rows)])))
            elif metric == 'manhattan':
                obs.append(('out[i] == sum |x-y|', conj([rc[i] == want[i] for i in range(rows)])))
            else:
                obs.append(('out[i] * n_features == #{j: x_j != y_j}', conj([rc[i] * feats == want[i] for i in range(rows)])))
        obs.append(('inputs-unmodified', conj([a == b for a, b in zip(X.cells() + y.cells(), X0.cells() + y0.cells())])))
        po = PathOut(obs, {}, witness, desc='%s[%s] %dx%d' % (metric, dtype, rows, feats))
        po.refute_hints = dict(HINTS)
        return po
    return path


def dist_mismatch_job(metric, x_dtype, y_dtype):
    """a target whose element type differs from the data's is rejected with an error by the public wrapper (it is not converted
    silently: a narrowing conversion would measure the distance to another point)"""
    def path(ctx):
        K = KModule('libdist')
        X = sym_cells(x_dtype, (2, 1), 'x')
        y = sym_cells(y_dtype, (1,), 'y')
        exc = None
        try:
            getattr(K, metric)(X, y, None)
        except (Exception, KernelAssertion) as e:
            exc = e

        def witness(model):
            Xc, yc = conc_array(model, X), conc_array(model, y)
            out = {'inputs': {'metric': metric, 'X': Xc.tolist(), 'X.dtype': x_dtype, 'y': yc.tolist(), 'y.dtype': y_dtype}, 'skip_compare': True}
            try:
                mod = build_ext('libdist')
            except Exception as e:
                return dict(out, out=None, violated=None, exception='build failed: %r' % e)
            with core.concrete_mode():
                try:
                    r = getattr(mod, metric)(Xc, yc)
                    out['out'] = np.asarray(r).tolist()
                    out['violated'] = ['a target of another element type is accepted']
                    out['signature'] = '%s:mismatched-element-types-accepted' % metric
                except Exception as e:
                    out['out'] = None
                    out['exception'] = repr(e)
                    out['violated'] = []
            return out
        if exc is not None:
            name = type(exc).__name__
            # (the interpreter's fused-type dispatch reports TypeError where the compiled buffer acquisition reports ValueError:
            # both are rejections - the differential compares on 'Error')
            return PathOut([('rejected-with-an-error', name in ('DataInvalid', 'ValueError', 'TypeError'))], {}, witness, exc='Error',
                           desc='rejected: %s' % name)
        return PathOut([('a-target-of-another-element-type-is-rejected', False)], {}, witness, desc='accepted')
    return path


def dist_safety_job(metric, xr, yr, outr, out_dtype='float64', y_dtype=None):
    """memory safety for UNBOUNDED extents + prange independence, through the public wrapper.
    xr, yr = ranks of X and y; outr = rank of out, or None"""
    dtype = 'uint8' if metric == 'hamming' else 'float64'

    def path(ctx):
        K = KModule('libdist', abstract=True)
        it = K.it
        X = AbstractBuf('X', [core.fresh_int('dX', 0, 2 ** 40) for _ in range(xr)], dtype)     # extents bounded by the address space
        y = AbstractBuf('y', [core.fresh_int('dy', 0, 2 ** 40) for _ in range(yr)], y_dtype or dtype)
        out = None if outr is None else AbstractBuf('out', [core.fresh_int('do', 0, 2 ** 40) for _ in range(outr)], out_dtype)
        exc = None
        try:
            getattr(K, metric)(X, y, out)
        except (Exception, KernelAssertion) as e:
            exc = e
        valid_ranks = (xr == 2 and yr == 1 and outr in (None, 1)) and out_dtype == 'float64' and y_dtype in (None, dtype)
        if exc is not None:
            name = type(exc).__name__
            ok = name in ('DataInvalid', 'ValueError', 'TypeError', 'KernelAssertion', 'IndexError')
            # a rejection is the required behaviour for wrong rank / width / out size; for valid ranks it must be
            # caused by a genuine mismatch of sizes (the path condition then contains one)
            return PathOut([('malformed-input-is-rejected-with-an-error(not executed)', ok)], {}, None, exc=name,
                           desc='rejected: %s' % name)
        obs = ob_list(it, ('bounds', 'independence', 'overflow'))
        obs.append(('wrong-rank-never-reaches-the-kernel', valid_ranks))

        def witness(model, label=None):
            sx = [int(ev(model, d)) for d in X.shape]
            sy = [int(ev(model, d)) for d in y.shape]
            so = None if out is None else [int(ev(model, d)) for d in out.shape]
            o = {'inputs': {'metric': metric, 'X.shape': sx, 'y.shape': sy, 'out.shape': so, 'dtype': dtype}}
            if label is not None and 'overflow' in label:
                # an integer accumulator can overflow for these extents: run the real kernel on rows that differ from
                # the target everywhere and compare with the exact value
                try:
                    modr = build_ext('libdist')
                except Exception as e:
                    return dict(o, out=None, violated=None, exception='build failed: %r' % e)
                bad = []
                # the solver's extents are only a lower bound on what is needed; the widths at which the integer types
                # of the library wrap are tried concretely (one row)
                for width in (130, 260, 33000, 66000):
                    for dt_ in ((INT_DTYPES + UINT_DTYPES) if metric == 'hamming' else INT_DTYPES):
                        Xc = np.ones((1, width), dtype=dt_)
                        yc = np.zeros(width, dtype=dt_)
                        with core.concrete_mode():
                            r = getattr(modr, metric)(Xc, yc)
                        want = 1.0 if metric == 'hamming' else (float(width) if metric == 'manhattan' else math.sqrt(width))
                        if abs(float(r[0]) - want) > 1e-9 * max(1.0, want):
                            bad.append('%s[%s] with %d features returns %r instead of %r' % (metric, dt_, width, float(r[0]), want))
                    if bad:
                        break
                o['inputs']['tried'] = 'one row of ones against a target of zeros, widths 130/260/33000/66000, every integer dtype'
                o['out'] = bad
                o['violated'] = bad[:1]
                o['signature'] = '%s:integer-accumulator-overflows-for-wide-rows' % metric
                o['skip_compare'] = True
                return o
            if max(sx + sy + (so or [0])) > 64:
                return dict(o, out=None, violated=None)
            try:
                mod = build_ext('libdist', boundscheck=True)
            except Exception as e:
                return dict(o, out=None, violated=None, exception='build failed: %r' % e)
            with core.concrete_mode():
                try:
                    getattr(mod, metric)(np.zeros(sx, dtype=dtype), np.zeros(sy, dtype=dtype),
                                         None if so is None else np.zeros(so, dtype='float64'))
                    o['violated'] = []
                except IndexError as e:
                    o['violated'] = ['out-of-bounds-buffer-access(bounds-checked build raises IndexError)']
                    o['exception'] = repr(e)
                    o['signature'] = '%s:out-of-bounds-access' % metric
                except Exception as e:
                    o['violated'] = []
                    o['exception'] = repr(e)
            o['out'] = None
            o['skip_compare'] = True
            return o
        return PathOut(obs, {}, witness, desc='%s ranks X=%d y=%d out=%s: %d accesses' % (metric, xr, yr, outr, it.stats['accesses']))
    return path


# ---- libinfo -----------------------------------------------------------------------------------

def bincount_job(dtype, T, fa, fb, na, nb, same=False):
    def path(ctx):
        K = KModule('libinfo')
        it = K.it
        info = np.iinfo(np.dtype(dtype))
        a = sym_cells(dtype, (T, fa), 'a')
        b = a if same else sym_cells(dtype, (T, fb), 'b')
        for c in a.cells():
            ctx.add(core.to_z3_bool((c >= 0) & (c < na)))
        if not same:
            for c in b.cells():
                ctx.add(core.to_z3_bool((c >= 0) & (c < nb)))
        a0, b0 = a.copy(), b.copy()
        exc = None
        try:
            jc = K.matrix_bincount2d(a, b, na, nb if not same else na)
        except (Exception, KernelAssertion) as e:
            exc = e
        nbb = na if same else nb
        fbb = fa if same else fb

        def witness(model):
            ac, bc = conc_array(model, a), conc_array(model, b)
            out = {'inputs': {'dtype': dtype, 'a': ac.tolist(), 'b': bc.tolist(), 'n_a': na, 'n_b': nbb}}
            try:
                mod = build_ext('libinfo')
            except Exception as e:
                return dict(out, out=None, violated=None, exception='build failed: %r' % e)
            res = []
            for layout in ('C', 'F'):
                for nt in ('1', '8'):
                    os.environ['OMP_NUM_THREADS'] = nt
                    al = np.asfortranarray(ac) if layout == 'F' else ac
                    bl = np.asfortranarray(bc) if layout == 'F' else bc
                    with core.concrete_mode():
                        try:
                            r = mod.matrix_bincount2d(al, bl, na, nbb)
                        except Exception as e:
                            out.update(exception=repr(e), out=None, violated=['raises ' + type(e).__name__],
                                       signature='matrix_bincount2d:exception:' + type(e).__name__)
                            return out
                    res.append(r.tolist())
            os.environ['OMP_NUM_THREADS'] = '1'
            bad = []
            if any(x != res[0] for x in res):
                bad.append('counts-depend-on-layout-or-threads')
            want = np.zeros((fa, fbb, na, nbb), dtype=np.int64)
            for t in range(T):
                for x in range(fa):
                    for yv in range(fbb):
                        want[x, yv, int(ac[t, x]), int(bc[t, yv])] += 1
            if np.array(res[0]).tolist() != want.tolist():
                bad.append('joint-counts-not-exact')
            out['out'] = res[0]
            out['violated'] = bad
            out['skip_compare'] = True
            return out
        if exc is not None:
            return PathOut([('no-exception-on-valid-input', False)], {}, witness, exc=type(exc).__name__,
                           desc='raises %s: %s' % (type(exc).__name__, str(exc)[:120]))
        obs = ob_list(it, ('overflow', 'bounds'))
        ok = isinstance(jc, SArr) and jc.shape == (fa, fbb, na, nbb)
        obs.append(('shape-(features_a,features_b,n_a,n_b)', ok))
        if ok:
            rj = _raw(jc)
            conds = []
            for x in range(fa):
                for yv in range(fbb):
                    for i in range(na):
                        for j in range(nbb):
                            cnt = 0
                            for t in range(T):
                                cnt = cnt + ite(sand(_raw(a0)[t, x] == i, _raw(b0)[t, yv] == j), 1, 0)
                            conds.append(rj[x, yv, i, j] == cnt)
            obs.append(('jc[x,y,i,j] == #{t: a[t,x]=i and b[t,y]=j}', conj(conds)))
        obs.append(('inputs-unmodified', conj([p == q for p, q in zip(a.cells() + b.cells(), a0.cells() + b0.cells())])))
        return PathOut(obs, {}, witness, desc='matrix_bincount2d[%s] T=%d %dx%d states %dx%d' % (dtype, T, fa, fbb, na, nbb))
    return path


def bincount_safety_job(dtype, mismatched_len=False):
    """memory safety of matrix_bincount2d for unbounded extents under the function's own assertions"""
    def path(ctx):
        K = KModule('libinfo', abstract=True)
        it = K.it
        T = core.fresh_int('T', 0, 2 ** 31)
        T2 = core.fresh_int('T2', 0, 2 ** 31) if mismatched_len else T
        fa, fb = core.fresh_int('fa', 0, 2 ** 20), core.fresh_int('fb', 0, 2 ** 20)
        a = AbstractBuf('a', [T, fa], dtype)
        b = AbstractBuf('b', [T2, fb], dtype)
        na, nb = core.fresh_int('na', 0, 2 ** 31 - 1), core.fresh_int('nb', 0, 2 ** 31 - 1)
        exc = None
        try:
            K.matrix_bincount2d(a, b, na, nb)
        except (Exception, KernelAssertion) as e:
            exc = e
        if exc is not None:
            return PathOut([('rejected-with-an-error', type(exc).__name__ in ('KernelAssertion', 'AssertionError', 'ValueError'))],
                           {}, None, exc=type(exc).__name__, desc='rejected: %s' % type(exc).__name__)
        obs = ob_list(it, ('bounds', 'independence'))

        def witness(model):
            # a concrete input in the region the refuted obligation points to: a negative state id
            out = {'inputs': {'dtype': dtype, 'a': [[0, -1]], 'b': [[0, -1]], 'n_a': 1, 'n_b': 1}}
            if np.dtype(dtype).kind != 'i':
                return dict(out, out=None, violated=[], skip_compare=True)
            try:
                mod = build_ext('libinfo')
            except Exception as e:
                return dict(out, out=None, violated=None, exception='build failed: %r' % e)
            A = np.array([[0, -1]], dtype=dtype)
            with core.concrete_mode():
                try:
                    r = mod.matrix_bincount2d(A, A, 1, 1)
                    out['out'] = r.tolist()
                    out['violated'] = ['negative-state-id-accepted(counted-in-another-cell-or-out-of-bounds)']
                except Exception as e:
                    out['out'] = None
                    out['exception'] = repr(e)
                    out['violated'] = []
            out['signature'] = 'matrix_bincount2d:negative-state-id-not-rejected'
            out['skip_compare'] = True
            return out
        obs.append(('arrays-of-different-length-never-reach-the-loop', (T == T2) if mismatched_len else True))
        return PathOut(obs, {}, witness, desc='matrix_bincount2d[%s] abstract: %d accesses' % (dtype, it.stats['accesses']))
    return path


def jobs_for(prop, tier):
    J = []
    q = tier == 'quick'

    def add(func, name, **kw):
        J.append(dict(module='harness.kernels', func=func, name=name, kwargs=kw, sig_prefix='kernel',
                      deadline_s=280 if q else 1700, timeout_ms=30000 if q else 120000))
    if prop == 'C13':
        for metric, dts in (('euclidean', INT_DTYPES + FLOAT_DTYPES), ('manhattan', INT_DTYPES + FLOAT_DTYPES),
                            ('hamming', INT_DTYPES + UINT_DTYPES)):
            for dt in dts:
                add('dist_job', '%s[%s,2x2]' % (metric, dt), metric=metric, dtype=dt, rows=2, feats=2)
                if not q:
                    add('dist_job', '%s[%s,2x3]' % (metric, dt), metric=metric, dtype=dt, rows=2, feats=3)
            add('dist_job', '%s[%s,2x2,out]' % (metric, dts[0]), metric=metric, dtype=dts[0], rows=2, feats=2, with_out=True)
            add('dist_job', '%s[%s,1x1,out]' % (metric, dts[-1]), metric=metric, dtype=dts[-1], rows=1, feats=1, with_out=True)
            add('dist_job', '%s[%s,2x1,strided-out]' % (metric, dts[0]), metric=metric, dtype=dts[0], rows=2, feats=1, with_out='strided')
    if prop == 'C19':
        # the result must not depend on what the supplied out= buffer held before the call (it is pre-filled with 7.0)
        for metric, dt in (('euclidean', 'float64'), ('manhattan', 'float64'), ('manhattan', 'int16'), ('hamming', 'uint8')):
            add('dist_job', '%s[%s,2x2,out buffer holds old values]' % (metric, dt), metric=metric, dtype=dt, rows=2, feats=2, with_out=True)
    if prop in ('C13', 'C19'):
        for metric in ('euclidean', 'manhattan', 'hamming'):
            for xr, yr, outr in ((2, 1, None), (2, 1, 1), (1, 1, None), (3, 1, None), (2, 2, None), (2, 1, 2)):
                if prop == 'C19' and not (xr == 2 and yr == 1):
                    continue
                add('dist_safety_job', '%s-safety[X%dd,y%dd,out=%s]' % (metric, xr, yr, outr), metric=metric, xr=xr, yr=yr, outr=outr)
            if prop == 'C13':
                add('dist_safety_job', '%s-safety[out is float32]' % metric, metric=metric, xr=2, yr=1, outr=1, out_dtype='float32')
                add('dist_safety_job', '%s-safety[y has another element type]' % metric, metric=metric, xr=2, yr=1, outr=None,
                    y_dtype='int16' if metric != 'hamming' else 'int16')
                for xd, yd in ((('int8', 'int64'), ('float32', 'float64'), ('int64', 'int32')) if metric != 'hamming' else (('int8', 'int64'), ('uint16', 'uint8'))):
                    add('dist_mismatch_job', '%s[X %s, y %s: rejected]' % (metric, xd, yd), metric=metric, x_dtype=xd, y_dtype=yd)
    if prop == 'C18':
        for dt in (INT_DTYPES + UINT_DTYPES):
            add('bincount_job', 'bincount[%s,T=2,1x2,2x2]' % dt, dtype=dt, T=2, fa=1, fb=2, na=2, nb=2)
        add('bincount_job', 'bincount[int32,T=3,2x1,2x3]', dtype='int32', T=3, fa=2, fb=1, na=2, nb=3)
        add('bincount_job', 'bincount[int64,T=2,self,2 feat,2 states]', dtype='int64', T=2, fa=2, fb=2, na=2, nb=2, same=True)
        if not q:
            add('bincount_job', 'bincount[int16,T=4,2x2,3x2]', dtype='int16', T=4, fa=2, fb=2, na=3, nb=2)
    if prop in ('C18', 'C19'):
        for dt in ('int32', 'uint8', 'int64'):
            add('bincount_safety_job', 'bincount-safety[%s]' % dt, dtype=dt)
        if prop == 'C18':
            add('bincount_safety_job', 'bincount-safety[int32,mismatched-length]', dtype='int32', mismatched_len=True)
    return J
