"""C11  Ergodic trimming keeps exactly the heaviest strongly connected component."""
import itertools

import numpy as np
import z3

from symnp import core, loader, funcs, stubs
from symnp.core import SVal, ite, sand, sor, snot
from symnp.arr import SArr, _raw
from harness.common import PathOut, ev
from harness.cluster import conj, cells, run_oracle

META = {
    'files': ['enspara/msm/transition_matrices.py', 'enspara/msm/msm.py'],
    'functions': ['enspara.msm.transition_matrices.trim_disconnected', 'enspara.msm.transition_matrices.TrimMapping '
                  '(__init__, to_original, to_mapped, __eq__)', 'enspara.msm.msm.MSM.fit (trim=True: same result as trim_disconnected, 4 states)'],
    'bounds': {'quick': 'n<=3 states, symbolic non-negative integer counts, symbolic threshold >= 1, renumber on/off, '
                        'dense ndarray and COO input', 'thorough': 'n<=5'},
    'stubs': ['scipy.sparse.csgraph.connected_components = symbolic Warshall closure honouring connection=/directed=, classes '
              'numbered by smallest member (scipy numbering unspecified)', 'coo_matrix(dense)/toarray = SymCOO; COO matrices with repeated coordinates (count = sum of stored entries, as assigns_to_counts builds them)',
              'csr/csc/lil/dok/dia/bsr = symbolic shadow symnp/sparse.py (conformance-checked against the installed scipy in the C04/C07/C08 checks)'],
    'assumptions': ['threshold >= 1', 'oracle reachability is computed independently of the stub (own closure over the '
                    'thresholded edge relation)', 'ties in component population: any maximiser accepted'],
    'outside': ["scipy's own SCC implementation"],
}


def preload():
    loader.load('enspara.msm.transition_matrices')


def closure(e, n, AND, OR):
    r = [row[:] for row in e]
    for k in range(n):
        r = [[OR(r[i][j], AND(r[i][k], r[k][j])) for j in range(n)] for i in range(n)]
    return r


def oracle_trim(n, C, thr, K, trimmed, to_original, to_mapped, renumber, symbolic):
    AND = sand if symbolic else (lambda a, b: bool(a) and bool(b))
    OR = sor if symbolic else (lambda a, b: bool(a) or bool(b))
    e = [[True if i == j else ((C[i][j] >= thr) & (C[i][j] != 0)) for j in range(n)] for i in range(n)]
    R = closure(e, n, AND, OR)
    same = [[AND(R[i][j], R[j][i]) for j in range(n)] for i in range(n)]
    K = sorted(int(x) for x in K)
    obs = [('kept-set-non-empty', len(K) >= 1)]
    if not K:
        return obs
    obs.append(('kept-states-are-mutually-reachable', conj([same[i][j] for i in K for j in K])))
    obs.append(('kept-set-is-a-maximal-class', conj([snot(same[K[0]][j]) if symbolic else not same[K[0]][j]
                                                      for j in range(n) if j not in K])))
    rowsum = [sum(C[i][1:], C[i][0]) for i in range(n)]
    popK = sum([rowsum[i] for i in K[1:]], rowsum[K[0]])
    heav = []
    for v in range(n):
        if v in K:
            continue
        pv = 0
        for u in range(n):
            pv = pv + ite(same[v][u], rowsum[u], 0)
        heav.append(pv <= popK)
    obs.append(('kept-class-carries-the-largest-total-count', conj(heav)))
    if renumber:
        ok = len(trimmed) == len(K)
        obs.append(('trimmed-shape', ok))
        if ok:
            obs.append(('trimmed-keeps-original-counts-between-kept-states',
                        conj([trimmed[a][b] == C[K[a]][K[b]] for a in range(len(K)) for b in range(len(K))])))
        exp_orig = {a: K[a] for a in range(len(K))}
    else:
        ok = len(trimmed) == n
        obs.append(('trimmed-shape', ok))
        if ok:
            obs.append(('in-place-variant-zeroes-removed-states-only',
                        conj([trimmed[i][j] == (C[i][j] if (i in K and j in K) else 0) for i in range(n) for j in range(n)])))
        exp_orig = {k: k for k in K}
    obs.append(('mapping-is-the-order-preserving-bijection', {int(k): int(v) for k, v in to_original.items()} == exp_orig))
    obs.append(('to_mapped-is-the-inverse', {int(k): int(v) for k, v in to_mapped.items()} ==
                {v: k for k, v in exp_orig.items()}))
    return obs


def trim_job(n, renumber=True, form='dense', maxcount=None, dtype=int):
    # dtype: element type of the count matrix (a narrow integer type: every count fits, the row totals need not)
    if np.dtype(dtype).itemsize < 8 and maxcount is None:
        maxcount = int(np.iinfo(np.dtype(dtype)).max)
    tm = loader.load('enspara.msm.transition_matrices')

    def path(ctx):
        C = [[core.fresh_int('c', 0, maxcount) for _ in range(n)] for _ in range(n)]
        thr = core.fresh_int('thr', 1, None)
        ent = None
        if form == 'coo-dup':
            # a COO matrix with repeated coordinates, as assigns_to_counts builds them: the count of a cell is the SUM of
            # its stored entries
            dup = [(i, j) for i in range(n) for j in range(n) if i != j][:4]
            ent = [(C[i][j], i, j) for i in range(n) for j in range(n)]
            for (i, j) in dup:
                x = core.fresh_int('c2', 0, maxcount)
                ent.append((x, i, j))
                C[i][j] = C[i][j] + x
        A = funcs.np_array(C, dtype=dtype)
        A0 = A.copy()
        if form == 'dense':
            arg = A
        elif form == 'dense-F':              # column-major dense input (np.asfortranarray, a transposed view, pandas .values)
            A = A.T.copy().T
            A0 = A.copy()
            arg = A
        elif form == 'coo':
            arg = stubs.SymCOO(A)
        elif form in ('csr', 'csc', 'lil', 'dok', 'dia', 'bsr'):
            from symnp import sparse as ssp
            arg = ssp.CLASSES[form](A)
        else:
            arg = stubs.SymCOO([e[0] for e in ent], [e[1] for e in ent], [e[2] for e in ent], (n, n), np.dtype(int))
        exc = None
        try:
            mapping, trimmed = tm.trim_disconnected(arg, threshold=thr, renumber_states=renumber)
            type_ok = (type(trimmed) is type(arg))
            td = trimmed.toarray() if not form.startswith('dense') else trimmed
            tl = [[_raw(td)[i, j] for j in range(td.shape[1])] for i in range(td.shape[0])]
            K = sorted(int(v) for v in mapping.to_original.values())
            eq_self = (mapping == tm.TrimMapping([(o, t) for t, o in mapping.to_original.items()]))
        except Exception as e:
            exc = e

        def witness(model):
            cv = [[int(ev(model, x)) for x in row] for row in C]
            tv = int(ev(model, thr))
            out = {'inputs': {'counts': cv, 'threshold': tv, 'renumber_states': renumber, 'form': form}}
            import scipy.sparse
            a = np.array(cv, dtype=dtype)
            out['inputs']['element_type'] = str(np.dtype(dtype))
            if form == 'coo-dup':
                ev_ = [(int(ev(model, e[0])), e[1], e[2]) for e in ent]
                out['inputs']['stored_entries'] = [list(t) for t in ev_]
                argc = scipy.sparse.coo_matrix((np.array([t[0] for t in ev_]), (np.array([t[1] for t in ev_]), np.array([t[2] for t in ev_]))),
                                               shape=(n, n))
            elif form == 'dense-F':
                argc = np.asfortranarray(a)
            elif form in ('csr', 'csc', 'lil', 'dok', 'dia', 'bsr'):
                argc = getattr(scipy.sparse, form + '_matrix')(a)
            else:
                argc = a.copy() if form == 'dense' else scipy.sparse.coo_matrix(a)
            with core.concrete_mode():
                try:
                    m2, t2 = tm.trim_disconnected(argc, threshold=tv, renumber_states=renumber)
                    tok = type(t2) is type(argc)
                    t2d = np.asarray(t2.toarray() if not form.startswith('dense') else t2).tolist()
                except Exception as e:
                    out.update(exception=repr(e), out=None, violated=['raises ' + type(e).__name__],
                               signature='exception:' + type(e).__name__)
                    return out
            K2 = sorted(int(v) for v in m2.to_original.values())
            out['out'] = {'trimmed': t2d, 'to_original': {int(k): int(v) for k, v in m2.to_original.items()}}
            bad = run_oracle(oracle_trim(n, cv, tv, K2, t2d, m2.to_original, m2.to_mapped, renumber, False))
            if not tok:
                bad.append('container-type-changed')
            if form.startswith('dense') and argc.tolist() != cv:
                bad.append('caller-matrix-modified')
            out['violated'] = bad
            out['skip_compare'] = True      # component numbering / ties are unspecified; the real output is judged by the oracle
            return out
        if exc is not None:
            return PathOut([('no-exception', False)], {}, witness, exc=type(exc).__name__,
                           desc='raises %s: %s' % (type(exc).__name__, str(exc)[:100]))
        obs = oracle_trim(n, C, thr, K, tl, mapping.to_original, mapping.to_mapped, renumber, True)
        obs.append(('container-type-kept', type_ok))
        obs.append(('mapping-equality-is-reflexive-over-reconstruction', bool(eq_self)))
        obs.append(('caller-matrix-unmodified', conj([x == y for x, y in zip(A.cells(), A0.cells())])))
        return PathOut(obs, {'trimmed': tl}, witness, desc='trim n=%d K=%s' % (n, K))
    return path


def jobs(tier):
    J = [dict(module='harness.sparse_conf', func='conformance_job', name='sparse-shadow-conformance', kwargs={}, sig_prefix='trusted-base', deadline_s=280)]
    q = tier == 'quick'
    for n in ((1, 2, 3) if q else (1, 2, 3, 4, 5)):
        for ren in (True, False):
            for form in ('dense', 'dense-F', 'coo') + (('coo-dup',) if 2 <= n <= 3 else ()) + (('csr', 'csc', 'lil', 'dok', 'dia', 'bsr') if n == 2 or (n == 3 and not q) else ()):
                J.append(dict(module='harness.C11', func='trim_job', name='trim[n=%d,renumber=%s,%s]' % (n, ren, form),
                              kwargs=dict(n=n, renumber=ren, form=form), sig_prefix='trim_disconnected',
                              deadline_s=280 if q else 1700))
    # count matrices stored in a narrow integer type: every count fits, the per-state totals need not (they decide which class is kept)
    for dt_, form in (('uint8', 'dense'), ('int16', 'dense'), ('uint8', 'csr')):
        J.append(dict(module='harness.C11', func='trim_job', name='trim[n=3,%s counts,%s]' % (dt_, form),
                      kwargs=dict(n=3, renumber=True, form=form, dtype=dt_), sig_prefix='trim_disconnected', deadline_s=280 if q else 1700))
    # the estimator's trimming step: MSM.fit(trim=True) keeps exactly what trim_disconnected keeps (four states in two trajectories, so
    # that the count graph can fall into two back-and-forth pairs)
    J.append(dict(module='harness.C16', func='fit_job', name='fit[[3, 3],4 states,lag=1,normalize-noeq,trim=True]',
                  kwargs=dict(lengths=(3, 3), S=4, lag=1, builder='normalize-noeq', trim=True, sliding=True), sig_prefix='trim_disconnected',
                  deadline_s=280 if q else 1700, timeout_ms=40000 if q else 200000, tol=1e-5))
    return J
