"""C20  Rotamer assignment is a correct hysteresis state machine; transition bookkeeping."""
import itertools

import numpy as np
import z3

from symnp import core, loader, funcs
from symnp.core import SVal, SInt, SFloat, SBool, ite, sand, sor, snot
from symnp.arr import SArr, _raw, _unlazy
from harness.common import PathOut, ev
from harness.cluster import conj, cells, run_oracle, sel

META = {
    'files': ['enspara/geometry/rotamer.py', 'enspara/cards/disorder.py', 'enspara/ra/ra.py'],
    'functions': ['enspara.geometry.rotamer._rotamers', 'enspara.geometry.rotamer.is_buffered_transition',
                  'enspara.geometry.rotamer.get_gates', 'enspara.cards.disorder.transitions',
                  'enspara.ra.ra.where / RaggedArray.__init__ (flat+lengths)'],
    'bounds': {'quick': 'step lemma: every current state x boundary set in {[0,180,360],[0,160,360],[0,120,240,360]}, angle and '
                        'buffer width symbolic reals (covers sequences of any length); end-to-end _rotamers T<=3 frames; '
                        'transitions: 1-D length<=5, 2-D rows<=3 x length<=3, states symbolic ints',
               'thorough': 'end-to-end T<=6; transitions 1-D length<=8, 2-D rows<=3 x length<=5'},
    'stubs': ['np.digitize on a symbolic scalar = number of bin edges <= x (NumPy definition, right=False)'],
    'assumptions': ['angles in [0,360) and different from the exact gate values b_k +/- w (mod 360), as the property states',
                    'exact real arithmetic', '0 <= buffer width < 360/n_basins (the range the function accepts)'],
    'outside': ['dihedral_angles (mdtraj)', 'data-file based tests'],
}

BOUNDARY_SETS = [[0, 180, 360], [0, 160, 360], [0, 120, 240, 360]]


def preload():
    loader.load('enspara.geometry.rotamer')
    loader.load('enspara.cards.disorder')
    loader.load('enspara.ra.ra')


def basin_of(a, hb):
    """index of the basin containing angle a (generic)"""
    r = len(hb) - 2
    for s in range(len(hb) - 3, -1, -1):
        r = ite(a < hb[s + 1], s, r)
    return r


def inside_widened(a, s, hb, w):
    """angle a (in [0,360)) lies in basin s widened by w on both sides, modulo 360"""
    lo, hi = hb[s] - w, hb[s + 1] + w
    alts = []
    for k in (-360, 0, 360):
        alts.append((lo <= a + k) & (a + k <= hi))
    r = alts[0]
    for x in alts[1:]:
        r = r | x
    return r


def gate_free(ctx, a, hb, w):
    for s in range(len(hb) - 1):
        for g in (hb[s] - w, hb[s + 1] + w):
            for k in (-360, 0, 360):
                c = (a + k != g)
                ctx.add(core.to_z3_bool(c))


def gate_free_concrete(a, hb, w):
    return all(a + k != g for s in range(len(hb) - 1) for g in (hb[s] - w, hb[s + 1] + w) for k in (-360, 0, 360))


def sym_w_angle(ctx, hb, n_angles):
    nb = len(hb) - 1
    w = core.fresh_real('w')
    ctx.add(core.to_z3_real(w) >= 0)
    ctx.add(core.to_z3_real(w) * nb < 360)
    angs = []
    for _ in range(n_angles):
        a = core.fresh_real('ang')
        ctx.add(core.to_z3_real(a) >= 0)
        ctx.add(core.to_z3_real(a) < 360)
        gate_free(ctx, a, hb, w)
        angs.append(a)
    return w, angs


def region_sig(hb, s, wv):
    """known-finding region of the (boundaries, state, width) space: widened basin covers the circle"""
    if (hb[s + 1] - hb[s]) + 2 * wv >= 360:
        return 'self-overlap(basin width + 2*buffer >= 360)'
    return 'regular'


def step_job(hb, s):
    rot = loader.load('enspara.geometry.rotamer')

    def path(ctx):
        w, (a,) = sym_w_angle(ctx, hb, 1)
        exc = None
        try:
            r = rot.is_buffered_transition(s, a, list(hb), w)
        except Exception as e:
            exc = e

        def witness(model):
            wv, av = ev(model, w), ev(model, a)
            out = {'inputs': {'boundaries': hb, 'cur_state': s, 'buffer_width': float(wv), 'new_angle': float(av)}}
            with core.concrete_mode():
                try:
                    rr = rot.is_buffered_transition(s, float(av), list(hb), float(wv))
                except Exception as e:
                    out.update(exception=repr(e), out=None, violated=['raises ' + type(e).__name__],
                               signature='exception:' + type(e).__name__)
                    return out
            out['out'] = {'exit': bool(rr)}
            exp_exit = not bool(inside_widened(av, s, hb, wv))
            exact = float(av) == av and float(wv) == wv
            bad = []
            if bool(rr) != exp_exit and (exact or gate_free_concrete(float(av), hb, float(wv))):
                bad.append('exit-decision-differs-from-widened-basin-rule')
            out['violated'] = bad
            out['signature'] = 'exit-rule:' + region_sig(hb, s, wv)
            return out
        if exc is not None:
            return PathOut([('no-exception', False)], {}, witness, exc=type(exc).__name__)
        rb = r if isinstance(r, (bool, SBool)) else bool(r)
        want_exit = snot(inside_widened(a, s, hb, w))
        # region split so that a finding in the self-overlap regime does not hide others
        overlap = ((hb[s + 1] - hb[s]) + 2 * w >= 360)
        obs = [('exit-iff-outside-widened-basin[regular regime]', sor(overlap, rb == want_exit)),
               ('exit-iff-outside-widened-basin[self-overlap regime]', sor(snot(overlap), rb == want_exit))]
        return PathOut(obs, {'exit': r}, witness, desc='step hb=%s s=%d exit=%s' % (hb, s, r))
    return path


def run_job_(hb, T, zero_buffer=False, fixed_w=None, prior_hb=None):
    """fixed_w: concrete buffer width (the library's own callers pass 15); prior_hb: ANOTHER boundary set assigned first in the same
    process with the same buffer (phi before psi, as all_rotamers does) - nothing may be carried from one call to the next"""
    rot = loader.load('enspara.geometry.rotamer')
    nb = len(hb) - 1

    def path(ctx):
        w, angs = sym_w_angle(ctx, hb, T)
        if zero_buffer:
            ctx.add(core.to_z3_real(w) == 0)
        if fixed_w is not None:
            ctx.add(core.to_z3_real(w) == fixed_w)
            w = fixed_w
        # the self-overlap regime is a recorded finding of the step lemma; end-to-end runs stay below it
        for s in range(nb):
            ctx.add(core.to_z3_bool((hb[s + 1] - hb[s]) + 2 * w < 360))
        A = funcs.np_array(angs, dtype=float)
        A0 = A.copy()
        exc = None
        try:
            if prior_hb is not None:
                rot._rotamers(funcs.np_array([float(x) for x in (1.0, 150.0, 185.0, 300.0)], dtype=float), list(prior_hb), w)
            r = rot._rotamers(A, list(hb), w)
        except Exception as e:
            exc = e

        def oracle(states, angs_, w_):
            exp = [basin_of(angs_[0], hb)]
            for t in range(1, T):
                prev = exp[-1]
                ins = None
                for s in range(nb - 1, -1, -1):
                    x = inside_widened(angs_[t], s, hb, w_)
                    ins = x if ins is None else ite(prev == s, x, ins)
                exp.append(ite(ins, prev, basin_of(angs_[t], hb)))
            obs = [('first-frame-gets-its-basin', states[0] == exp[0]),
                   ('state-always-a-valid-basin', conj([(x >= 0) & (x < nb) for x in states])),
                   ('hysteresis-sequence', conj([states[t] == exp[t] for t in range(T)]))]
            if zero_buffer:
                obs.append(('zero-buffer-is-plain-binning', conj([states[t] == basin_of(angs_[t], hb) for t in range(T)])))
            return obs

        def witness(model):
            wv = ev(model, w) if isinstance(w, SVal) else w
            av = [ev(model, a) for a in angs]
            out = {'inputs': {'boundaries': hb, 'buffer_width': float(wv), 'angles': [float(x) for x in av]}}
            if prior_hb is not None:
                out['inputs']['boundaries assigned first in the same process'] = list(prior_hb)
            with core.concrete_mode():
                try:
                    if prior_hb is not None:
                        rot._rotamers(np.array([1.0, 150.0, 185.0, 300.0]), list(prior_hb), float(wv))
                    rr = rot._rotamers(np.array([float(x) for x in av]), list(hb), float(wv))
                except Exception as e:
                    out.update(exception=repr(e), out=None, violated=['raises ' + type(e).__name__],
                               signature='exception:' + type(e).__name__)
                    return out
            out['out'] = {'states': [int(x) for x in rr]}
            bad = []
            if all(float(x) == x for x in av + [wv]):
                bad = run_oracle(oracle([int(x) for x in rr], av, wv))
            if str(rr.dtype) != 'int16':
                bad.append('output-dtype-not-int16')
            out['violated'] = bad
            return out
        if exc is not None:
            return PathOut([('no-exception', False)], {}, witness, exc=type(exc).__name__)
        obs = oracle(cells(r), angs, w)
        obs.append(('int16-output', str(r.dtype) == 'int16'))
        obs.append(('angles-unmodified', conj([x == y for x, y in zip(A.cells(), A0.cells())])))
        return PathOut(obs, {'states': r}, witness, desc='_rotamers hb=%s T=%d' % (hb, T))
    return path


def transitions_job(shape, S=3):
    dis = loader.load('enspara.cards.disorder')
    rows, L = shape if len(shape) == 2 else (None, shape[0])

    def path(ctx):
        n = L if rows is None else rows * L
        vals = [core.fresh_int('st', 0, S - 1) for _ in range(n)]
        A = funcs.np_array(vals, dtype=int)
        if rows is not None:
            A = A.reshape(rows, L)
        A0 = A.copy()
        exc = None
        try:
            tt = dis.transitions(A)
            if rows is None:
                got = [[int(x) for x in cells(_unlazy(tt))]]
            else:
                got = [[int(x) for x in cells(r)] for r in tt._array]
        except Exception as e:
            exc = e

        def oracle(got_, vals_):
            R = 1 if rows is None else rows
            obs = [('one-row-of-transition-times-per-trajectory', len(got_) == R)]
            if len(got_) != R:
                return obs
            conds = []
            for r in range(R):
                for t in range(L - 1):
                    differ = vals_[r * L + t] != vals_[r * L + t + 1]
                    conds.append(differ if t in got_[r] else snot(differ))
                conds.append(all(0 <= t < L - 1 for t in got_[r]) and sorted(got_[r]) == list(got_[r]))
            obs.append(('n-reported-iff-frames-n-and-n+1-differ', conj(conds)))
            return obs

        def classify(cv):
            """region of the input space (for known findings)"""
            if rows is None:
                return 'regular'
            per_row = [any(cv[r * L + t] != cv[r * L + t + 1] for t in range(L - 1)) for r in range(rows)]
            if not any(per_row):
                return '2d:no-transition-anywhere'
            if not per_row[-1]:
                return '2d:trailing-trajectory-without-transition'
            return 'regular'

        def witness(model):
            cv = [int(ev(model, v)) for v in vals]
            arr = np.array(cv).reshape(-1, L) if rows is not None else np.array(cv)
            out = {'inputs': {'assignments': arr.tolist()}}
            with core.concrete_mode():
                try:
                    t2 = dis.transitions(arr)
                    g2 = [[int(x) for x in t2]] if rows is None else [[int(x) for x in r] for r in t2._array]
                except Exception as e:
                    out.update(exception=repr(e), out=None, violated=['raises ' + type(e).__name__],
                               signature='%s:exception:%s' % (classify(cv), type(e).__name__))
                    return out
            out['out'] = g2
            out['violated'] = run_oracle(oracle(g2, cv))
            out['signature'] = classify(cv) + ':wrong-result'
            return out
        if exc is not None:
            return PathOut([('no-exception', False)], {}, witness, exc=type(exc).__name__,
                           desc='raises %s' % type(exc).__name__)
        obs = oracle(got, vals)
        obs.append(('input-unmodified', conj([x == y for x, y in zip(A.cells(), A0.cells())])))
        return PathOut(obs, got, witness, desc='transitions shape=%s' % (shape,))
    return path


def jobs(tier):
    J = []
    q = tier == 'quick'

    def add(func, name, **kw):
        J.append(dict(module='harness.C20', func=func, name=name, kwargs=kw, sig_prefix=func.rstrip('_'),
                      deadline_s=250 if q else 1500))
    for hb in BOUNDARY_SETS:
        for s in range(len(hb) - 1):
            add('step_job', 'step[%s,s=%d]' % (hb, s), hb=hb, s=s)
        for T in ((1, 2, 3) if q else (1, 2, 3, 4, 5, 6)):
            add('run_job_', 'run[%s,T=%d]' % (hb, T), hb=hb, T=T)
        add('run_job_', 'run[%s,T=3,w=0]' % hb, hb=hb, T=3, zero_buffer=True)
    # the library's own calling pattern: buffer 15 (concrete), one boundary set assigned after another in the same process
    for prior, hb in (([0, 180, 360], [0, 160, 360]), ([0, 160, 360], [0, 180, 360]), ([0, 160, 360], [0, 120, 240, 360])):
        add('run_job_', 'run[%s,T=3,w=15,after %s in the same process]' % (hb, prior), hb=hb, T=3, fixed_w=15.0, prior_hb=prior)
        add('run_job_', 'run[%s,T=2,w=0,after %s in the same process]' % (hb, prior), hb=hb, T=2, fixed_w=0.0, prior_hb=prior)
    for L in ((2, 3, 4, 5) if q else (2, 3, 4, 5, 6, 7, 8)):
        add('transitions_job', 'transitions[1d,L=%d]' % L, shape=(L,))
    for R in (1, 2, 3):
        for L in ((2, 3) if q else (2, 3, 4, 5)):
            add('transitions_job', 'transitions[2d,%dx%d]' % (R, L), shape=(R, L), S=2 if R * L > 6 else 3)
    return J
