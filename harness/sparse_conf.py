"""Trusted-base check for symnp/sparse.py: every operation the shadow models is run on the installed scipy and on the
shadow with the same concrete numbers; result kind (format / dense / scalar / exception type), element type, values and
data sharing must agree.  A disagreement is a harness error of the properties that use the shadow (never a VIOLATION)."""
import warnings

import numpy as np
import scipy.sparse as sp
import scipy.sparse.linalg as spl

from symnp import core, funcs, sparse, stubs
from symnp.arr import SArr
from harness.common import PathOut

MATS = [np.array([[5, 2, 0], [3, 4, 1], [0, 2, 6]]),
        np.array([[1.5, 0.0, 2.0], [0.0, 0.0, 0.5], [4.0, 1.0, 0.0]]),
        np.array([[0, 7], [3, 0]]),
        np.array([[2.0, 1.0, 0.0, 0.0], [0.5, 0.0, 0.0, 3.0], [0.0, 0.0, 1.0, 1.0], [1.0, 0.0, 2.0, 0.0]])]


def describe_real(x):
    if isinstance(x, BaseException):
        return ('exc', type(x).__name__)
    if sp.issparse(x):
        return ('sparse', x.format, str(x.dtype), np.asarray(x.toarray()).tolist())
    if isinstance(x, np.matrix):
        return ('matrix', str(x.dtype), np.asarray(x).tolist())
    if isinstance(x, np.ndarray):
        return ('dense', str(x.dtype), np.asarray(x).tolist())
    if isinstance(x, (bool, np.bool_)):
        return ('bool', bool(x))
    if isinstance(x, tuple):
        return ('tuple',) + tuple(describe_real(y) for y in x)
    if isinstance(x, (int, float, np.integer, np.floating)):
        return ('scalar', float(x))
    return ('other', repr(x))


def describe_sym(x):
    if isinstance(x, BaseException):
        return ('exc', type(x).__name__)
    if isinstance(x, sparse.SymSp):
        return ('sparse', x.format, str(x.dtype), np.asarray(x.toarray().typed()).tolist())
    if type(x).__name__ == 'SymMatrix':
        return ('matrix', str(x.dtype), np.asarray(x.view_plain().typed()).tolist())
    if isinstance(x, SArr):
        return ('dense', str(x.dtype), np.asarray(x.typed()).tolist())
    if isinstance(x, np.ndarray):
        return ('dense', str(x.dtype), x.tolist())
    if isinstance(x, (bool, np.bool_)):
        return ('bool', bool(x))
    if isinstance(x, tuple):
        return ('tuple',) + tuple(describe_sym(y) for y in x)
    if isinstance(x, (int, float, np.integer, np.floating)):
        return ('scalar', float(x))
    return ('other', repr(x))


def close(a, b):
    if type(a) != type(b):
        if isinstance(a, (int, float)) and isinstance(b, (int, float)):
            return abs(a - b) <= 1e-9 * max(1, abs(a))
        return False
    if isinstance(a, (list, tuple)):
        return len(a) == len(b) and all(close(x, y) for x, y in zip(a, b))
    if isinstance(a, float):
        return abs(a - b) <= 1e-9 * max(1, abs(a)) or (a != a and b != b)
    return a == b


def shares_real(x, y):
    dx, dy = getattr(x, 'data', None), getattr(y, 'data', None)
    if isinstance(dx, np.ndarray) and isinstance(dy, np.ndarray) and dx.dtype != object and dy.dtype != object:
        return bool(np.shares_memory(dx, dy))
    return None


def shares_sym(x, y):
    if x.format in ('lil', 'dok') or y.format in ('lil', 'dok'):
        return None
    return x._data is y._data


def ops():
    """(label, function(module namespace M, matrix A, float copy Af) -> result).  M gives the constructors."""
    O = []

    def add(label, f):
        O.append((label, f))
    add('T', lambda M, A: A.T)
    add('A+A.T', lambda M, A: A + A.T)
    add('A+A', lambda M, A: A + A)
    add('A-A.T', lambda M, A: A - A.T)
    add('A+0', lambda M, A: A + 0)
    add('A+1', lambda M, A: A + 1)
    add('A/2', lambda M, A: A / 2)
    add('A/2.0', lambda M, A: A / 2.0)
    add('(A+A.T)/2', lambda M, A: (A + A.T) / 2)
    add('type(A)(A+A.T)/2', lambda M, A: type(A)(A + A.T) / 2)
    add('A*2', lambda M, A: A * 2)
    add('A*2.5', lambda M, A: A * 2.5)
    add('multiply col', lambda M, A: A.multiply(M.vec(A.shape[0])[:, None]))
    add('multiply row', lambda M, A: A.multiply(M.vec(A.shape[1])))
    add('multiply col row', lambda M, A: A.multiply(M.vec(A.shape[0])[:, None]).multiply(M.vec(A.shape[1])))
    add('multiply scalar', lambda M, A: A.multiply(3))
    add('A.dot(A)', lambda M, A: A.dot(A))
    add('sum', lambda M, A: A.sum())
    add('sum0', lambda M, A: A.sum(axis=0))
    add('sum1', lambda M, A: A.sum(axis=1))
    add('sum1/sum', lambda M, A: A.sum(axis=1) / A.sum())
    add('asfptype', lambda M, A: A.asfptype())
    add('asfptype is', lambda M, A: A.asfptype() is A)
    add('tocsr is', lambda M, A: A.tocsr() is A)
    add('tocsc is', lambda M, A: A.tocsc() is A)
    add('tocoo is', lambda M, A: A.tocoo() is A)
    add('tolil is', lambda M, A: A.tolil() is A)
    add('tocsr', lambda M, A: A.tocsr())
    add('tolil', lambda M, A: A.tolil())
    add('tocoo', lambda M, A: A.tocoo())
    add('type(A)(A) is', lambda M, A: type(A)(A) is A)
    add('type(A)(A) shares', lambda M, A: M.shares(type(A)(A), A))
    add('csr_matrix(A) shares', lambda M, A: M.shares(M.csr_matrix(A), A))
    add('csr_matrix(A).asfptype() shares', lambda M, A: M.shares(M.csr_matrix(A).asfptype(), A))
    add('A.T shares', lambda M, A: M.shares(A.T, A))
    add('A.copy() shares', lambda M, A: M.shares(A.copy(), A))
    add('type(A)(dense)', lambda M, A: type(A)(M.dense([[0.0, 1.0], [2.0, 0.0]])))
    add('type(A)(csr)', lambda M, A: type(A)(M.csr_matrix(M.dense([[0.0, 1.0], [2.0, 0.0]]))))
    add('astype float', lambda M, A: A.astype(float))
    add('len', lambda M, A: len(A))
    add('eye-A', lambda M, A: M.eye(A.shape[0]) - A)
    add('(A-A.T).maximum(0)', lambda M, A: (A - A.T).maximum(0))
    add('A.maximum(0)', lambda M, A: A.maximum(0))
    add('A<0', lambda M, A: A < 0)
    add('A>2', lambda M, A: A > 2)
    add('toarray', lambda M, A: A.toarray())
    add('todense', lambda M, A: A.todense())
    add('todense()[1]', lambda M, A: A.todense()[1])
    add('todense()[1, 0]', lambda M, A: A.todense()[1, 0])
    add('todense().sum(axis=1)', lambda M, A: A.todense().sum(axis=1))
    add('todense().sum(1)[0] - todense()[0, 0]', lambda M, A: A.todense().sum(axis=1)[0] - A.todense()[0, 0])
    add('np.array(todense())', lambda M, A: M.array(A.todense()))
    add('np.asarray(sum1).flatten()', lambda M, A: M.asarray(A.sum(axis=1)).flatten())
    add('todense() + todense().T', lambda M, A: A.todense() + A.todense().T)
    add('2 * todense()', lambda M, A: 2 * A.todense())
    add('todense() * todense()', lambda M, A: A.todense() * A.todense())
    add('assign (1,1) matrix into a cell', lambda M, A: M.assign_cell(A))
    add('shape', lambda M, A: A.shape == tuple(A.toarray().shape))
    add('nnz', lambda M, A: A.nnz)
    add('reshape same', lambda M, A: A.reshape(A.shape[0], A.shape[1]))
    add('getitem cols', lambda M, A: A[:, M.ints([0, A.shape[1] - 1])])
    add('getitem col', lambda M, A: A[:, M.ints([1])])
    add('getitem ij', lambda M, A: A[1, 0])
    add('setitem rows scalar', lambda M, A: M.setitem(A[:, M.ints([0, 1])], M.ints([0, A.shape[0] - 1]), 1.0))
    add('setitem rows zero', lambda M, A: M.setitem(A[:, M.ints([1])], M.ints([0]), 0.0))
    add('setitem diag', lambda M, A: M.setitem(A.tolil(), (M.arange(A.shape[0]), M.arange(A.shape[0])), M.zeros(A.shape[0])))
    add('dia.dot', lambda M, A: M.dia_matrix((M.vec(A.shape[0]), 0), A.shape).tocsr().dot(M.csr_matrix(A).asfptype()))
    add('data', lambda M, A: A.data if A.format in ('csr', 'csc', 'coo') else None)
    add('indices', lambda M, A: A.indices if A.format in ('csr', 'csc') else None)
    add('indptr', lambda M, A: A.indptr if A.format in ('csr', 'csc') else None)
    add('row/col', lambda M, A: (A.row, A.col) if A.format == 'coo' else None)
    add('spsolve k=1', lambda M, A: M.spsolve(M.spd(A.shape[0]), A.tolil()[:, M.ints([0])]))
    add('spsolve k=2', lambda M, A: M.spsolve(M.spd(A.shape[0]), A.tolil()[:, M.ints([0, 1])]))
    add('spsolve k=2 reshape sum1', lambda M, A: M.spsolve(M.spd(A.shape[0]), A.tolil()[:, M.ints([0, 1])]).reshape(A.shape[0], 2).sum(axis=1))
    add('compressed ctor', lambda M, A: M.csr_matrix((A.tocsr().data, A.tocsr().indices, A.tocsr().indptr), shape=A.shape))
    add('identity(csc) - A.tocsc()', lambda M, A: M.identity(A.shape[0], format='csc') - A.tocsc())
    add('identity default', lambda M, A: M.identity(A.shape[0]))
    add('eye csr', lambda M, A: M.eye(A.shape[0], format='csr') + A)
    add('diags(v) * A', lambda M, A: M.diags(M.vec(A.shape[0])) * A.asfptype())
    add('A * diags(v)', lambda M, A: A.asfptype() * M.diags(M.vec(A.shape[1])))
    add('diags(v)', lambda M, A: M.diags(M.vec(A.shape[0])))
    add('where', lambda M, A: M.where(A < 0))
    add('inplace data*=2 visible through csr_matrix(A)', lambda M, A: M.inplace(A))
    return O


class RealNS:
    def __getattr__(self, n):
        return getattr(sp, n)

    vec = staticmethod(lambda n: np.arange(1, n + 1, dtype=float))
    dense = staticmethod(lambda x: np.array(x))
    ints = staticmethod(lambda x: np.array(x, dtype=int))
    arange = staticmethod(np.arange)
    zeros = staticmethod(np.zeros)
    eye = staticmethod(np.eye)
    where = staticmethod(np.where)
    array = staticmethod(np.array)
    asarray = staticmethod(np.asarray)

    @staticmethod
    def assign_cell(A):
        X = A.todense().copy().astype(float)
        X[0, 0] = X.sum(axis=1)[0] / 2
        return X
    shares = staticmethod(shares_real)
    spsolve = staticmethod(spl.spsolve)

    @staticmethod
    def spd(n):
        return np.eye(n) * 2.0 + np.triu(np.ones((n, n)), 1) * 0.5

    @staticmethod
    def setitem(R, idx, v):
        R[idx] = v
        return R

    @staticmethod
    def inplace(A):
        if A.format != 'csr' or A.dtype.kind != 'f':
            return None
        B = sp.csr_matrix(A).asfptype()
        B.data *= 2
        return A.toarray()


class SymNS:
    def __getattr__(self, n):
        return getattr(stubs.MODULE_PROXIES['scipy.sparse'], n)

    vec = staticmethod(lambda n: SArr.from_typed(np.arange(1, n + 1, dtype=float)))
    dense = staticmethod(lambda x: SArr.from_typed(np.array(x)))
    ints = staticmethod(lambda x: SArr.from_typed(np.array(x, dtype=int)))
    arange = staticmethod(lambda n: funcs.np_arange(n))
    zeros = staticmethod(lambda n: funcs.np_zeros(n))
    eye = staticmethod(lambda n: funcs.np_eye(n))
    where = staticmethod(funcs.np_where)
    array = staticmethod(funcs.np_array)
    asarray = staticmethod(funcs.np_asarray)

    @staticmethod
    def assign_cell(A):
        X = A.todense().copy().astype(float)
        X[0, 0] = X.sum(axis=1)[0] / 2
        return X
    shares = staticmethod(shares_sym)
    spsolve = staticmethod(stubs.sym_spsolve)

    @staticmethod
    def spd(n):
        return SArr.from_typed(np.eye(n) * 2.0 + np.triu(np.ones((n, n)), 1) * 0.5)

    @staticmethod
    def setitem(R, idx, v):
        R[idx] = v
        return R

    @staticmethod
    def inplace(A):
        if A.format != 'csr' or A.dtype.kind != 'f':
            return None
        B = sparse.CLASSES['csr'](A).asfptype()
        B.data *= 2
        return A.toarray()


def run_one(ns, A, f, describe):
    with warnings.catch_warnings():
        warnings.simplefilter('ignore')
        try:
            return describe(f(ns, A))
        except (core.Unsupported, core.Inconclusive):
            raise
        except Exception as e:
            return describe(e)


def conformance_job():
    def path(ctx):
        bad = []
        unsupported = []
        n_cmp = 0
        for a in MATS:
            for fmt in sparse.FORMATS:
                for label, f in ops():
                    real = run_one(RealNS(), getattr(sp, fmt + '_matrix')(a), f, describe_real)
                    try:
                        sym = run_one(SymNS(), sparse.CLASSES[fmt](SArr.from_typed(a.copy())), f, describe_sym)
                    except core.Unsupported as e:
                        unsupported.append('%s[%s]: %s' % (label, fmt, str(e)[:60]))
                        continue
                    n_cmp += 1
                    if real[0] == 'exc' and sym[0] == 'exc':
                        ok = real[1] == sym[1]
                    else:
                        ok = close(list(real), list(sym))
                    if not ok:
                        bad.append('%s[%s %s %s]: scipy %r, shadow %r' % (label, fmt, a.dtype, a.shape, real, sym))
        obs = [('the sparse shadow agrees with the installed scipy on %d operation instances' % n_cmp, not bad)]
        po = PathOut(obs, {}, None, desc='sparse shadow conformance: %d comparisons, %d not modelled' % (n_cmp, len(set(unsupported))))
        po.conformance_failures = bad
        if bad:
            import os
            if os.environ.get('VERIF_DEBUG'):
                print('\n'.join(bad))
                print('NOT MODELLED:', sorted(set(unsupported)))
            raise RuntimeError('sparse shadow disagrees with scipy (trusted base broken): ' + ' || '.join(bad[:6]))
        return po
    return path


if __name__ == '__main__':
    ex = core.Explorer()
    for r in ex.explore(conformance_job()):
        print(r.status if hasattr(r, 'status') else r, getattr(r, 'error', None))
        if r.value is not None:
            print(r.value.desc)
        break
