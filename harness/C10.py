"""C10  Nearest-center assignment and per-trajectory bookkeeping are exact."""
import itertools
import math
from fractions import Fraction

import numpy as np
import z3

from symnp import core, loader, funcs
from symnp.core import SVal, SInt, SFloat, SBool, ite, sand
from symnp.arr import SArr, _raw, _unlazy
from harness.common import PathOut, ev
from harness import cluster
from harness.cluster import order_preserved, UNFAITHFUL, Metric, sel, gmin, conj, cells, scale_of, concrete_metric, run_oracle

META = {
    'files': ['enspara/cluster/util.py', 'enspara/ra/ra.py'],
    'functions': ['enspara.cluster.util.assign_to_nearest_center (both branches)', 'enspara.cluster.util.find_cluster_centers',
                  'enspara.cluster.util.ClusterResult.partition', 'enspara.ra.ra.partition_indices', 'enspara.ra.ra.partition_list',
                  'enspara.ra.ra.RaggedArray.__init__ (flat+lengths)', 'enspara.cluster.util.MolecularClusterMixin.predict',
                  'enspara.cluster.util.compute_batches'],
    'bounds': {'quick': 'assignment: N<=4 frames, K<=5 centers (arbitrary tokens, duplicates allowed); find_cluster_centers N<=4, '
                        '<=3 labels; partition: every composition of N<=6 into trajectory lengths; partition_indices: 3 '
                        'trajectories of UNBOUNDED symbolic length; compute_batches: <=3 lengths, unbounded values',
               'thorough': 'assignment N<=6,K<=7; find_cluster_centers N<=7, <=4 labels; partition N<=9 (all compositions); partition_indices / batches 6 trajectories'},
    'stubs': ['metric = uninterpreted function D over N+K tokens', 'trajectory with .xyz = token array subclass'],
    'assumptions': ['exact real arithmetic', 'values of the flat arrays are opaque tokens (fresh variables)'],
    'outside': ['batch_reassign / reassign (mdtraj, joblib, psutil I/O)'],
}


def preload():
    cluster.mods()
    loader.load('enspara.ra.ra')


class TokTraj(SArr):
    """token trajectory duck type with an `xyz` attribute (selects the per-frame branch)"""
    @property
    def xyz(self):
        return self


def assign_job(N, K, xyz=False, entry='function'):
    kc, km, hy, cu, ops = cluster.mods()
    U = N + K

    def path(ctx):
        M = Metric(ctx, U)
        X = SArr.from_typed(np.arange(N))
        cs = [core.fresh_int('ctr', 0, U - 1) for _ in range(K)]
        if xyz:
            C = funcs.np_array(cs, dtype=int).view(TokTraj)
            C.ldtype = np.dtype(int)
        else:
            C = list(cs)
        exc = None
        try:
            if entry == 'function':
                a, d = cu.assign_to_nearest_center(X, C, M)
                cidx = None
            else:
                est = kc.KCenters(M, n_clusters=1)
                est.result_ = cu.ClusterResult(center_indices=None, assignments=None, distances=None, centers=C)
                r = est.predict(X)
                a, d, cidx = r.assignments, r.distances, r.center_indices
        except Exception as e:
            exc = e

        def oracle(a_, d_, c_, dfun):
            obs = [('labels-in-range', conj([(x >= 0) & (x < K) for x in a_]))]
            mins = []
            for i in range(N):
                m = None
                for j in range(K):
                    x = dfun(i, c_[j])
                    m = x if m is None else gmin(m, x)
                mins.append(m)
            obs.append(('distance-is-the-minimum-over-centers', conj([d_[i] == mins[i] for i in range(N)])))
            obs.append(('assigned-center-attains-the-distance', conj([dfun(i, sel(c_, a_[i])) == d_[i] for i in range(N)])))
            return obs

        def witness(model):
            T = M.table(model)
            sc = scale_of([x for row in T for x in row])
            metric, Mx = concrete_metric(T, sc)
            if not order_preserved(T, Mx):
                return dict(UNFAITHFUL, inputs={'D': [[float(x) for x in row] for row in T]})
            cc = [int(ev(model, v)) for v in cs]
            out = {'inputs': {'N': N, 'K': K, 'xyz': xyz, 'entry': entry, 'centers': cc,
                              'D': [[float(x) for x in row] for row in T]}}

            class CT(np.ndarray):
                @property
                def xyz(self):
                    return self
            Cc = np.array(cc).view(CT) if xyz else [np.int64(c) for c in cc]
            with core.concrete_mode():
                try:
                    if entry == 'function':
                        ca, cd = cu.assign_to_nearest_center(np.arange(N), Cc, metric)
                    else:
                        est = kc.KCenters(metric, n_clusters=1)
                        est.result_ = cu.ClusterResult(center_indices=None, assignments=None, distances=None, centers=Cc)
                        r = est.predict(np.arange(N))
                        ca, cd = r.assignments, r.distances
                except Exception as e:
                    out['exception'] = repr(e)
                    out['out'] = None
                    out['violated'] = ['raises ' + type(e).__name__]
                    out['signature'] = 'exception:' + type(e).__name__
                    return out
            co = {'assignments': [int(x) for x in ca], 'distances': [float(x) / sc for x in cd]}
            out['out'] = co
            dfun = lambda i, j: float(T[int(i)][int(j)])
            out['violated'] = run_oracle(oracle(co['assignments'], co['distances'], cc, dfun))
            if not metric.untouched():
                out['violated'].append('arrays returned by the metric were written to')
                out['signature'] = 'assign:writes-into-metric-result'
            return out
        if exc is not None:
            return PathOut([('no-exception', False)], {}, witness, exc=type(exc).__name__)
        obs = oracle(cells(a), cells(d), cs, M.d)
        obs.append(('arrays returned by the metric (possibly views of its own table) are not written to', M.untouched()))
        return PathOut(obs, {'assignments': a, 'distances': d}, witness, desc='assign N=%d K=%d' % (N, K))
    return path


def fcc_job(N, L):
    kc, km, hy, cu, ops = cluster.mods()

    def path(ctx):
        lab = [core.fresh_int('lab', 0, L - 1) for _ in range(N)]
        dist = [core.fresh_real('dist') for _ in range(N)]
        for x in dist:
            ctx.add(core.to_z3_real(x) >= 0)
        a = funcs.np_array(lab, dtype=int)
        d = funcs.np_array(dist, dtype=float)
        a0, d0 = a.copy(), d.copy()
        exc = None
        try:
            r = cu.find_cluster_centers(a, d)
        except Exception as e:
            exc = e

        def oracle(r_, lab_, dist_):
            r_ = list(r_)
            present = sorted(set(int(x) for x in lab_)) if not any(isinstance(x, SVal) for x in lab_) else None
            obs = []
            if present is not None:
                obs.append(('one-center-per-present-label', len(r_) == len(present)))
                if len(r_) != len(present):
                    return obs
                for i, l in enumerate(present):
                    ri = int(r_[i])
                    obs.append(('center-%d-is-member-of-minimal-distance' % i,
                                0 <= ri < N and lab_[ri] == l and all(dist_[ri] <= dist_[m] for m in range(N) if lab_[m] == l)))
                return obs
            # symbolic: result length is concrete (np.unique was concretised); labels ascending
            k = len(r_)
            mem = [sel(lab_, r_[i]) for i in range(k)]
            obs.append(('centers-in-range', conj([(x >= 0) & (x < N) for x in r_])))
            obs.append(('labels-ascending-and-distinct', conj([mem[i] < mem[i + 1] for i in range(k - 1)])))
            obs.append(('every-label-present-is-represented',
                        conj([core.sor(*[lab_[m] == mem[i] for i in range(k)]) for m in range(N)])))
            obs.append(('center-has-minimal-distance-in-its-label',
                        conj([core.sor(lab_[m] != mem[i], sel(dist_, r_[i]) <= dist_[m]) for i in range(k) for m in range(N)])))
            return obs

        def witness(model):
            cl = [int(ev(model, v)) for v in lab]
            cd = [ev(model, v) for v in dist]
            sc = scale_of(cd)
            out = {'inputs': {'labels': cl, 'distances': [float(x) for x in cd]}}
            ca, cdd = np.array(cl), np.array([float(x * sc) for x in cd])
            with core.concrete_mode():
                try:
                    rr = cu.find_cluster_centers(ca, cdd)
                except Exception as e:
                    out.update(exception=repr(e), out=None, violated=['raises ' + type(e).__name__],
                               signature='exception:' + type(e).__name__)
                    return out
            out['out'] = {'centers': [int(x) for x in rr]}
            bad = run_oracle(oracle([int(x) for x in rr], cl, [float(x) for x in cd]))
            if ca.tolist() != cl:
                bad.append('labels-modified')
            out['violated'] = bad
            return out
        if exc is not None:
            return PathOut([('no-exception', False)], {}, witness, exc=type(exc).__name__)
        obs = oracle(cells(r), lab, dist)
        obs.append(('inputs-unmodified', conj([x == y for x, y in zip(a.cells() + d.cells(), a0.cells() + d0.cells())])))
        return PathOut(obs, {'centers': r}, witness, desc='find_cluster_centers N=%d' % N)
    return path


def rows_of(x):
    if hasattr(x, '_array'):
        return [list(cells(r)) for r in x._array]
    if isinstance(x, np.ndarray):
        if x.ndim == 2:
            return [list(cells(r)) for r in x]
        return [list(cells(x))]
    return [list(r) for r in x]


def partition_job(lengths, k=2, ci_array=False):
    """ci_array: the flat result carries its center indices as an int64 ndarray (what find_cluster_centers / predict / kmedoids
    produce) instead of a list; splitting must leave the flat result as it was (a second split of the same result must agree)"""
    kc, km, hy, cu, ops = cluster.mods()
    ra = loader.load('enspara.ra.ra')
    lengths = list(lengths)
    Ntot = sum(lengths)

    def path(ctx):
        av = [core.fresh_int('assig') for _ in range(Ntot)]
        dv = [core.fresh_real('dist') for _ in range(Ntot)]
        ci = [core.fresh_int('cidx', 0, Ntot - 1) for _ in range(k)]
        ci_in = funcs.np_array(list(ci), dtype=np.int64) if ci_array else list(ci)
        res = cu.ClusterResult(center_indices=ci_in, assignments=funcs.np_array(av, dtype=int),
                               distances=funcs.np_array(dv, dtype=float), centers=['c%d' % j for j in range(k)])
        exc = None
        try:
            p = res.partition(np.array(lengths))
        except Exception as e:
            exc = e
        square = len(set(lengths)) == 1
        starts = [sum(lengths[:t]) for t in range(len(lengths))]

        def oracle(pa, pd, pci, a_, d_, ci_, kind_ok):
            obs = [('container-type-by-equality-of-lengths', kind_ok)]
            ok_struct = [len(r) for r in pa] == lengths and [len(r) for r in pd] == lengths
            obs.append(('row-lengths', ok_struct))
            if not ok_struct:
                return obs
            flat_a = [x for r in pa for x in r]
            flat_d = [x for r in pd for x in r]
            obs.append(('values-and-order-preserved', conj([x == y for x, y in zip(flat_a + flat_d, list(a_) + list(d_))])))
            obs.append(('number-of-center-indices', len(pci) == k))
            if len(pci) == k:
                addr = []
                for j in range(k):
                    t, f = pci[j]
                    addr.append((t >= 0) & (t < len(lengths)) & (f >= 0) & (f < sel(lengths, t)) &
                                (sel(starts, t) + f == ci_[j]))
                obs.append(('(traj,frame)-addresses-the-same-flat-frame', conj(addr)))
            return obs

        def witness(model):
            ca = [int(ev(model, v)) for v in av]
            cd = [float(ev(model, v)) for v in dv]
            cci = [int(ev(model, v)) for v in ci]
            out = {'inputs': {'lengths': lengths, 'assignments': ca, 'distances': cd, 'center_indices': cci}}
            cci_in = np.array(cci, dtype=np.int64) if ci_array else list(cci)
            r = cu.ClusterResult(center_indices=cci_in, assignments=np.array(ca), distances=np.array(cd),
                                 centers=['c%d' % j for j in range(k)])
            out['inputs']['center_indices_container'] = 'int64 ndarray' if ci_array else 'list'
            with core.concrete_mode():
                try:
                    pp = r.partition(np.array(lengths))
                except Exception as e:
                    out.update(exception=repr(e), out=None, violated=['raises ' + type(e).__name__],
                               signature='exception:' + type(e).__name__)
                    return out
                kind_ok = (isinstance(pp.assignments, np.ndarray) and isinstance(pp.distances, np.ndarray)) if square else \
                    (type(pp.assignments).__name__ == 'RaggedArray' and type(pp.distances).__name__ == 'RaggedArray')
                pa = [[int(x) for x in row] for row in pp.assignments]
                pd = [[float(x) for x in row] for row in pp.distances]
                pci = [(int(t), int(f)) for t, f in pp.center_indices]
                flat_back = np.concatenate([np.asarray(row) for row in pp.assignments]).tolist()
            out['out'] = {'assignments': pa, 'distances': pd, 'center_indices': [list(x) for x in pci]}
            bad = run_oracle(oracle(pa, pd, pci, ca, cd, cci, kind_ok))
            if flat_back != ca:
                bad.append('concatenation-does-not-restore-flat-array')
            if [int(x) for x in r.center_indices] != cci or [int(x) for x in r.assignments] != ca:
                bad.append('flat-result-modified-by-partition')
                out['signature'] = 'partition:flat-result-modified'
            out['violated'] = bad
            return out
        if exc is not None:
            return PathOut([('no-exception', False)], {}, witness, exc=type(exc).__name__)
        try:
            kind_ok = (isinstance(p.assignments, np.ndarray) and isinstance(p.distances, np.ndarray)) if square else \
                (type(p.assignments).__name__ == 'RaggedArray' and type(p.distances).__name__ == 'RaggedArray')
            pa, pd = rows_of(p.assignments), rows_of(p.distances)
            pci = [tuple(x) for x in p.center_indices]
            obs = oracle(pa, pd, pci, av, dv, ci, kind_ok)
            if not square and kind_ok:
                obs.append(('ragged-flat-data-is-the-concatenation',
                            conj([x == y for x, y in zip(cells(p.assignments._data), av)])))
            obs.append(('flat-result-unmodified-by-partition',
                        conj([x == y for x, y in zip(list(cells(res.center_indices)) if ci_array else list(res.center_indices), ci)] +
                             [x == y for x, y in zip(cells(res.assignments), av)] + [x == y for x, y in zip(cells(res.distances), dv)])))
            so = {'assignments': pa, 'distances': pd, 'center_indices': [list(x) for x in pci]}
        except Exception as e:          # result has an unexpected structure
            obs = [('result-has-the-documented-structure', False)]
            so = {}
        return PathOut(obs, so, witness, desc='partition lengths=%s' % lengths)
    return path


def partition_indices_job(T, n_idx=2):
    """trajectory lengths are UNBOUNDED symbolic positive integers"""
    ra = loader.load('enspara.ra.ra')

    def path(ctx):
        L = [core.fresh_int('len', 1, None) for _ in range(T)]
        total = L[0]
        for x in L[1:]:
            total = total + x
        idx = [core.fresh_int('idx', 0, None) for _ in range(n_idx)]
        for i in idx:
            ctx.add((i < total).t)
        exc = None
        try:
            r = ra.partition_indices(list(idx), list(L))
        except Exception as e:
            exc = e

        def oracle(r_, L_, idx_):
            obs = [('one-pair-per-index', len(r_) == len(idx_))]
            if len(r_) != len(idx_):
                return obs
            ok = []
            for (t, f), i in zip(r_, idx_):
                pre = 0
                acc = []
                for u in range(T):
                    acc.append(pre)
                    pre = pre + L_[u]
                ok.append((t >= 0) & (t < T) & (f >= 0) & (f < sel(list(L_), t)) & (sel(acc, t) + f == i))
            obs.append(('(traj,frame)-addresses-flat-index', conj(ok)))
            return obs

        def witness(model):
            cl = [int(ev(model, v)) for v in L]
            cidx = [int(ev(model, v)) for v in idx]
            out = {'inputs': {'lengths': cl, 'indices': cidx}}
            with core.concrete_mode():
                try:
                    rr = ra.partition_indices(list(cidx), list(cl))
                except Exception as e:
                    out.update(exception=repr(e), out=None, violated=['raises ' + type(e).__name__],
                               signature='exception:' + type(e).__name__)
                    return out
            out['out'] = [[int(t), int(f)] for t, f in rr]
            out['violated'] = run_oracle(oracle([(int(t), int(f)) for t, f in rr], cl, cidx))
            return out
        if exc is not None:
            return PathOut([('no-exception', False)], {}, witness, exc=type(exc).__name__)
        return PathOut(oracle(r, L, idx), [[t, f] for t, f in r], witness, desc='partition_indices T=%d' % T)
    return path


def batches_job(T):
    kc, km, hy, cu, ops = cluster.mods()

    def path(ctx):
        L = [core.fresh_int('len', 1, None) for _ in range(T)]
        B = core.fresh_int('batch', 1, None)
        r = cu.compute_batches(list(L), B)
        flat = [i for b in r for i in b]

        def oracle(r_, L_, B_):
            fl = [i for b in r_ for i in b]
            obs = [('every-trajectory-in-exactly-one-batch-in-order', fl == list(range(T)))]
            ok = []
            for b in r_:
                if len(b) > 1:
                    s = 0
                    for i in b:
                        s = s + L_[i]
                    ok.append(s < B_)
            obs.append(('multi-trajectory-batches-stay-below-batch-size', conj(ok)))
            return obs

        def witness(model):
            cl = [int(ev(model, v)) for v in L]
            cb = int(ev(model, B))
            with core.concrete_mode():
                rr = cu.compute_batches(list(cl), cb)
            return {'inputs': {'lengths': cl, 'batch_size': cb}, 'out': rr, 'violated': run_oracle(oracle(rr, cl, cb))}
        return PathOut(oracle(r, L, B), r, witness, desc='compute_batches T=%d' % T)
    return path


def compositions(n):
    if n == 0:
        yield []
        return
    for first in range(1, n + 1):
        for rest in compositions(n - first):
            yield [first] + rest


def jobs(tier):
    J = []
    q = tier == 'quick'
    dl = 200 if q else 1500

    def add(func, name, **kw):
        J.append(dict(module='harness.C10', func=func, name=name, kwargs=kw, sig_prefix=func, deadline_s=dl))
    for N in range(1, (4 if q else 6) + 1):
        for K in range(1, (5 if q else 7) + 1):
            if q and N * K > 12:
                continue
            add('assign_job', 'assign[N=%d,K=%d]' % (N, K), N=N, K=K)
            if K > N:
                add('assign_job', 'assign[N=%d,K=%d,xyz]' % (N, K), N=N, K=K, xyz=True)
    add('assign_job', 'predict[N=3,K=2]', N=3, K=2, entry='predict')
    add('assign_job', 'predict[N=2,K=3]', N=2, K=3, entry='predict')
    for N in range(1, (4 if q else 7) + 1):
        for L in range(1, min(3 if q else 4, N) + 1):
            add('fcc_job', 'find_centers[N=%d,L=%d]' % (N, L), N=N, L=L)
    for n in range(1, (6 if q else 9) + 1):
        for comp in compositions(n):
            add('partition_job', 'partition[%s]' % ','.join(map(str, comp)), lengths=comp, k=min(2, n))
            if n <= 4:
                add('partition_job', 'partition[%s,center indices as int64 array]' % ','.join(map(str, comp)), lengths=comp, k=min(2, n), ci_array=True)
    for T in ((1, 2, 3) if q else (1, 2, 3, 4, 5, 6)):
        add('partition_indices_job', 'partition_indices[T=%d,unbounded]' % T, T=T)
        add('batches_job', 'compute_batches[T=%d,unbounded]' % T, T=T)
    return J
