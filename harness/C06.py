"""C06  Ragged-array writes keep all views coherent over any operation history."""
from harness import ragged

preload = ragged.preload

META = {
    'files': ragged.FILES,
    'functions': ['RaggedArray.__setitem__ (element, row, 2-D slice, mask)', 'RaggedArray.append', 'RaggedArray.map_operator and the '
                  'operator dunders', 'RaggedArray.__init__ copy handling'],
    'bounds': {'quick': 'inductive step: ONE mutating operation (also preceded by an observing step that touches every derived view: three-step histories) with symbolic operands from any constructor-built array with <=3 rows of '
                        'length 1..3 (state = lengths vector x symbolic contents), then the representation invariant and all row/flat '
                        'observers are compared with the list-of-rows model; binary operators (+,-,*,//,%,==,<,>=, |,& on bools excluded) '
                        'between ragged arrays and with a scalar', 'thorough': 'all lengths vectors, more operand shapes'},
    'stubs': [],
    'assumptions': ['one step from an arbitrary constructor-reachable state re-establishes the invariant, hence any history; the '
                    'constructor-reachable states are exactly lengths vector x contents'],
    'outside': ['operators NumPy rejects for the dtype', 'object-dtype elements'],
}


def jobs(tier):
    J = []
    q = tier == 'quick'

    def add(func, name, **kw):
        J.append(dict(module='harness.ragged', func=func, name=name, kwargs=kw, sig_prefix='ragged', deadline_s=280 if q else 1700))
    lvs = [(2,), (1, 2), (2, 2), (3, 1), (2, 1, 3), (1, 1), (3, 3, 3)] if q else ragged.length_vectors(3, 3)
    for lv in lvs:
        n = len(lv)
        for form in ('nested', 'flat'):
            add('write_job', 'write[%s,%s,elem(0,0)]' % (list(lv), form), lengths=lv, op=('elem', 0, 0), form=form)
            add('write_job', 'write[%s,%s,elem(-1,-1)]' % (list(lv), form), lengths=lv, op=('elem', n - 1, lv[-1] - 1), form=form)
            add('write_job', 'write[%s,%s,row0]' % (list(lv), form), lengths=lv, op=('row', 0), form=form)
            add('write_job', 'write[%s,%s,iadd]' % (list(lv), form), lengths=lv, op=('iadd',), form=form)
            add('write_job', 'write[%s,%s,append-rows]' % (list(lv), form), lengths=lv, op=('append-rows', (2, 1)), form=form)
        add('write_job', 'write[%s,append-ra]' % list(lv), lengths=lv, op=('append-ra', (1, 2)))
        # three-step histories: observe (may populate derived state), mutate, observe
        for op_ in (('append-rows', (2, 1)), ('append-ra', (1, 2)), ('elem', 0, 0), ('row', 0), ('iadd',)):
            add('write_job', 'history[%s,observe+%s]' % (list(lv), op_[0]), lengths=lv, op=op_, touch=True)
        add('write_job', 'write[%s,row-otherlen]' % list(lv), lengths=lv, op=('row-otherlen', n - 1, lv[-1] + 1))
        add('write_job', 'write[%s,slice2d(:,0:1)]' % list(lv), lengths=lv, op=('slice2d', slice(None), slice(0, 1)))
        add('write_job', 'write[%s,slice2d(:,0:2)]' % list(lv), lengths=lv, op=('slice2d', slice(None), slice(0, 2)))
        add('write_job', 'write[%s,slice2d-scalar(0:1,:)]' % list(lv), lengths=lv, op=('slice2d-scalar', slice(0, 1), slice(None)))
        # negative bounds and steps in either dimension (every selected row keeps at least one column: -1: and ::-1 are never empty)
        add('write_job', 'write[%s,slice2d(::-1,-1:)]' % list(lv), lengths=lv, op=('slice2d', slice(None, None, -1), slice(-1, None)))
        add('write_job', 'write[%s,slice2d(:,::-1)]' % list(lv), lengths=lv, op=('slice2d', slice(None), slice(None, None, -1)))
        add('write_job', 'write[%s,slice2d-scalar(-1:,::-2)]' % list(lv), lengths=lv, op=('slice2d-scalar', slice(-1, None), slice(None, None, -2)))
        add('write_job', 'write[%s,slice2d-scalar(:5,-1:)]' % list(lv), lengths=lv, op=('slice2d-scalar', slice(None, 5), slice(-1, None)))
        # backward column slices with a stride whose explicit start lies beyond the end of the shorter rows (clipped per row)
        add('write_job', 'write[%s,slice2d-scalar(:,2::-2)]' % list(lv), lengths=lv, op=('slice2d-scalar', slice(None), slice(2, None, -2)))
        add('write_job', 'write[%s,slice2d-scalar(:,3::-2)]' % list(lv), lengths=lv, op=('slice2d-scalar', slice(None), slice(3, None, -2)))
        add('write_job', 'write[%s,slice2d-scalar(::-1,4::-3)]' % list(lv), lengths=lv, op=('slice2d-scalar', slice(None, None, -1), slice(4, None, -3)))
        if sum(lv) <= 4:
            add('write_job', 'write[%s,mask-assign]' % list(lv), lengths=lv, op=('mask-assign',))
        for opn in ('add', 'sub', 'mul', 'eq', 'lt', 'ge', 'floordiv', 'mod'):
            add('operator_job', 'op[%s,%s,ra]' % (list(lv), opn), lengths=lv, opname=opn, other='ra')
            add('operator_job', 'op[%s,%s,scalar]' % (list(lv), opn), lengths=lv, opname=opn, other='scalar')
        add('copy_job', 'copy[%s]' % list(lv), lengths=lv)
        add('reduce_job', 'reductions-and-bool-ops[%s]' % list(lv), lengths=lv)
        if sum(lv) <= 6:
            for form in ('nested', 'flat'):
                for op_ in (('frame', 0, 0), ('frame', n - 1, lv[-1] - 1), ('row', 0), ('row', n - 1), ('iadd',), ('append', (2, 1)),
                            ('append-ra', (1, 2)), ('slice2d-scalar', slice(None), slice(0, 1))):
                    add('vector_write_job', 'vector-write[%s,%s,%s]' % (list(lv), form, '-'.join(str(x) for x in op_[:3] if not isinstance(x, slice))),
                        lengths=lv, op=op_, form=form)
    # a NARROW element type before the write, int64 values written: whole-row assignment re-concatenates and therefore promotes
    for lv in ((3, 2, 4), (2, 2)):
        for dt_ in ('int16', 'int8'):
            add('write_job', 'write[%s,%s array,row1 := int64 values]' % (list(lv), dt_), lengths=lv, op=('row', 1), dtype=dt_)
            add('write_job', 'write[%s,%s array,row-otherlen := int64 values]' % (list(lv), dt_), lengths=lv, op=('row-otherlen', 0, lv[0] + 1), dtype=dt_)
    # arrays WITH EMPTY ROWS (first, interior, several in a row): flat indices of a later row must still map to that row
    for lv in ((2, 0, 1), (0, 2, 1), (1, 0, 0, 2)):
        n = len(lv)
        for op_ in (('elem', n - 1, lv[-1] - 1), ('row', 0), ('row', n - 1), ('iadd',), ('append-rows', (2, 1)), ('append-ra', (1, 2)), ('mask-assign',)):
            add('write_job', 'write[%s,flat,%s]' % (list(lv), op_[0] + (str(op_[1]) if op_[0] == 'row' else '')), lengths=lv, op=op_, form='flat')
        add('reduce_job', 'reductions-and-bool-ops[%s]' % list(lv), lengths=lv)
    for lv in ((2, 1), (1, 3, 2), (2, 2)):
        add('index_args_job', 'ndarray-index-arguments[%s,write]' % list(lv), lengths=lv, write=True)
    for n_, L_ in ((2, 2), (3, 2), (2, 3)) if q else ((2, 2), (3, 2), (2, 3), (3, 3), (1, 2), (4, 2)):
        for how in ('from-2d-ndarray', 'row-slice', 'full-slice', 'slice-of-operator-result'):
            add('alias_job', 'aliasing[%s,%dx%d]' % (how, n_, L_), n=n_, L=L_, how=how)
    return J
