"""C14  MPI-striped clustering and reductions equal their serial counterparts (SPMD simulator)."""
import itertools
import math
import sys

import numpy as np
import z3

import spmd
from symnp import core, loader, funcs, stubs
from symnp.core import SVal, SInt, SFloat, ite, sand, sor, snot
from symnp.arr import SArr, _raw
from harness.common import PathOut, ev
from harness.cluster import order_preserved, UNFAITHFUL, Metric, conj, cells, run_oracle, scale_of, concrete_metric, sel

META = {
    'files': ['enspara/cluster/kcenters.py', 'enspara/cluster/kmedoids.py', 'enspara/mpi/ops.py', 'enspara/mpi/__init__.py',
              'enspara/ra/ra.py'],
    'functions': ['enspara.cluster.kcenters.kcenters(mpi_mode=True) / _kcenters_iteration_mpi', 'enspara.mpi.ops.convert_local_indices / '
                  'assemble_striped_array / assemble_striped_ragged_array / striped_array_max / striped_array_mean / distribute_frame / randind',
                  'enspara.cluster.kmedoids.ctr_ids_mpi', 'enspara.cluster.hybrid.hybrid(mpi_mode=True) -> _kmedoids_pam_update with (rank, index) medoids / '
                  '_propose_new_center_amongst(mpi_mode=True)'],
    'bounds': {'quick': 'world size W in {1,2,3}; trajectory-length vectors with total N<=5 frames dealt round-robin (including ranks that own '
                        'a single trajectory / a single frame); k<=3 centers, symbolic radius; distributed hybrid (k-centers + one PAM sweep) W=2, k=2: every metric for N<=4, and for N=5 (lengths 3,2) the metrics in which one rank owns no member of the cluster whose medoid moves (the unconstrained N=5 job is thorough-only); reductions on local arrays of length<=3',
               'thorough': 'W<=4, N<=6; distributed hybrid N<=5 with every metric'},
    'stubs': ['mpi4py.MPI.COMM_WORLD = SPMD simulator: ranks run one at a time and hand over only inside collectives; allgather / bcast / '
              'Bcast (in place) / allreduce(MAX|SUM) / Barrier with MPI semantics; the simulator CHECKS that all ranks issue the same '
              'sequence of collectives with the same root (else: deadlock)',
              'metric = uninterpreted function over global frame ids', 'random generator stub'],
    'assumptions': ['tie-free data (all pairwise distances different), as the property states',
                    'MPI semantics: with matching collectives the results do not depend on the arrival order of the ranks',
                    'exact real arithmetic'],
    'outside': ['real MPI transport', 'load_h5_as_striped / load_trajectory_as_striped under W>1 (W=1 in C15); load_npy_as_striped runs on W<=3 ranks over the in-memory store', 'W beyond the bound'],
}

_PREP = {}


def preload():
    if 'mpi' not in _PREP:
        pkg, MPI = spmd.fake_mpi4py()
        loader.prepare(mpi_module=pkg)
        _PREP['mpi'] = MPI
    from harness import cluster
    cluster.mods()
    loader.load('enspara.mpi.ops')
    loader.load('enspara.ra.ra')
    m = sys.modules['enspara.mpi']
    if not getattr(m, 'mpi4py_installed', False):
        raise RuntimeError('enspara.mpi was imported without the simulator')


def stripes(lengths, W):
    """round-robin dealing of trajectories: returns per rank the list of global frame ids (in order) and its trajectories"""
    starts = [sum(lengths[:t]) for t in range(len(lengths))]
    own = [[t for t in range(len(lengths)) if t % W == r] for r in range(W)]
    ids = [[starts[t] + f for t in own[r] for f in range(lengths[t])] for r in range(W)]
    return own, ids


def kcenters_mpi_job(lengths, W, k, mode='both'):
    lengths = list(lengths)
    N = sum(lengths)

    def path(ctx):
        from harness import cluster
        kc, km, hy, cu, ops = cluster.mods()
        M = Metric(ctx, N, tiefree=True)
        own, ids = stripes(lengths, W)
        cutoff = 0
        kw = {}
        if mode in ('both', 'r'):
            cutoff = core.fresh_real('cutoff')
            ctx.add(core.to_z3_real(cutoff) > 0)
            kw['dist_cutoff'] = cutoff
        if mode in ('both', 'n'):
            kw['n_clusters'] = k
        glen = np.array(lengths)

        def rank_main(r):
            Xl = SArr.from_typed(np.array(ids[r], dtype=int).reshape(-1, 1))
            res = kc.kcenters(Xl, M, mpi_mode=True, **kw)
            d = ops.assemble_striped_ragged_array(res.distances, glen)
            a = ops.assemble_striped_ragged_array(res.assignments, glen)
            c = ops.convert_local_indices(res.center_indices, glen)
            return {'centers': list(c), 'assignments': a, 'distances': d, 'local_centers': list(res.center_indices)}
        exc = None
        try:
            outs = spmd.WORLD.run(W, rank_main)
            log = list(spmd.WORLD.log)
            Xg = SArr.from_typed(np.arange(N).reshape(-1, 1))
            ser = kc.kcenters(Xg, M, mpi_mode=False, **kw)
        except (Exception, spmd.Deadlock) as e:
            exc = e

        def compare(outs_, ser_c, ser_a, ser_d, tol=False):
            obs = []
            for r, o in enumerate(outs_):
                oc = [x for x in o['centers']]
                obs.append(('rank %d: centers as global frame indices equal the serial run' % r,
                            conj([x == y for x, y in zip(oc, ser_c)]) if len(oc) == len(ser_c) else False))
                oa, od = list(o['assignments']), list(o['distances'])
                obs.append(('rank %d: reassembled labels equal the serial run' % r,
                            conj([x == y for x, y in zip(oa, ser_a)]) if len(oa) == len(ser_a) else False))
                if tol:
                    obs.append(('rank %d: reassembled distances equal the serial run' % r,
                                all(abs(float(x) - float(y)) <= 1e-9 * max(1, abs(float(y))) for x, y in zip(od, ser_d))
                                if len(od) == len(ser_d) else False))
                else:
                    obs.append(('rank %d: reassembled distances equal the serial run' % r,
                                conj([x == y for x, y in zip(od, ser_d)]) if len(od) == len(ser_d) else False))
            return obs

        def witness(model):
            T = M.table(model)
            cut = ev(model, cutoff) if isinstance(cutoff, SVal) else None
            sc = scale_of([x for row in T for x in row] + ([cut] if cut is not None else []))
            metric, Mx = concrete_metric(T, sc)
            if not order_preserved(T, Mx):
                return dict(UNFAITHFUL, inputs={'D': [[float(x) for x in row] for row in T]})
            kw2 = {}
            if 'dist_cutoff' in kw:
                kw2['dist_cutoff'] = float(cut * sc)
            if 'n_clusters' in kw:
                kw2['n_clusters'] = k
            out = {'inputs': {'lengths': lengths, 'world_size': W, 'D': [[float(x) for x in row] for row in T],
                              'dist_cutoff': float(cut) if cut is not None else None, 'n_clusters': kw.get('n_clusters')},
                   'skip_compare': True}

            def rank_main2(r):
                Xl = np.array(ids[r], dtype=int).reshape(-1, 1)
                res = kc.kcenters(Xl, metric, mpi_mode=True, **kw2)
                d = ops.assemble_striped_ragged_array(res.distances, glen)
                a = ops.assemble_striped_ragged_array(res.assignments, glen)
                c = ops.convert_local_indices(res.center_indices, glen)
                return {'centers': [int(x) for x in c], 'assignments': [int(x) for x in a], 'distances': [float(x) / sc for x in d]}
            with core.concrete_mode():
                try:
                    o2 = spmd.WORLD.run(W, rank_main2)
                    s2 = kc.kcenters(np.arange(N).reshape(-1, 1), metric, mpi_mode=False, **kw2)
                except (Exception, spmd.Deadlock) as e:
                    out.update(exception=repr(e), out=None, violated=['raises ' + type(e).__name__],
                               signature='kcenters-mpi:exception:' + type(e).__name__)
                    return out
            out['out'] = o2[0]
            out['violated'] = run_oracle(compare(o2, [int(x) for x in s2.center_indices], [int(x) for x in s2.assignments],
                                                 [float(x) / sc for x in s2.distances], tol=True))
            return out
        if exc is not None:
            return PathOut([('no-exception-and-no-deadlock', False)], {}, witness, exc=type(exc).__name__,
                           desc='raises %s: %s' % (type(exc).__name__, str(exc)[:120]))
        for o in outs:
            o['assignments'] = list(cells(o['assignments']))
            o['distances'] = list(cells(o['distances']))
        obs = compare(outs, list(ser.center_indices), list(cells(ser.assignments)), list(cells(ser.distances)))
        obs.append(('all-ranks-issued-the-same-collective-sequence', True))
        return PathOut(obs, {}, witness, desc='kcenters mpi W=%d lengths=%s: %d collectives' % (W, lengths, len(log)))
    return path


def hybrid_mpi_job(lengths, W, k, sweeps=1, scenario=None):
    """distributed k-hybrid (k-centers + PAM sweeps with (rank, index) medoids): the reassembled state satisfies the
    serial invariants (C01 oracle) and the cost does not exceed the k-centers cost"""
    lengths = list(lengths)
    N = sum(lengths)

    def path(ctx):
        from harness import cluster
        kc, km, hy, cu, ops = cluster.mods()
        M = Metric(ctx, N, tiefree=True)
        own, ids = stripes(lengths, W)
        glen = np.array(lengths)
        rs = stubs.SymRandom()
        if scenario == 'rank-without-members':
            # sub-case of lengths (3, 2) on two ranks, k = 2: k-centers picks frames 0 and 1 (both on rank 0), frame 2 joins
            # cluster 1 and rank 1's frames 3, 4 join cluster 0 - so rank 1 owns NO frame of cluster 1, whose medoid can move to
            # frame 2.  Fixing this much of the metric's order keeps the job to minutes; the distances stay symbolic.
            z = lambda a, b: core.to_z3_real(M.d(a, b))
            for j in range(2, N):
                ctx.add(z(0, 1) > z(0, j))
            ctx.add(z(2, 1) < z(2, 0))
            ctx.add(z(3, 0) < z(3, 1))
            ctx.add(z(4, 0) < z(4, 1))

        def rank_main(r):
            Xl = SArr.from_typed(np.array(ids[r], dtype=int).reshape(-1, 1))
            res = hy.hybrid(Xl, M, n_iters=sweeps, n_clusters=k, mpi_mode=True, random_state=rs)
            d = ops.assemble_striped_ragged_array(res.distances, glen)
            a = ops.assemble_striped_ragged_array(res.assignments, glen)
            c = ops.convert_local_indices(res.center_indices, glen)
            return {'centers': list(c), 'assignments': list(cells(a)), 'distances': list(cells(d)),
                    'center_frames': [x for x in res.centers]}
        exc = None
        try:
            outs = spmd.WORLD.run(W, rank_main)
            ser = kc.kcenters(SArr.from_typed(np.arange(N).reshape(-1, 1)), M, n_clusters=k)
        except (Exception, spmd.Deadlock) as e:
            exc = e
        from harness.cluster import oracle_consistent, cost_of, ReplayRandom, PatchedRandom, _R
        draws = [v for _, v in stubs.current_log()]

        def witness(model):
            T = M.table(model)
            sc = scale_of([x for row in T for x in row])
            metric, Mx = concrete_metric(T, sc)
            if not order_preserved(T, Mx):
                return dict(UNFAITHFUL, inputs={'D': [[float(x) for x in row] for row in T]})
            dv = [int(ev(model, v)) for v in draws]
            out = {'inputs': {'lengths': lengths, 'world_size': W, 'n_clusters': k, 'D': [[float(x) for x in row] for row in T],
                              'random_draws': dv}, 'skip_compare': True, 'out': None}
            crs = ReplayRandom(dv)

            def rm2(r):
                Xl = np.array(ids[r], dtype=int).reshape(-1, 1)
                res = hy.hybrid(Xl, metric, n_iters=sweeps, n_clusters=k, mpi_mode=True, random_state=crs)
                d = ops.assemble_striped_ragged_array(res.distances, glen)
                a = ops.assemble_striped_ragged_array(res.assignments, glen)
                c = ops.convert_local_indices(res.center_indices, glen)
                return {'center_indices': [int(x) for x in c], 'assignments': [int(x) for x in a],
                        'distances': [float(x) / sc for x in d], 'centers': [int(np.asarray(f).reshape(-1)[0]) for f in res.centers]}
            with core.concrete_mode(), PatchedRandom(km, hy, crs):
                try:
                    o2 = spmd.WORLD.run(W, rm2)
                    s2 = kc.kcenters(np.arange(N).reshape(-1, 1), metric, n_clusters=k)
                except (Exception, spmd.Deadlock) as e:
                    out.update(exception=repr(e), violated=['raises ' + type(e).__name__],
                               signature='hybrid-mpi:exception:' + type(e).__name__)
                    return out
            dfun = lambda i, j: float(T[int(i)][int(j)])
            bad = []
            for o in o2:
                bad += run_oracle(oracle_consistent(N, _R(o), dfun))
                if sum(x * x for x in o['distances']) > sum((float(x) / sc) ** 2 for x in s2.distances) * (1 + 1e-12) + 1e-15:
                    bad.append('cost above the k-centers cost')
                if o != o2[0]:
                    bad.append('ranks disagree on the reassembled state')
            out['out'] = o2[0]
            out['violated'] = sorted(set(bad))
            return out
        if exc is not None:
            return PathOut([('no-exception-and-no-deadlock', False)], {}, witness, exc=type(exc).__name__,
                           desc='raises %s: %s' % (type(exc).__name__, str(exc)[:120]))
        obs = []

        class R:
            pass
        for r, o in enumerate(outs):
            res = R()
            res.center_indices = o['centers']
            res.assignments = o['assignments']
            res.distances = o['distances']
            res.centers = [core.SInt.mk(core.to_z3_int(_raw(f).reshape(-1)[0])) if isinstance(f, SArr) else int(np.asarray(f).reshape(-1)[0])
                           for f in o['center_frames']]
            for lab, c in oracle_consistent(N, res, M.d):
                obs.append(('rank %d: %s' % (r, lab), c))
            obs.append(('rank %d: number of clusters kept' % r, len(o['centers']) == len(ser.center_indices)))
            obs.append(('rank %d: cost not above the k-centers cost' % r,
                        cost_of(o['distances']) <= cost_of(list(cells(ser.distances)))))
        o0 = outs[0]
        same = []
        for o in outs[1:]:
            same += [x == y for x, y in zip(o['centers'] + o['assignments'] + o['distances'],
                                           o0['centers'] + o0['assignments'] + o0['distances'])]
        obs.append(('all-ranks-reassemble-the-same-state', conj(same) if same else True))
        return PathOut(obs, {}, witness, desc='hybrid mpi W=%d lengths=%s k=%d' % (W, lengths, k))
    return path


def ops_job(W, local_lens, what):
    """the striped reductions / gathers / index conversions of mpi.ops against their serial definition"""
    local_lens = list(local_lens)

    def path(ctx):
        from harness import cluster
        kc, km, hy, cu, ops = cluster.mods()
        vals = [[core.fresh_real('v') for _ in range(n)] for n in local_lens]
        flat = [x for r in vals for x in r]
        rs = stubs.SymRandom()

        def rank_main(r):
            la = funcs.np_array(vals[r], dtype=float)
            if what == 'max':
                return ops.striped_array_max(la)
            if what == 'mean':
                return ops.striped_array_mean(la)
            if what == 'randind':
                return ops.randind(la, rs)
            if what == 'assemble':
                pos = funcs.np_array([core.fresh_int('len', 1, None) for _ in range(local_lens[r])], dtype=int)
                return (ops.assemble_striped_array(pos), pos)
            raise ValueError(what)
        exc = None
        try:
            outs = spmd.WORLD.run(W, rank_main)
        except (Exception, spmd.Deadlock) as e:
            exc = e
        draws = [v for _, v in stubs.current_log()]

        def witness(model):
            cv = [[float(ev(model, x)) for x in r] for r in vals]
            out = {'inputs': {'world_size': W, 'local_arrays': cv, 'op': what}, 'skip_compare': True, 'out': None}

            def rm2(r):
                la = np.array(cv[r], dtype=float)
                if what == 'max':
                    return float(ops.striped_array_max(la))
                if what == 'mean':
                    return float(ops.striped_array_mean(la))
                return None
            if what == 'randind':
                from harness.cluster import ReplayRandom, PatchedRandom
                dv = [int(ev(model, v)) for v in draws]
                out['inputs']['random_draws'] = dv
                crs = ReplayRandom(dv)
                with core.concrete_mode(), PatchedRandom(km, hy, crs):
                    try:
                        o2 = spmd.WORLD.run(W, lambda r: ops.randind(np.array(cv[r], dtype=float), crs))
                    except (Exception, spmd.Deadlock) as e:
                        out.update(exception=repr(e), violated=['raises ' + type(e).__name__],
                                   signature='ops.randind:exception:' + type(e).__name__)
                        return out
                out['out'] = [[int(o[0]), int(o[1])] for o in o2]
                v = []
                if any(o != out['out'][0] for o in out['out']):
                    v.append('ranks disagree on the chosen element')
                ow, li = out['out'][0]
                if not (0 <= ow < W and 0 <= li < local_lens[ow]):
                    v.append('chosen (owner, local index) does not address an existing element')
                out['violated'] = v
                if v:
                    out['signature'] = 'ops.randind:' + v[0]
                return out
            if what not in ('max', 'mean'):
                return dict(out, violated=[])
            with core.concrete_mode():
                try:
                    o2 = spmd.WORLD.run(W, rm2)
                except (Exception, spmd.Deadlock) as e:
                    out.update(exception=repr(e), violated=['raises ' + type(e).__name__],
                               signature='ops.%s:exception:%s' % (what, type(e).__name__))
                    return out
            flat2 = [x for r in cv for x in r]
            want = max(flat2) if what == 'max' else sum(flat2) / len(flat2)
            out['out'] = o2
            out['violated'] = [] if all(abs(x - want) < 1e-9 * max(1, abs(want)) for x in o2) else ['ops.%s differs from the serial value' % what]
            return out
        if exc is not None:
            return PathOut([('no-exception-and-no-deadlock', False)], {}, witness, exc=type(exc).__name__,
                           desc='raises %s: %s' % (type(exc).__name__, str(exc)[:120]))
        obs = []
        if what == 'max':
            for r, o in enumerate(outs):
                obs.append(('rank %d: max is an element and >= every element' % r,
                            sand(sor(*[o == x for x in flat]), conj([o >= x for x in flat]))))
        elif what == 'mean':
            tot = sum(flat[1:], flat[0])
            for r, o in enumerate(outs):
                obs.append(('rank %d: mean * count == sum' % r, o * len(flat) == tot))
        elif what == 'randind':
            o0 = outs[0]
            obs.append(('all-ranks-agree', all(int(o[0]) == int(o0[0]) and int(o[1]) == int(o0[1]) for o in outs)))
            obs.append(('chosen (owner, local index) addresses an existing element',
                        0 <= int(o0[0]) < W and 0 <= int(o0[1]) < local_lens[int(o0[0])]))
        elif what == 'assemble':
            for r, (g, _) in enumerate(outs):
                gl = list(cells(g))
                want = []
                n_tot = sum(local_lens)
                ok = len(gl) == n_tot
                conds = []
                if ok:
                    for i in range(n_tot):
                        owner, k_ = i % W, i // W
                        if k_ < local_lens[owner]:
                            conds.append(gl[i] == cells(outs[owner][1])[k_])
                        else:
                            ok = False
                obs.append(('rank %d: element i of the assembled array is element i//W of rank i%%W' % r, conj(conds) if ok else False))
        return PathOut(obs, {}, witness if what in ('max', 'mean', 'randind') else None, desc='mpi.ops.%s W=%d local=%s' % (what, W, local_lens))
    return path


def convert_job(lengths, W):
    """convert_local_indices / ctr_ids_mpi: (rank, local frame) <-> global frame, for every frame"""
    lengths = list(lengths)
    N = sum(lengths)

    def path(ctx):
        from harness import cluster
        kc, km, hy, cu, ops = cluster.mods()
        own, ids = stripes(lengths, W)
        pairs = [(r, j) for r in range(W) for j in range(len(ids[r]))]

        def rank_main(r):
            g = ops.convert_local_indices(pairs, np.array(lengths))
            back = km.ctr_ids_mpi([int(x) for x in g], lengths)
            return [int(x) for x in g], [(int(a), int(b)) for a, b in back]
        exc = None
        try:
            outs = spmd.WORLD.run(W, rank_main)
        except (Exception, spmd.Deadlock) as e:
            exc = e
        want = [ids[r][j] for r, j in pairs]

        def witness(model):
            out = {'inputs': {'lengths': lengths, 'world_size': W, 'pairs': pairs}, 'skip_compare': True, 'out': None}
            with core.concrete_mode():
                try:
                    o2 = spmd.WORLD.run(W, rank_main)
                except (Exception, spmd.Deadlock) as e:
                    out.update(exception=repr(e), violated=['raises ' + type(e).__name__],
                               signature='convert:exception:' + type(e).__name__)
                    return out
            out['out'] = o2[0]
            out['violated'] = [] if all(g == want and back == pairs for g, back in o2) else ['index conversion wrong']
            return out
        if exc is not None:
            return PathOut([('no-exception', False)], {}, witness, exc=type(exc).__name__, desc='raises %s: %s' % (type(exc).__name__, str(exc)[:100]))
        obs = []
        for r, (g, back) in enumerate(outs):
            obs.append(('rank %d: (rank, local frame) -> global frame' % r, g == want))
            obs.append(('rank %d: global frame -> (rank, local frame) inverts it' % r, back == pairs))
        return PathOut(obs, {}, witness, desc='index conversion W=%d lengths=%s' % (W, lengths))
    return path


def striped_load_job(lens, W, stride=1):
    """mpi.io.load_npy_as_striped on W ranks (in-memory .npy store): every rank reports the per-file lengths of the strided
    trajectories, and rank r holds the concatenation of the strided files r, r+W, r+2W, ..."""
    lens = list(lens)

    def path(ctx):
        from symnp import stubs_io
        io = loader.load('enspara.mpi.io')
        stubs_io.USE_FAKE[0] = True
        stubs_io.reset()
        rows = [[core.fresh_int('e') for _ in range(n)] for n in lens]
        names = ['f%d.npy' % i for i in range(len(lens))]
        for nm, r in zip(names, rows):
            stubs_io.NPY[nm] = funcs.np_array(r, dtype=np.int64)
        exc = None
        try:
            outs = spmd.WORLD.run(W, lambda r: io.load_npy_as_striped(names, stride=stride))
        except (Exception, spmd.Deadlock) as e:
            exc = e
        finally:
            stubs_io.USE_FAKE[0] = False

        def expected(vals):
            want = [r[::stride] for r in vals]
            return [len(r) for r in want], [[c for f in want[rk::W] for c in f] for rk in range(W)]

        def witness(model):
            vals = [[int(ev(model, c)) for c in r] for r in rows]
            out = {'inputs': {'lengths': lens, 'world_size': W, 'stride': stride}, 'skip_compare': True, 'out': None}
            stubs_io.USE_FAKE[0] = True
            stubs_io.reset()
            for nm, r in zip(names, vals):
                stubs_io.NPY[nm] = np.array(r, dtype=np.int64)
            try:
                with core.concrete_mode():
                    try:
                        o2 = spmd.WORLD.run(W, lambda r: io.load_npy_as_striped(names, stride=stride))
                    except (Exception, spmd.Deadlock) as e:
                        out.update(exception=repr(e), violated=['raises ' + type(e).__name__], signature='striped-load:exception:' + type(e).__name__)
                        return out
            finally:
                stubs_io.USE_FAKE[0] = False
            gl_w, loc_w = expected(vals)
            bad = []
            for rk, (gl, data) in enumerate(o2):
                if [int(x) for x in gl] != gl_w:
                    bad.append('rank %d: reported lengths are not the lengths of the strided trajectories' % rk)
                if [int(x) for x in np.asarray(data).reshape(-1)] != loc_w[rk]:
                    bad.append('rank %d: local block is not the concatenation of its strided files' % rk)
            out['out'] = [[[int(x) for x in gl], np.asarray(d).tolist()] for gl, d in o2]
            out['violated'] = bad[:3]
            out['signature'] = 'striped-load:' + (bad[0].split(': ')[1] if bad else 'ok')
            return out
        if exc is not None:
            return PathOut([('no-exception', False)], {}, witness, exc=type(exc).__name__, desc='raises %s: %s' % (type(exc).__name__, str(exc)[:100]))
        gl_w, loc_w = expected(rows)
        obs = []
        for rk, (gl, data) in enumerate(outs):
            obs.append(('rank %d: reported lengths are the lengths of the strided trajectories' % rk, [int(x) for x in gl] == gl_w))
            got = list(cells(data))
            obs.append(('rank %d: local block is the concatenation of its strided files' % rk,
                        conj([x == y for x, y in zip(got, loc_w[rk])]) if len(got) == len(loc_w[rk]) else False))
        return PathOut(obs, {}, witness, desc='load_npy_as_striped W=%d lengths=%s stride=%d' % (W, lens, stride))
    return path


def jobs(tier):
    J = []
    q = tier == 'quick'

    def add(func, name, **kw):
        J.append(dict(module='harness.C14', func=func, name=name, kwargs=kw, sig_prefix='mpi', deadline_s=280 if q else 1700))
    cfgs = [((2, 1), 1), ((2, 1), 2), ((2, 2), 2), ((1, 2, 1), 2), ((2, 1, 2), 2), ((1, 1, 1), 3), ((2, 1, 1), 3), ((3, 1, 1), 3)]
    if not q:
        cfgs += [((2, 2, 2), 3), ((1, 1, 1, 1), 4), ((2, 1, 1, 2), 4), ((3, 3), 2)]
    for lv, W in cfgs:
        for k in (2, 3):
            if k > sum(lv):
                continue
            add('kcenters_mpi_job', 'kcenters-mpi[%s,W=%d,k=%d]' % (list(lv), W, k), lengths=lv, W=W, k=k, mode='both')
        add('kcenters_mpi_job', 'kcenters-mpi[%s,W=%d,radius]' % (list(lv), W), lengths=lv, W=W, k=None, mode='r')
        add('convert_job', 'convert[%s,W=%d]' % (list(lv), W), lengths=lv, W=W)
    # (3, 2) on two ranks: the smallest layout in which a rank can own NO frame of a cluster whose medoid moves
    for lv, W, k in (((2, 1), 2, 2), ((2, 2), 2, 2), ((1, 2, 1), 2, 2), ((3, 2), 2, 2)) + (() if q else (((2, 1, 1), 3, 2), ((2, 2), 2, 3), ((2, 3), 2, 2), ((3, 1, 1), 3, 2))):
        if sum(lv) >= 5 and q:
            add('hybrid_mpi_job', 'hybrid-mpi[%s,W=%d,k=%d,a rank without members of the moving cluster]' % (list(lv), W, k), lengths=lv, W=W, k=k,
                scenario='rank-without-members')
        else:
            add('hybrid_mpi_job', 'hybrid-mpi[%s,W=%d,k=%d]' % (list(lv), W, k), lengths=lv, W=W, k=k)
    for W, ll in ((1, (3,)), (2, (2, 1)), (2, (1, 3)), (3, (1, 2, 1)), (3, (2, 2, 2))):
        for what in ('max', 'mean', 'randind'):
            add('ops_job', 'ops.%s[W=%d,%s]' % (what, W, list(ll)), W=W, local_lens=ll, what=what)
    # layouts that are not 'packed' (a later rank holds more than an earlier one): only the searched index table is right there
    for W, ll in ((3, (3, 2, 3)), (3, (2, 1, 2)), (2, (1, 2))) + (() if q else ((3, (1, 1, 3)), (4, (2, 1, 2, 1)))):
        add('ops_job', 'ops.randind[W=%d,%s]' % (W, list(ll)), W=W, local_lens=ll, what='randind')
    for lens_, W_, st_ in (((3, 2), 1, 2), ((3, 4, 2), 2, 2), ((3, 2, 3, 1), 2, 2), ((2, 3), 2, 1), ((5, 5, 3), 1, 2)) + (() if q else (((3, 4, 6, 5, 4), 2, 2), ((4, 3, 2, 5), 3, 3))):
        add('striped_load_job', 'striped-npy-load[%s,W=%d,stride=%d]' % (list(lens_), W_, st_), lens=lens_, W=W_, stride=st_)
    for W, ll in ((2, (2, 2)), (2, (2, 1)), (3, (1, 1, 1)), (3, (2, 2, 1))):
        add('ops_job', 'ops.assemble[W=%d,%s]' % (W, list(ll)), W=W, local_lens=ll, what='assemble')
    return J
