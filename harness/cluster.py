"""Shared clustering harness (C01, C02, C09, C10, C14): abstract metric, frame tokens, oracles.

Data abstraction: the clustering code observes frames only through len(), indexing and
distance_method(X, y).  Frames are therefore tokens 0..N-1 (a 1-D integer array) and the metric
is an uninterpreted function D: Int x Int -> Real constrained by D(i,i)=0, D(i,j)=D(j,i)>0
(+ triangle inequality where the property needs it).  One verdict at N frames covers every data
set of N distinct points in any dimension under any metric; replays use the public
callable-metric API with the model's distance table.
"""
import itertools
import os
import math
from fractions import Fraction

import numpy as np
import z3

from symnp import core, loader, funcs
from symnp.core import SVal, SInt, SFloat, SBool, ite, sand, sor, Unsupported
from symnp.arr import SArr, _raw, _unlazy
from harness.common import PathOut, ev, jsonable

FILES = ['enspara/cluster/kcenters.py', 'enspara/cluster/kmedoids.py', 'enspara/cluster/hybrid.py',
         'enspara/cluster/util.py']


def mods():
    kc = loader.load('enspara.cluster.kcenters')
    km = loader.load('enspara.cluster.kmedoids')
    hy = loader.load('enspara.cluster.hybrid')
    cu = loader.load('enspara.cluster.util')
    ops = loader.load('enspara.mpi.ops')
    return kc, km, hy, cu, ops


def preload():
    mods()


# ----------------------------------------------------------------------------------------------
# metric
# ----------------------------------------------------------------------------------------------

class Metric:
    def __init__(self, ctx, N, triangle=False, tiefree=False):
        self.N = N
        self.D = z3.Function('D', z3.IntSort(), z3.IntSort(), z3.RealSort())
        D = self.D
        for i in range(N):
            ctx.add(D(i, i) == 0)
            for j in range(i + 1, N):
                ctx.add(D(i, j) > 0)
                ctx.add(D(j, i) == D(i, j))
        if triangle:
            for i, j, k in itertools.permutations(range(N), 3):
                if i < j:
                    ctx.add(D(i, j) <= D(i, k) + D(k, j))
        if tiefree:
            pairs = [(i, j) for i in range(N) for j in range(i + 1, N)]
            for p, q in itertools.combinations(pairs, 2):
                ctx.add(D(*p) != D(*q))
        self.calls = 0
        self.returned = []           # (array handed to the code under test, its cells at that moment)

    def untouched(self):
        """the arrays the metric handed out are the metric's (a metric may return views of its own table): the
        code under test must not write into them"""
        conds = []
        for arr, orig in self.returned:
            now = list(arr.cells())
            if len(now) != len(orig):
                return False
            conds += [a == b for a, b in zip(now, orig)]
        return conj(conds) if conds else True

    def d(self, i, j):
        if not isinstance(i, SVal) and not isinstance(j, SVal) and int(i) == int(j):
            return 0.0
        return SFloat(0, self.D(core.to_z3_int(i), core.to_z3_int(j)))

    def __call__(self, X, y):
        self.calls += 1
        X = funcs._as_sarr(_unlazy(X))
        if isinstance(y, np.ndarray):
            if y.size != 1:
                raise Unsupported('metric called with a non-scalar frame')
            y = _raw(y).reshape(-1)[0] if isinstance(y, SArr) else y.reshape(-1)[0].item()
        if X.ndim == 2 and X.shape[1] == 1:
            X = X.reshape(-1)            # frames stored as rows of width 1 (MPI jobs need array-valued frames)
        if X.ndim != 1:
            raise Unsupported('metric called with frames of unexpected rank')
        out = funcs.np_array([self.d(x, y) for x in X.cells()], dtype=float)
        self.returned.append((out, list(out.cells())))
        return out

    def table(self, model):
        N = self.N
        T = [[Fraction(0)] * N for _ in range(N)]
        for i in range(N):
            for j in range(N):
                v = model.eval(self.D(i, j), model_completion=True)
                if z3.is_algebraic_value(v):
                    # an irrational model value (obligations with squares): 30-digit rational approximation; the replay is
                    # skipped by order_preserved() if that changes the order or the ties of the table
                    v = v.approx(30)
                T[i][j] = Fraction(v.numerator_as_long(), v.denominator_as_long())
        return T


def scale_of(fracs, cap=10 ** 12):
    l = 1
    for f in fracs:
        if isinstance(f, Fraction):
            l = l * f.denominator // math.gcd(l, f.denominator)
            if l > cap:
                return 1
    return l


def order_preserved(T, Mx):
    """the float table used in a replay must order the distances exactly as the solver's rational model does (a model
    whose distinct values collapse to equal floats is a different input - e.g. no longer tie-free)"""
    flat_t = [x for row in T for x in row]
    flat_f = [float(x) for x in np.asarray(Mx).reshape(-1)]
    idx = sorted(range(len(flat_t)), key=lambda i: flat_t[i])
    for a, b in zip(idx, idx[1:]):
        if (flat_t[a] == flat_t[b]) != (flat_f[a] == flat_f[b]) or flat_f[a] > flat_f[b]:
            return False
    return True


UNFAITHFUL = {'out': None, 'violated': [], 'skip_compare': True,
              'note': 'the solver model cannot be represented in float64 without changing the order of the distances; replay skipped'}


def concrete_metric(T, scale):
    M = np.array([[float(x * scale) for x in row] for row in T], dtype=float)

    def metric(X, y):
        out = M[np.asarray(X, dtype=int).reshape(-1), int(np.asarray(y).reshape(-1)[0])].astype(float)
        metric.returned.append((out, out.copy()))
        return out
    metric.returned = []
    metric.untouched = lambda: all(np.array_equal(a, b, equal_nan=True) for a, b in metric.returned)
    return metric, M


class LineMetric:
    """INTERPRETED data: frames are points on a line (one coordinate per frame, an N x 1 array of symbolic values), the
    metric is |x - y| computed by the front end on those values.  Unlike the token abstraction this exposes the ELEMENT TYPES
    of the data to the code under test: 'int' frames are int64 values, off-data initial centers are float64 values (multiples
    of 1/8, hence exact in the replay).  Point ids: 0..N-1 frames, N.. extra points (initial centers)."""

    def __init__(self, ctx, N, extra=0, frames='int'):
        self.N = N + extra
        self.n_frames = N
        self.frames = frames
        self.P = z3.Function('P', z3.IntSort(), z3.RealSort())
        self.pos = []
        for i in range(N + extra):
            if frames == 'int' and i < N:
                v = core.fresh_int('p%d' % i)
                ctx.add(self.P(i) == z3.ToReal(v.t))
            else:
                v = core.fresh_real('p%d' % i)
                m = z3.Int('p8_%d' % i)
                ctx.add(core.to_z3_real(v) * 8 == z3.ToReal(m))
                ctx.add(self.P(i) == core.to_z3_real(v))
            ctx.add(z3.And(self.P(i) >= -64, self.P(i) <= 64))
            self.pos.append(v)
        for i, j in itertools.combinations(range(N + extra), 2):
            ctx.add(self.P(i) != self.P(j))
        self.calls = 0
        self.returned = []

    untouched = Metric.untouched

    def X(self):
        return funcs.np_array([[v] for v in self.pos[:self.n_frames]], dtype=np.int64 if self.frames == 'int' else np.float64)

    def point(self, i):
        return funcs.np_array([self.pos[i]], dtype=np.int64 if (self.frames == 'int' and i < self.n_frames) else np.float64)

    def d(self, i, j):
        if not isinstance(i, SVal) and not isinstance(j, SVal) and int(i) == int(j):
            return 0.0
        a, b = self.P(core.to_z3_int(i)), self.P(core.to_z3_int(j))
        return SFloat(0, z3.If(a >= b, a - b, b - a))

    def __call__(self, X, y):
        self.calls += 1
        X = funcs._as_sarr(_unlazy(X))
        y = funcs._as_sarr(_unlazy(y)) if isinstance(y, (np.ndarray, list, tuple)) else y
        if isinstance(y, np.ndarray) and y.size != 1:
            raise Unsupported('metric called with a non-scalar frame')
        if X.ndim == 1:
            X = X.reshape(-1, 1)
        if X.ndim != 2 or X.shape[1] != 1:
            raise Unsupported('metric called with frames of unexpected shape')
        yv = y.reshape(-1).cells()[0] if isinstance(y, SArr) else y
        out = funcs.np_array([abs(x * 1.0 - yv * 1.0) for x in X.reshape(-1).cells()], dtype=float)
        self.returned.append((out, list(out.cells())))
        return out

    def values(self, model):
        return [Fraction(str(model.eval(self.P(i), model_completion=True).as_fraction())) for i in range(self.N)]

    def table(self, model):
        v = self.values(model)
        return [[abs(a - b) for b in v] for a in v]


def concrete_line_metric():
    def metric(X, y):
        out = np.abs(np.asarray(X, dtype=float).reshape(len(X), -1) - np.asarray(y, dtype=float).reshape(1, -1)).sum(axis=1)
        metric.returned.append((out, out.copy()))
        return out
    metric.returned = []
    metric.untouched = lambda: all(np.array_equal(a, b, equal_nan=True) for a, b in metric.returned)
    return metric


# ----------------------------------------------------------------------------------------------
# generic (symbolic or concrete) helpers
# ----------------------------------------------------------------------------------------------

def sel(lst, i):
    """lst[i] for a possibly symbolic i (caller guarantees 0 <= i < len)"""
    if not isinstance(i, SVal):
        return lst[int(i)]
    r = lst[-1]
    for v in range(len(lst) - 2, -1, -1):
        r = ite(i == v, lst[v], r)
    return r


def gmin(a, b):
    return ite(b < a, b, a)


def gmax(a, b):
    return ite(a < b, b, a)


def conj(xs):
    xs = list(xs)
    if all(isinstance(x, (bool, np.bool_)) for x in xs):
        return all(bool(x) for x in xs)
    return sand(*[x if isinstance(x, (SBool,)) else bool(x) for x in xs])


def cells(a):
    if isinstance(a, SArr):
        return a.cells()
    return list(np.asarray(a).tolist()) if not isinstance(a, list) else list(a)


def oracle_consistent(N, res, dfun, frame_of=lambda c: c, same_frame=None):
    """C01: result self-consistency.  Returns list of (label, condition)."""
    c = [x for x in res.center_indices]
    a = cells(res.assignments)
    d = cells(res.distances)
    ctrs = list(res.centers)
    k = len(c)
    obs = [('shape', (k >= 1) and len(a) == N and len(d) == N and len(ctrs) == k)]
    if not obs[0][1]:
        return obs
    obs.append(('center-index-in-range', conj([(cj >= 0) & (cj < N) for cj in c])))
    obs.append(('center-is-frame-at-its-index', conj([(same_frame(ctrs[j], c[j]) if same_frame else frame_of(ctrs[j]) == c[j]) for j in range(k)])))
    obs.append(('labels-in-range', conj([(ai >= 0) & (ai < k) for ai in a])))
    obs.append(('distance-is-to-assigned-center', conj([d[i] == dfun(i, sel(c, a[i])) for i in range(N)])))
    obs.append(('no-closer-center', conj([dfun(i, c[j]) >= d[i] for i in range(N) for j in range(k)])))
    obs.append(('center-self-label-zero-distance',
                conj([(sel(a, c[j]) == j) & (sel(d, c[j]) == 0) for j in range(k)])))
    return obs


def oracle_greedy(N, c, d, k_req, cutoff, dfun, n_init, cold):
    """C02: farthest-point rule, monotone radius, exact stop."""
    k = len(c)
    obs = []
    if k < max(1, n_init):
        return [('at-least-initial-centers', False)], []
    mind = [None] * (k + 1)
    r = [None] * (k + 1)
    for m in range(1, k + 1):
        row = []
        for i in range(N):
            x = dfun(i, c[m - 1])
            row.append(x if m == 1 else gmin(mind[m - 1][i], x))
        mind[m] = row
        acc = row[0]
        for x in row[1:]:
            acc = gmax(acc, x)
        r[m] = acc
    if cold:
        obs.append(('first-center-is-frame-0', c[0] == 0))
    far = []
    for m in range(max(n_init, 1), k):
        # center m was chosen when m centers existed: its distance to them is the largest
        dm = None
        for l in range(m):
            x = dfun(c[m], c[l])
            dm = x if dm is None else gmin(dm, x)
        far.append(dm == r[m])
    obs.append(('each-new-center-is-a-farthest-point', conj(far)))
    obs.append(('radius-never-grows', conj([r[m + 1] <= r[m] for m in range(1, k)])))
    obs.append(('reported-distances-are-covering-distances', conj([d[i] == mind[k][i] for i in range(N)])))
    just = (r[k] <= cutoff) if k_req == math.inf else ((r[k] <= cutoff) | (k == k_req) if k == k_req else (r[k] <= cutoff))
    if k_req != math.inf and k == k_req:
        just = True
    obs.append(('stop-is-justified', just))
    obs.append(('not-more-centers-than-requested', True if k_req == math.inf else k <= max(k_req, n_init)))
    late = []
    for m in range(max(n_init, 1), k):
        late.append(r[m] > cutoff)
    obs.append(('no-center-added-after-radius-reached-cutoff', conj(late)))
    return obs, r


def run_oracle(obs):
    """concrete evaluation -> list of violated labels"""
    return [lab for lab, c in obs if not bool(c)]


# ----------------------------------------------------------------------------------------------
# k-centers jobs
# ----------------------------------------------------------------------------------------------

def _res_out(res, scale=1):
    return {'center_indices': [x for x in res.center_indices],
            'assignments': res.assignments, 'distances': res.distances,
            'centers': [(x.reshape(-1).cells()[0] if isinstance(x, SArr) and x.ndim == 1 and x.size == 1 else x) for x in res.centers]}


def _concrete_out(res, scale):
    return {'center_indices': [int(x) for x in res.center_indices],
            'assignments': [int(x) for x in np.asarray(res.assignments).tolist()],
            'distances': [float(x) / scale for x in np.asarray(res.distances, dtype=float).tolist()],
            'centers': [(int if np.asarray(x).dtype.kind in 'iub' else float)(np.asarray(x).reshape(-1)[0]) for x in res.centers]}


def _scalar(x):
    return x.reshape(-1).cells()[0] if isinstance(x, SArr) else x


class _R:
    def __init__(self, d):
        self.center_indices = d['center_indices']
        self.assignments = d['assignments']
        self.distances = d['distances']
        self.centers = d['centers']


def kcenters_job(N, mode, k=None, warm=0, tri=False, entry='function', shortcut=None,
                 approx=False, props=('C01', 'C02'), warm_outside=False, data=None):
    """mode: 'n' (n_clusters only), 'r' (radius only), 'both', 'n-None' (dist_cutoff=None),
    'r-None' (n_clusters=None).  warm = number of initial centers (distinct frames, symbolic).
    shortcut: None = plain run only; 'compare' = run with and without the triangle shortcut.
    data: None = frame tokens + uninterpreted metric; 'int' / 'float' = points on a line with the metric |x - y| computed on
    the values (LineMetric: exposes the element types of frames and initial centers)"""
    kc, km, hy, cu, ops = mods()
    if data and warm and not warm_outside:
        raise ValueError('line data: initial centers are off-data points')

    def path(ctx):
        # warm_outside: the initial centers are points that are NOT frames of the data set (tokens N, N+1, ...)
        if data:
            M = LineMetric(ctx, N, warm if warm_outside else 0, frames=data)
            X = M.X()
        else:
            M = Metric(ctx, N + (warm if warm_outside else 0), triangle=tri or approx or shortcut is not None)
            X = SArr.from_typed(np.arange(N))
        X0 = X.copy()

        def init_arg(ids):
            return [M.point(t) for t in ids] if data else list(ids)
        kwargs = {}
        cutoff = 0
        k_req = math.inf
        if mode in ('r', 'both', 'r-None'):
            cutoff = core.fresh_real('cutoff')
            ctx.add(core.to_z3_real(cutoff) >= 0)
            if data:        # exactly representable in the replay
                ctx.add(core.to_z3_real(cutoff) * 8 == z3.ToReal(z3.Int('cut8')))
            kwargs['dist_cutoff'] = cutoff
        if mode in ('n', 'both', 'n-None'):
            kwargs['n_clusters'] = k
            k_req = k
        if mode == 'n-None':
            kwargs['dist_cutoff'] = None
        if mode == 'r-None':
            kwargs['n_clusters'] = None
        init = None
        if warm and warm_outside:
            init = [N + t for t in range(warm)]
            kwargs['init_centers'] = init_arg(init)
            # assumption of these jobs: every initial center attracts at least one frame (an initial center without any frame
            # has no center index at all on this code base: find_cluster_centers only reports non-empty labels)
            for t in init:
                alts = []
                for i in range(N):
                    alts.append(z3.And(*[core.to_z3_bool(M.d(i, t) < M.d(i, t2)) for t2 in init if t2 != t]) if warm > 1 else z3.BoolVal(True))
                ctx.add(z3.Or(*alts))
        elif warm:
            init = [core.fresh_int('init', 0, N - 1) for _ in range(warm)]
            for a, b in itertools.combinations(init, 2):
                ctx.add(a.t != b.t)
            kwargs['init_centers'] = list(init)
        init0 = list(init) if init else None
        init_snap = [list(a.cells()) for a in kwargs['init_centers']] if (data and init) else None

        def call(metric, Xarg, kw, use_tri):
            if entry == 'function':
                return kc.kcenters(Xarg, metric, use_triangle_inequality=use_tri, **kw)
            est_kw = {}
            if 'n_clusters' in kw:
                est_kw['n_clusters'] = kw['n_clusters']
            if 'dist_cutoff' in kw:
                est_kw['cluster_radius'] = kw['dist_cutoff']
            est = kc.KCenters(metric, **est_kw)
            est.fit(Xarg, init_centers=kw.get('init_centers'))
            class R: pass
            r = R()
            r.center_indices, r.assignments, r.distances, r.centers = (
                est.center_indices_, est.labels_, est.distances_, est.centers_)
            if est.result_.assignments is not r.assignments:
                raise AssertionError('labels_ is not the result assignments')
            return r

        exc = None
        res = res2 = None
        try:
            res = call(M, X, kwargs, shortcut == 'only')
            if shortcut == 'compare':
                kw2 = dict(kwargs)
                if init:
                    kw2['init_centers'] = init_arg(init)
                res2 = call(M, X.copy(), kw2, True)
        except Exception as e:      # raised by the code under test
            if os.environ.get('VERIF_DEBUG'):
                import traceback
                traceback.print_exc()
            exc = e

        def expected_config_error(cut_val):
            """kcenters rejects 'neither criterion given' with ImproperlyConfigured"""
            if mode == 'r' or mode == 'r-None':
                return cut_val == 0
            return False

        def witness(model):
            T = M.table(model)
            cut = ev(model, cutoff) if isinstance(cutoff, SVal) else cutoff
            if data:
                sc = 1
                vals = M.values(model)
                metric = concrete_line_metric()
                Xc0 = np.array([[int(v) if data == 'int' else float(v)] for v in vals[:N]],
                               dtype=np.int64 if data == 'int' else np.float64)
            else:
                sc = scale_of([x for row in T for x in row] + [cut])
                metric, Mx = concrete_metric(T, sc)
                if not order_preserved(T, Mx):
                    return dict(UNFAITHFUL, inputs={'D': [[float(x) for x in row] for row in T]})
                Xc0 = np.arange(N)
            kw = {}
            if 'dist_cutoff' in kwargs:
                kw['dist_cutoff'] = None if kwargs['dist_cutoff'] is None else float(cut * sc)
            if 'n_clusters' in kwargs:
                kw['n_clusters'] = kwargs['n_clusters']
            ini = None
            if init0:
                ini = [int(ev(model, v)) if isinstance(v, SVal) else int(v) for v in init0]
                kw['init_centers'] = [np.array([float(vals[v])]) for v in ini] if data else [np.int64(v) for v in ini]
            ini_args0 = [np.array(a, copy=True) for a in kw['init_centers']] if init0 else None
            inputs = {'N': N, 'D': [[float(x) for x in row] for row in T], 'dist_cutoff': float(cut) if cut is not None else None,
                      'n_clusters': kwargs.get('n_clusters', 'default'), 'init_centers': ini, 'entry': entry,
                      'mode': mode, 'use_triangle_inequality': shortcut}
            if data:
                inputs['frames (points on a line, metric |x-y|)'] = Xc0.tolist()
                inputs['frame_dtype'] = str(Xc0.dtype)
                if init0:
                    inputs['init_center_values (float64)'] = [float(vals[v]) for v in ini]
            out = {'inputs': inputs}
            Xc = Xc0.copy()
            with core.concrete_mode():
                try:
                    r1 = call(metric, Xc, kw, shortcut == 'only')
                    r2 = None
                    if shortcut == 'compare':
                        kw2 = dict(kw)
                        r2 = call(metric, Xc0.copy(), kw2, True)
                except Exception as e:
                    out['exception'] = repr(e)
                    out['out'] = None
                    if expected_config_error(cut) and type(e).__name__ == 'ImproperlyConfigured':
                        out['violated'] = []
                    else:
                        out['violated'] = ['raises ' + type(e).__name__]
                        out['signature'] = 'exception:%s:warm=%d' % (type(e).__name__, 1 if warm else 0)
                    return out
            co = _concrete_out(r1, sc)
            out['out'] = co
            dfun = lambda i, j: float(T[int(i)][int(j)])
            bad = []
            if 'C01' in props:
                bad += run_oracle(oracle_consistent(N, _R(co), dfun,
                                                    same_frame=(lambda v, cj: Fraction(v) == vals[int(cj)]) if data else None))
            if 'C02' in props:
                cc_ = (list(ini) + list(co['center_indices'][warm:])) if warm_outside else co['center_indices']
                g, _ = oracle_greedy(N, cc_, co['distances'], k_req, float(cut) if cut is not None else 0.0,
                                     dfun, warm, cold=not warm)
                bad += run_oracle(g)
            if not np.array_equal(Xc, Xc0):
                bad.append('input-data-modified')
            if init0 and (len(kw['init_centers']) != len(init0) or
                          any(not np.array_equal(np.asarray(a), np.asarray(b)) for a, b in zip(kw['init_centers'], ini_args0))):
                bad.append('init-centers-modified')
            if r2 is not None:
                c2 = _concrete_out(r2, sc)
                if c2 != co:
                    bad.append('triangle-shortcut-changes-result')
                out['out_shortcut'] = c2
            if approx and not warm:
                kk = len(co['center_indices'])
                rk = max(co['distances'])
                for S in itertools.combinations(range(N), kk):
                    opt = max(min(dfun(i, s) for s in S) for i in range(N))
                    if rk > 2 * opt + 1e-12:
                        bad.append('radius-exceeds-twice-optimal')
                        break
            if not metric.untouched():
                bad.append('arrays-returned-by-the-metric-not-written')
            out['violated'] = bad
            return out

        if exc is not None:
            ok = False
            if type(exc).__name__ == 'ImproperlyConfigured' and mode in ('r', 'r-None'):
                ok = (cutoff == 0)
            return PathOut([('no-exception-on-admissible-input', ok)], {}, witness, exc=type(exc).__name__,
                           desc='raises %s' % type(exc).__name__)
        obs = []
        if 'C01' in props:
            obs += oracle_consistent(N, res, M.d, same_frame=(lambda ctr, cj: _scalar(ctr) == SFloat(0, M.P(core.to_z3_int(cj)))) if data else None)
        r = None
        if 'C02' in props:
            cc_ = (list(init0) + list(res.center_indices)[warm:]) if warm_outside else list(res.center_indices)
            g, r = oracle_greedy(N, cc_, cells(res.distances), k_req, cutoff, M.d, warm, cold=not warm)
            obs += g
        obs.append(('input-data-unmodified', conj([a == b for a, b in zip(X.cells(), X0.cells())])))
        if init_snap is not None:
            obs.append(('init-centers-unmodified', len(kwargs['init_centers']) == len(init_snap) and
                        conj([x == y for a, b in zip(kwargs['init_centers'], init_snap) for x, y in zip(a.cells(), b)])))
        elif init0:
            obs.append(('init-centers-unmodified', len(kwargs['init_centers']) == len(init0) and
                        conj([a == b for a, b in zip(kwargs['init_centers'], init0)])))
        if res2 is not None:
            same = [a == b for a, b in zip(res.center_indices, res2.center_indices)]
            same += [a == b for a, b in zip(cells(res.assignments), cells(res2.assignments))]
            same += [a == b for a, b in zip(cells(res.distances), cells(res2.distances))]
            obs.append(('triangle-shortcut-same-result',
                        conj(same) if len(res.center_indices) == len(res2.center_indices) else False))
        if approx and not warm:
            kk = len(res.center_indices)
            ap = []
            for S in itertools.combinations(range(N), kk):
                opt = None
                for i in range(N):
                    mi = None
                    for s_ in S:
                        x = M.d(i, s_)
                        mi = x if mi is None else gmin(mi, x)
                    opt = mi if opt is None else gmax(opt, mi)
                ap.append(r[kk] <= 2 * opt)
            obs.append(('radius-at-most-twice-optimal', conj(ap)))
        so = _res_out(res)
        obs.append(('arrays-returned-by-the-metric-not-written', M.untouched()))
        return PathOut(obs, so, witness, desc='k=%d centers' % len(res.center_indices))
    return path


# ----------------------------------------------------------------------------------------------
# k-medoids / hybrid jobs (C01, C09)
# ----------------------------------------------------------------------------------------------

def sym_consistent_state(ctx, M, N, k):
    """An arbitrary state (centers, labels, distances) satisfying the C01 oracle: k distinct center
    frames, every frame labelled with a nearest center, distances accordingly."""
    c = [core.fresh_int('c', 0, N - 1) for _ in range(k)]
    for a, b in itertools.combinations(c, 2):
        ctx.add(a.t != b.t)
    a = [core.fresh_int('a', 0, k - 1) for _ in range(N)]
    d = []
    for i in range(N):
        di = M.d(i, sel(c, a[i]))
        d.append(di)
        for j in range(k):
            ctx.add(core.to_z3_bool(M.d(i, c[j]) >= di))
    for j in range(k):
        ctx.add(core.to_z3_bool(sel(a, c[j]) == j))
    return c, a, d


def cost_of(d):
    s = None
    for x in d:
        q = core.fl_square(x) if isinstance(x, SVal) else x * x
        s = q if s is None else s + q
    return s


def kmedoids_job(N, k, entry='pam', sweeps=1, warm=None, proposals=False, tri=False, mode='n',
                 props=('C01', 'C09'), colliding_draws=0):
    """colliding_draws: number of random ARRAY draws per path that may contain repeated values (default 0: a draw of several
    indices is assumed duplicate-free, i.e. rejection loops are collapsed)
    entry: 'pam'      one _kmedoids_pam_update sweep from an arbitrary consistent state (inductive step)
              'kmedoids' the public function (cold, or warm in {'centers','labels','all'})
              'hybrid'   kcenters + sweeps; 'KMedoids' / 'KHybrid' estimator forms."""
    kc, km, hy, cu, ops = mods()

    def path(ctx):
        M = Metric(ctx, N, triangle=tri)
        X = SArr.from_typed(np.arange(N))
        X0 = X.copy()
        rnd_log = loader_stubs().current_log()
        rs = loader_stubs().SymRandom()
        ctx.memo[('rnd-collision-budget',)] = colliding_draws
        pre = None
        prp = None
        cutoff = None
        kw = {}
        if entry == 'pam' or warm:
            c0, a0, d0 = sym_consistent_state(ctx, M, N, k)
            pre = (list(c0), list(a0), list(d0))
        if proposals:
            # explicit proposals: any frame that is not the center of another cluster
            prp = [core.fresh_int('prop', 0, N - 1) for _ in range(k)]
        if entry == 'pam' and proposals:
            for j in range(k):
                for l in range(k):
                    if l != j:
                        ctx.add(prp[j].t != pre[0][l].t)

        def build_args():
            if pre is None:
                return None
            return (list(pre[0]), funcs.np_array(list(pre[1]), dtype=int), funcs.np_array(list(pre[2]), dtype=float))

        exc = None
        res = None
        res_kc = None
        args = build_args()
        try:
            if entry == 'pam':
                ci, di, ai, ctrs = km._kmedoids_pam_update(
                    X, M, args[0], args[1], args[2], proposals=list(prp) if prp else None, random_state=rs)
                res = cu.ClusterResult(center_indices=ci, distances=di, assignments=ai, centers=ctrs)
            elif entry in ('kmedoids', 'KMedoids'):
                kwa = dict(n_iters=sweeps)
                if warm in ('centers', 'all'):
                    kwa['cluster_center_inds'] = args[0]
                if warm == 'all-pairs':
                    # the (trajectory, frame) form of the center indices, with the trajectory lengths
                    Ls = [1, N - 1] if N >= 2 else [N]
                    flat = [core.concretize_int(c) for c in args[0]]
                    kwa['cluster_center_inds'] = [(0, f) if f < Ls[0] else (1, f - Ls[0]) for f in flat]
                    kwa['X_lengths'] = list(Ls)
                if warm in ('labels', 'all', 'all-pairs'):
                    kwa['assignments'] = args[1]
                    kwa['distances'] = args[2]
                if not warm:
                    kwa['n_clusters'] = k
                if entry == 'kmedoids':
                    res = km.kmedoids(X, M, random_state=rs, proposals=list(prp) if prp else None, **kwa)
                else:
                    n_it = kwa.pop('n_iters')
                    ncl = kwa.pop('n_clusters', None)
                    est = km.KMedoids(M, n_clusters=ncl, n_iters=n_it)
                    est.fit(X, **kwa)
                    res = cu.ClusterResult(center_indices=est.center_indices_, distances=est.distances_,
                                           assignments=est.labels_, centers=est.centers_)
            elif entry in ('hybrid', 'KHybrid'):
                if mode in ('r', 'both'):
                    cutoff = core.fresh_real('cutoff')
                    ctx.add(core.to_z3_real(cutoff) > 0)
                    kw['dist_cutoff'] = cutoff
                if mode in ('n', 'both'):
                    kw['n_clusters'] = k
                if 'C09' in props:
                    res_kc = kc.kcenters(X.copy(), M, **kw)
                if entry == 'hybrid':
                    res = hy.hybrid(X, M, n_iters=sweeps, random_state=rs, **kw)
                else:
                    est = hy.KHybrid(M, n_clusters=kw.get('n_clusters'), cluster_radius=kw.get('dist_cutoff'),
                                     kmedoids_updates=sweeps, random_state=rs)
                    est.fit(X)
                    res = cu.ClusterResult(center_indices=est.center_indices_, distances=est.distances_,
                                           assignments=est.labels_, centers=est.centers_)
            else:
                raise ValueError(entry)
        except Exception as e:
            if os.environ.get('VERIF_DEBUG'):
                import traceback
                traceback.print_exc()
            exc = e

        draws = [v for _, v in rnd_log]

        def witness(model):
            T = M.table(model)
            cut = ev(model, cutoff) if cutoff is not None else None
            sc = scale_of([x for row in T for x in row] + ([cut] if cut is not None else []))
            metric, Mx = concrete_metric(T, sc)
            if not order_preserved(T, Mx):
                return dict(UNFAITHFUL, inputs={'D': [[float(x) for x in row] for row in T]})
            dv = [int(ev(model, v)) for v in draws]
            inputs = {'N': N, 'k': k, 'entry': entry, 'sweeps': sweeps, 'warm': warm, 'mode': mode,
                      'D': [[float(x) for x in row] for row in T], 'random_draws': dv,
                      'dist_cutoff': float(cut) if cut is not None else None}
            crs = ReplayRandom(dv)
            out = {'inputs': inputs}
            Xc = np.arange(N)
            cpre = None
            if pre is not None:
                cpre = ([int(ev(model, v)) for v in pre[0]], np.array([int(ev(model, v)) for v in pre[1]]),
                        np.array([float(Fraction(ev(model, v)) * sc) for v in pre[2]], dtype=float))      # exact product, then ONE rounding
                inputs['pre_state'] = {'centers': cpre[0], 'labels': cpre[1].tolist(),
                                       'distances': [float(ev(model, v)) for v in pre[2]]}
            cprops = [int(ev(model, v)) for v in prp] if prp else None
            inputs['proposals'] = cprops
            snap = None if cpre is None else (list(cpre[0]), cpre[1].copy(), cpre[2].copy())
            with core.concrete_mode(), PatchedRandom(km, hy, crs):
                try:
                    if entry == 'pam':
                        ci, di, ai, ctrs = km._kmedoids_pam_update(
                            Xc, metric, list(cpre[0]), cpre[1], cpre[2], proposals=cprops, random_state=crs)
                        r1 = cu.ClusterResult(center_indices=ci, distances=di, assignments=ai, centers=ctrs)
                    elif entry in ('kmedoids', 'KMedoids'):
                        kwa = dict(n_iters=sweeps)
                        if warm in ('centers', 'all'):
                            kwa['cluster_center_inds'] = list(cpre[0])
                        if warm == 'all-pairs':
                            Ls = [1, N - 1] if N >= 2 else [N]
                            kwa['cluster_center_inds'] = [(0, int(f)) if int(f) < Ls[0] else (1, int(f) - Ls[0]) for f in cpre[0]]
                            kwa['X_lengths'] = list(Ls)
                        if warm in ('labels', 'all', 'all-pairs'):
                            kwa['assignments'] = cpre[1]
                            kwa['distances'] = cpre[2]
                        if not warm:
                            kwa['n_clusters'] = k
                        if entry == 'kmedoids':
                            r1 = km.kmedoids(Xc, metric, random_state=crs, proposals=cprops, **kwa)
                        else:
                            n_it = kwa.pop('n_iters')
                            ncl = kwa.pop('n_clusters', None)
                            est = km.KMedoids(metric, n_clusters=ncl, n_iters=n_it)
                            est.fit(Xc, **kwa)
                            r1 = est.result_
                    else:
                        kw2 = {}
                        if 'dist_cutoff' in kw:
                            kw2['dist_cutoff'] = float(cut * sc)
                        if 'n_clusters' in kw:
                            kw2['n_clusters'] = k
                        if entry == 'hybrid':
                            r1 = hy.hybrid(Xc, metric, n_iters=sweeps, random_state=crs, **kw2)
                        else:
                            est = hy.KHybrid(metric, n_clusters=kw2.get('n_clusters'), cluster_radius=kw2.get('dist_cutoff'),
                                             kmedoids_updates=sweeps, random_state=crs)
                            est.fit(Xc)
                            r1 = est.result_
                except Exception as e:
                    out['exception'] = repr(e)
                    out['out'] = None
                    out['violated'] = ['raises ' + type(e).__name__]
                    out['signature'] = 'exception:%s:%s' % (type(e).__name__, entry)
                    return out
            co = _concrete_out(r1, sc)
            out['out'] = co
            dfun = lambda i, j: float(T[int(i)][int(j)])
            bad = []
            oc = run_oracle(oracle_consistent(N, _R(co), dfun))
            if 'C01' in props:
                bad += oc
            elif 'C09' in props:
                bad += [x for x in oc if x in ('center-index-in-range', 'center-is-frame-at-its-index', 'shape')]
            if 'C09' in props:
                if len(co['center_indices']) != k and (entry in ('pam', 'kmedoids', 'KMedoids')):
                    bad.append('number-of-clusters-changed')
                if cpre is not None and (entry == 'pam' or (entry == 'kmedoids' and warm in ('all', 'all-pairs'))):
                    oldc = sum(float(ev(model, v)) ** 2 for v in pre[2])
                    newc = sum(x * x for x in co['distances'])
                    if newc > oldc * (1 + 1e-12) + 1e-15:
                        bad.append('cost-increased')
                    try:
                        truec = sum(dfun(i, co['center_indices'][co['assignments'][i]]) ** 2 for i in range(N))
                        if truec > oldc * (1 + 1e-9) + 1e-12:
                            bad.append('true-cost-of-the-returned-clustering-increased')
                    except (IndexError, TypeError):
                        pass
                if entry in ('hybrid', 'KHybrid'):
                    with core.concrete_mode():
                        rk = kc.kcenters(np.arange(N), metric, **kw2)
                    oldc = sum((float(x) / sc) ** 2 for x in rk.distances)
                    newc = sum(x * x for x in co['distances'])
                    if newc > oldc * (1 + 1e-12) + 1e-15:
                        bad.append('hybrid-cost-above-kcenters-cost')
                if cprops is not None and crs.pos != 0:
                    bad.append('random-generator-consulted-although-proposals-given')
                if entry in ('kmedoids', 'hybrid') and cprops is None:
                    # fixed seed => same outcome whatever the global generator state is
                    outs = []
                    for gseed in (1, 2):
                        np.random.seed(gseed)
                        try:
                            with core.concrete_mode():
                                if entry == 'kmedoids':
                                    kwa2 = dict(n_iters=sweeps)
                                    if warm in ('centers', 'all'):
                                        kwa2['cluster_center_inds'] = list(snap[0])
                                    if warm == 'all-pairs':
                                        Ls = [1, N - 1] if N >= 2 else [N]
                                        kwa2['cluster_center_inds'] = [(0, int(f)) if int(f) < Ls[0] else (1, int(f) - Ls[0]) for f in snap[0]]
                                        kwa2['X_lengths'] = list(Ls)
                                    if warm in ('labels', 'all', 'all-pairs'):
                                        kwa2['assignments'] = snap[1].copy()
                                        kwa2['distances'] = snap[2].copy()
                                    if not warm:
                                        kwa2['n_clusters'] = k
                                    rr = km.kmedoids(np.arange(N), metric, random_state=1234, **kwa2)
                                else:
                                    rr = hy.hybrid(np.arange(N), metric, n_iters=sweeps, random_state=1234, **kw2)
                        except Exception as e:
                            # admissible input, fixed seed: the library itself fails (real NumPy generator)
                            bad.append('raises %s with random_state=1234' % type(e).__name__)
                            out['exception'] = repr(e)
                            break
                        outs.append(_concrete_out(rr, sc))
                    if len(outs) == 2 and outs[0] != outs[1]:
                        bad.append('not-reproducible-with-fixed-seed')
            if not np.array_equal(Xc, np.arange(N)):
                bad.append('input-data-modified')
            if snap is not None and entry != 'pam':
                if list(cpre[0]) != snap[0] and warm in ('centers', 'all'):
                    bad.append('caller-center-list-modified')
            if not metric.untouched():
                bad.append('arrays-returned-by-the-metric-not-written')
            out['violated'] = bad
            return out

        if exc is not None:
            return PathOut([('no-exception-on-admissible-input', False)], {}, witness, exc=type(exc).__name__,
                           desc='raises %s: %s' % (type(exc).__name__, str(exc)[:100]))
        oc = oracle_consistent(N, res, M.d)
        obs = []
        if 'C01' in props:
            obs += oc
        elif 'C09' in props:
            obs += [x for x in oc if x[0] in ('center-index-in-range', 'center-is-frame-at-its-index', 'shape')]
        if 'C09' in props:
            if entry in ('pam', 'kmedoids', 'KMedoids'):
                obs.append(('number-of-clusters-kept', len(res.center_indices) == k))
            if entry == 'pam' or (entry == 'kmedoids' and warm in ('all', 'all-pairs')):
                # (a sweep from a supplied consistent state: the starting cost is the cost of that state)
                obs.append(('cost-never-increases', cost_of(cells(res.distances)) <= cost_of(pre[2])))
                if len(res.center_indices) == k:
                    # the cost the property talks about: frames against the centers their labels point to, not the bookkeeping
                    labs, cis = cells(res.assignments), list(res.center_indices)
                    inr = conj([(l >= 0) & (l < k) for l in labs])
                    true_d = [M.d(i, sel(cis, labs[i])) for i in range(N)]
                    obs.append(('true-cost-of-the-returned-clustering-never-increases',
                                core.sor(core.snot(inr), cost_of(true_d) <= cost_of(pre[2]))))
            if res_kc is not None:
                obs.append(('hybrid-cost-at-most-kcenters-cost',
                            cost_of(cells(res.distances)) <= cost_of(cells(res_kc.distances))))
            if proposals:
                obs.append(('no-random-draw-when-proposals-are-supplied', len(draws) == 0))
        obs.append(('input-data-unmodified', conj([a == b for a, b in zip(X.cells(), X0.cells())])))
        obs.append(('arrays-returned-by-the-metric-not-written', M.untouched()))
        return PathOut(obs, _res_out(res), witness, desc='%s -> %d centers' % (entry, len(res.center_indices)))
    return path


def loader_stubs():
    from symnp import stubs
    return stubs


class ReplayRandom:
    """Concrete generator replaying the solver's draws (RandomState and Generator API subset)."""

    def __init__(self, draws):
        self.draws = list(draws)
        self.pos = 0

    def _next(self):
        if self.pos >= len(self.draws):
            raise RuntimeError('replay ran out of recorded random draws')
        v = self.draws[self.pos]
        self.pos += 1
        return v

    def choice(self, a, size=None, replace=True, p=None):
        a = np.asarray(a)
        if len(a) == 0:
            raise ValueError("'a' cannot be empty unless no samples are taken")
        return a[self._next()]

    def randint(self, low, high=None, size=None, **kw):
        return self._next()

    def integers(self, low, high=None, size=None, **kw):
        if size is None:
            return self._next()
        return np.array([self._next() for _ in range(int(size))], dtype=np.int64)


class PatchedRandom:
    """During a concrete replay the repo's check_random_state / default_rng must hand back the
    replay generator (the real ones would reject it)."""

    def __init__(self, km, hy, rs):
        self.mods = [km, hy, loader.load('enspara.cluster.kcenters'), loader.load('enspara.mpi.ops')]
        self.rs = rs
        self.saved = []

    def __enter__(self):
        from symnp import stubs
        self.prev = stubs.REPLAY_RANDOM[0]
        stubs.REPLAY_RANDOM[0] = self.rs

    def __exit__(self, *a):
        from symnp import stubs
        stubs.REPLAY_RANDOM[0] = self.prev
