"""C17  Pathways are real, bottleneck-optimal and never over-explain the flux."""
import itertools
import math

import numpy as np

from symnp import core, loader, funcs
from symnp.core import SVal, ite, sand, sor, snot
from symnp.arr import SArr, _raw
from harness.common import PathOut, ev
from harness.cluster import conj, cells, run_oracle, gmin, gmax

META = {
    'files': ['enspara/tpt/path.py'],
    'functions': ['enspara.tpt.path.top_path', 'enspara.tpt.path.paths', 'enspara.tpt.path._remove_bottleneck',
                  'enspara.tpt.path._subtract_path_flux'],
    'bounds': {'quick': 'n=3 nodes: all 64 edge patterns x both removal schemes, positive real symbolic weights, '
                        'num_paths in {1, 2, inf}, symbolic flux_cutoff in (0,1]; n=4: all 64 acyclic patterns (top_path) ',
               'thorough': 'n=4: all acyclic patterns with paths() (both schemes), conserved flows, and cyclic patterns with <=6 edges'},
    'stubs': [],
    'assumptions': ['exact real arithmetic', 'edge weights strictly positive on the pattern, zero elsewhere',
                    'ties between equally wide paths: any widest path is accepted'],
    'outside': ['n > 4'],
}


def preload():
    loader.load('enspara.tpt.path')


def simple_paths(n, sources, sinks):
    """all simple node sequences from a source to a sink that contain no other source (a path found from the
    source SET never re-enters it) -- over the complete graph; zero-weight edges give width 0"""
    out = []
    for s in sources:
        others = [v for v in range(n) if v != s and v not in sources]
        for r in range(0, len(others) + 1):
            for mid in itertools.permutations(others, r):
                seq = (s,) + mid
                if seq[-1] in sinks and not any(v in sinks for v in seq[:-1]):
                    out.append(seq)
                elif seq[-1] in sinks:
                    out.append(seq)
    return sorted(set(out))


def width(G, q):
    w = None
    for u, v in zip(q[:-1], q[1:]):
        w = G[u][v] if w is None else gmin(w, G[u][v])
    return w


def oracle_paths(n, W, sources, sinks, scheme, num_paths, cutoff, got_paths, got_fluxes, symbolic, conserved=False):
    AND = sand if symbolic else (lambda *a: all(bool(x) for x in a))
    G = [row[:] for row in W]
    obs = []
    P = simple_paths(n, sources, sinks)
    if len(got_paths) != len(got_fluxes):
        return [('one-flux-per-path', False)]
    obs.append(('number-of-paths-respected', len(got_paths) <= num_paths))
    total = 0
    for s in sources:
        for j in range(n):
            total = total + W[s][j]
    ssum = 0
    conds_real, conds_flux, conds_best, conds_mono = [], [], [], []
    for k, (p, f) in enumerate(zip(got_paths, got_fluxes)):
        p = [int(x) for x in p]
        ok_struct = len(set(p)) == len(p) and p[0] in sources and p[-1] in sinks and all(0 <= x < n for x in p) \
            and (len(p) >= 2 or (p[0] in sources and p[0] in sinks))
        conds_real.append(ok_struct)
        if not ok_struct:
            break
        if len(p) >= 2:
            conds_real.append(conj([G[u][v] > 0 for u, v in zip(p[:-1], p[1:])]))
            wp = width(G, p)
            conds_flux.append(f == wp)
            best = None
            for q in P:
                if len(q) < 2:
                    continue
                wq = width(G, q)
                best = wq if best is None else gmax(best, wq)
            conds_best.append(f == best)
        if k > 0:
            conds_mono.append(f <= got_fluxes[k - 1])
        ssum = ssum + f
        # removal
        if len(p) >= 2:
            edges = list(zip(p[:-1], p[1:]))
            if scheme == 'subtract':
                m = width(G, p)
                for u, v in edges:
                    G[u][v] = G[u][v] - m
            # first minimal edge is set to exactly zero (both schemes)
            vals = [G[u][v] for u, v in edges]
            found = False
            for idx, (u, v) in enumerate(edges):
                is_min = conj([vals[idx] <= x for x in vals]) if len(vals) > 1 else True
                first = AND(is_min, snot(found) if symbolic else (not found))
                G[u][v] = ite(first, 0.0 if not symbolic else 0, G[u][v])
                found = sor(found, is_min) if symbolic else (found or bool(is_min))
    obs.append(('paths-are-simple-source-to-sink-along-positive-residual-edges', conj(conds_real)))
    obs.append(('reported-flux-is-the-smallest-edge-flux-on-the-path', conj(conds_flux)))
    obs.append(('top-path-has-the-largest-bottleneck-of-all-source-sink-paths', conj(conds_best)))
    obs.append(('successive-fluxes-never-increase', conj(conds_mono)))
    if True:
        obs.append(('sum-of-path-fluxes-at-most-source-outflow', ssum <= total))
    # stopping: fewer paths than allowed and fraction below cutoff => nothing with positive width is left
    if len(got_paths) < num_paths:
        remaining = None
        for q in P:
            if len(q) < 2:
                continue
            wq = width(G, q)
            remaining = wq if remaining is None else gmax(remaining, wq)
        none_left = True if remaining is None else (remaining <= 0)
        reached = (ssum >= cutoff * total) if len(got_paths) else False
        obs.append(('stops-only-when-fraction-reached-or-no-path-left', sor(none_left, reached) if symbolic
                    else (bool(none_left) or bool(reached))))
        if conserved:
            obs.append(('conserved-flow-reaches-requested-fraction', reached if len(got_paths) else (total <= 0)))
    return obs


def paths_job(n, edges, sources, sinks, scheme='subtract', num_paths=math.inf, only_top=False, conserved=False, arg_form='list'):
    # arg_form: how sources / sinks are handed over (list, tuple or integer ndarray): the result must not depend on it
    form = {'list': list, 'tuple': tuple, 'ndarray': (lambda x: np.array(list(x), dtype=int))}[arg_form]
    pm = loader.load('enspara.tpt.path')
    edges = [tuple(e) for e in edges]

    def path(ctx):
        W = [[0.0] * n for _ in range(n)]
        wv = {}
        for (i, j) in edges:
            w = core.fresh_real('w')
            ctx.add(core.to_z3_real(w) > 0)
            W[i][j] = w
            wv[(i, j)] = w
        if conserved:
            for v in range(n):
                if v in sources or v in sinks:
                    continue
                inn = sum([W[u][v] for u in range(n)], 0.0)
                out = sum([W[v][u] for u in range(n)], 0.0)
                ctx.add(core.to_z3_bool(inn == out))
        cutoff = core.fresh_real('cutoff')
        ctx.add(core.to_z3_real(cutoff) > 0)
        ctx.add(core.to_z3_real(cutoff) <= 1)
        F = funcs.np_array(W, dtype=float)
        F0 = F.copy()
        exc = None
        try:
            if only_top:
                p, f = pm.top_path(form(sources), form(sinks), F)
                has = not (isinstance(f, float) and math.isinf(f))
                gp, gf = ([list(cells(p))], [f]) if has else ([], [])
            else:
                ps, fs = pm.paths(form(sources), form(sinks), F, remove_path=scheme, num_paths=num_paths, flux_cutoff=cutoff)
                gp, gf = [list(cells(p)) for p in ps], list(cells(fs))
        except Exception as e:
            exc = e

        def witness(model):
            Wc = [[float(ev(model, x)) if isinstance(x, SVal) else 0.0 for x in row] for row in W]
            cv = float(ev(model, cutoff))
            exact = all(float(ev(model, x)) == ev(model, x) for x in wv.values())
            out = {'inputs': {'net_flux': Wc, 'sources': list(sources), 'sinks': list(sinks), 'sources_and_sinks_passed_as': arg_form, 'remove_path': scheme,
                              'num_paths': 'inf' if num_paths == math.inf else num_paths, 'flux_cutoff': cv,
                              'only_top_path': only_top}}
            Fc = np.array(Wc)
            with core.concrete_mode():
                try:
                    if only_top:
                        p2, f2 = pm.top_path(form(sources), form(sinks), Fc)
                        g2p, g2f = ([[int(x) for x in p2]], [float(f2)]) if not np.isinf(f2) else ([], [])
                    else:
                        ps2, fs2 = pm.paths(form(sources), form(sinks), Fc, remove_path=scheme, num_paths=num_paths,
                                            flux_cutoff=cv)
                        g2p, g2f = [[int(x) for x in p] for p in ps2], [float(x) for x in fs2]
                except Exception as e:
                    out.update(exception=repr(e), out=None, violated=['raises ' + type(e).__name__],
                               signature='exception:' + type(e).__name__)
                    return out
            out['out'] = {'paths': g2p, 'fluxes': g2f}
            bad = []
            if exact:
                bad = run_oracle(oracle_paths(n, Wc, sources, sinks, scheme, 1 if only_top else num_paths,
                                              cv if not only_top else 2.0, g2p, g2f, False, conserved))
            else:
                # inputs not exactly representable: judge only the clauses that are robust to rounding
                tot = sum(Wc[s_][j] for s_ in sources for j in range(n))
                if sum(g2f) > tot * (1 + 1e-9) + 1e-12:
                    bad.append('sum-of-path-fluxes-at-most-source-outflow')
                if any(len(set(p)) != len(p) or p[0] not in sources or p[-1] not in sinks for p in g2p):
                    bad.append('paths-are-simple-source-to-sink-along-positive-residual-edges')
                if any(b > a * (1 + 1e-9) for a, b in zip(g2f[:-1], g2f[1:])):
                    bad.append('successive-fluxes-never-increase')
            if Fc.tolist() != Wc:
                bad.append('caller-flux-matrix-modified')
            out['violated'] = bad
            if bad == ['sum-of-path-fluxes-at-most-source-outflow'] and scheme == 'bottleneck' and not conserved:
                out['signature'] = 'bottleneck-scheme-on-non-conserved-flux:sum-exceeds-source-outflow'
            return out
        if exc is not None:
            return PathOut([('no-exception', False)], {}, witness, exc=type(exc).__name__,
                           desc='raises %s: %s' % (type(exc).__name__, str(exc)[:100]))
        obs = oracle_paths(n, W, sources, sinks, scheme, 1 if only_top else num_paths, cutoff if not only_top else 2.0,
                           gp, gf, True, conserved)
        obs.append(('caller-flux-matrix-unmodified', conj([x == y for x, y in zip(F.cells(), F0.cells())])))
        # witness models: stay away from exact ties that float rounding could flip
        prefer = []
        tot = 0
        for s_ in sources:
            for j in range(n):
                tot = tot + W[s_][j]
        acc = 0
        for f in gf:
            acc = acc + f
            prefer.append(acc != cutoff * tot)
        ws = list(wv.values())
        import z3
        prefer.append(z3.And(*[z3.IsInt(core.to_z3_real(x) * 16) for x in ws])) if ws else None
        if conserved:
            return PathOut(obs, {'paths': gp, 'fluxes': gf}, witness, desc='%d paths' % len(gp), prefer=prefer)
        for a, b in itertools.combinations(ws, 2):
            prefer.append(a != b)
        for a, b, c in itertools.permutations(ws, 3):
            if id(a) < id(b):
                prefer.append(a + b != c)
        return PathOut(obs, {'paths': gp, 'fluxes': gf}, witness, desc='%d paths' % len(gp), prefer=prefer[:60])
    return path


def all_patterns(n, acyclic=False):
    E = [(i, j) for i in range(n) for j in range(n) if i != j and (not acyclic or i < j)]
    for r in range(len(E) + 1):
        for sub in itertools.combinations(E, r):
            yield list(sub)


def jobs(tier):
    J = []
    q = tier == 'quick'

    def add(name, **kw):
        J.append(dict(module='harness.C17', func='paths_job', name='paths[%s]' % name, kwargs=kw, sig_prefix='paths',
                      deadline_s=250 if q else 1500))
    for pat in all_patterns(3):
        tag = ''.join('%d%d' % e for e in pat) or 'none'
        for scheme in ('subtract', 'bottleneck'):
            add('n=3,%s,%s' % (tag, scheme), n=3, edges=pat, sources=[0], sinks=[2], scheme=scheme)
        if len(pat) >= 3:
            add('n=3,%s,subtract,num=1' % tag, n=3, edges=pat, sources=[0], sinks=[2], scheme='subtract', num_paths=1)
        if len(pat) in (2, 3):
            add('n=3,%s,2sinks' % tag, n=3, edges=pat, sources=[0], sinks=[1, 2], scheme='subtract')
    for pat in all_patterns(4, acyclic=True):
        tag = ''.join('%d%d' % e for e in pat) or 'none'
        add('n=4,%s,top' % tag, n=4, edges=pat, sources=[0], sinks=[3], only_top=True)
        if not q:
            for scheme in ('subtract', 'bottleneck'):
                add('n=4,%s,%s' % (tag, scheme), n=4, edges=pat, sources=[0], sinks=[3], scheme=scheme)
            sink_only = all(i != 3 for i, j in pat)
            # a strictly positive conserved flow exists on a DAG pattern iff every intermediate state that is entered is
            # also left and vice versa (otherwise the job's precondition is unsatisfiable and the job would be vacuous)
            balanced = all(any(j == v for i, j in pat) == any(i == v for i, j in pat) for v in (1, 2))
            if sink_only and pat and balanced:
                add('n=4,%s,conserved' % tag, n=4, edges=pat, sources=[0], sinks=[3], scheme='subtract', conserved=True)
                add('n=4,%s,conserved,bottleneck' % tag, n=4, edges=pat, sources=[0], sinks=[3], scheme='bottleneck',
                    conserved=True)
    add('n=4,01121323,bottleneck', n=4, edges=[(0, 1), (1, 2), (1, 3), (2, 3)], sources=[0], sinks=[3], scheme='bottleneck')
    # a second route that re-uses an edge of the first path (ties on the path minimum decide which single edge is removed)
    add('n=4,01021223,bottleneck', n=4, edges=[(0, 1), (0, 2), (1, 2), (2, 3)], sources=[0], sinks=[3], scheme='bottleneck')
    add('n=4,0102121323,bottleneck', n=4, edges=[(0, 1), (0, 2), (1, 2), (1, 3), (2, 3)], sources=[0], sinks=[3], scheme='bottleneck')
    if q:
        for pat in ([(0, 1), (0, 2), (1, 3), (2, 3)], [(0, 1), (0, 2), (1, 2), (1, 3), (2, 3)]):
            tag = ''.join('%d%d' % e for e in pat)
            add('n=4,%s,conserved' % tag, n=4, edges=pat, sources=[0], sinks=[3], scheme='subtract', conserved=True)
            add('n=4,%s,two-sources' % tag, n=4, edges=pat, sources=[0, 1], sinks=[3], scheme='subtract')
            add('n=4,%s,two-sources as tuple' % tag, n=4, edges=pat, sources=[0, 1], sinks=[3], scheme='subtract', arg_form='tuple')
            add('n=4,%s,two-sources as ndarray,conserved' % tag, n=4, edges=pat, sources=[0, 1], sinks=[3], scheme='subtract', arg_form='ndarray')
    else:
        for pat in all_patterns(4):
            if len(pat) <= 6 and any(i > j for i, j in pat) and len(pat) >= 3:
                tag = ''.join('%d%d' % e for e in pat)
                if hash(tag) % 1 == 0 and len(pat) <= 4:
                    add('n=4,%s,cyclic' % tag, n=4, edges=pat, sources=[0], sinks=[3], scheme='subtract')
    return J
