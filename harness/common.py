"""Shared harness runner: jobs -> paths -> obligations -> verdicts, witness differential,
replay files, known findings, evidence."""
import hashlib
import json
import math
import multiprocessing as mp
import os
import sys
import time
import traceback
from fractions import Fraction

import numpy as np
import z3

VERIF = os.path.dirname(os.path.dirname(os.path.abspath(__file__)))
sys.path.insert(0, VERIF)

from symnp import core, loader            # noqa: E402
from symnp.core import SVal, SBool, SInt, SFloat, Unsupported   # noqa: E402
from symnp.arr import SArr, _raw          # noqa: E402

EVID = os.path.join(VERIF, 'evidence')
if os.environ.get('VERIF_REPO') and os.path.realpath(os.environ['VERIF_REPO']) != '/repo':
    # a run against another checkout (seeded worktree) must not overwrite the committed evidence of /repo
    EVID = os.path.join('/tmp', 'verif_evidence_%s' % hashlib.sha1(os.path.realpath(os.environ['VERIF_REPO']).encode()).hexdigest()[:10])
REPLAYS = os.path.join(EVID, 'replays')


# ----------------------------------------------------------------------------------------------
# evaluation of symbolic outputs under a model
# ----------------------------------------------------------------------------------------------

def ev(model, x):
    """python-or-symbolic structure -> plain python structure under `model`"""
    if isinstance(x, SVal):
        v = core.z3val(model, x)
        return v
    if isinstance(x, SArr):
        r = _raw(x)
        out = np.empty(r.shape, dtype=object)
        for ix in np.ndindex(r.shape):
            out[ix] = ev(model, r[ix])
        return out.tolist()
    if isinstance(x, np.ndarray):
        return x.tolist()
    if isinstance(x, np.generic):
        return x.item()
    if isinstance(x, (list, tuple)):
        return [ev(model, y) for y in x]
    if isinstance(x, dict):
        return {k: ev(model, v) for k, v in x.items()}
    if isinstance(x, z3.ExprRef):
        r = model.eval(x, model_completion=True)
        if z3.is_int_value(r):
            return r.as_long()
        if z3.is_rational_value(r):
            return Fraction(r.numerator_as_long(), r.denominator_as_long())
        if z3.is_true(r):
            return True
        if z3.is_false(r):
            return False
        if z3.is_algebraic_value(r):
            return float(r.approx(20).as_fraction())
        return str(r)
    return x


def jsonable(x):
    if isinstance(x, Fraction):
        return float(x) if x.denominator != 1 else int(x)
    if isinstance(x, float):
        if math.isnan(x):
            return 'nan'
        if math.isinf(x):
            return 'inf' if x > 0 else '-inf'
        return x
    if isinstance(x, (np.generic,)):
        return jsonable(x.item())
    if isinstance(x, np.ndarray):
        return jsonable(x.tolist())
    if isinstance(x, (list, tuple)):
        return [jsonable(y) for y in x]
    if isinstance(x, dict):
        return {str(k): jsonable(v) for k, v in x.items()}
    if isinstance(x, (int, str, bool)) or x is None:
        return x
    return repr(x)


def close(a, b, tol=1e-7):
    """structural comparison of plain structures; numbers within tolerance"""
    if isinstance(a, (list, tuple, np.ndarray)) or isinstance(b, (list, tuple, np.ndarray)):
        try:
            la, lb = list(a), list(b)
        except TypeError:
            return False
        return len(la) == len(lb) and all(close(x, y, tol) for x, y in zip(la, lb))
    if isinstance(a, dict) and isinstance(b, dict):
        return a.keys() == b.keys() and all(close(a[k], b[k], tol) for k in a)
    if a is None or b is None:
        return a is b
    if isinstance(a, str) or isinstance(b, str):
        return a == b
    try:
        fa, fb = float(a), float(b)
    except (TypeError, ValueError):
        return a == b
    if math.isnan(fa) or math.isnan(fb):
        return math.isnan(fa) and math.isnan(fb)
    if math.isinf(fa) or math.isinf(fb):
        return fa == fb
    return abs(fa - fb) <= tol * max(1.0, abs(fa), abs(fb))


# ----------------------------------------------------------------------------------------------
# per-path protocol
# ----------------------------------------------------------------------------------------------

class PathOut:
    """What a harness path function returns.

    obligations: list of (label, z3 Bool / SBool / bool) that must hold on this path
    sym_out:     dict name -> symbolic outputs (compared with the real run on the witness)
    witness:     callable(model) -> dict with keys 'inputs' (jsonable) and 'out' (dict like
                 sym_out from the REAL code on the concretised input) or 'exception': repr
    check:       callable(concrete_out_dict, concrete_inputs) -> list of violated labels (the
                 property oracle evaluated concretely on the real code's output)
    exception:   expected exception type name on this path, if the real call raised
    """

    def __init__(self, obligations=(), sym_out=None, witness=None, exc=None, desc=None, prefer=()):
        self.prefer = list(prefer)     # soft constraints for the witness model (stay away from float-fragile ties)
        self.obligations = list(obligations)
        self.sym_out = sym_out if sym_out is not None else {}
        self.witness = witness
        self.exc = exc
        self.desc = desc


class JobTimeout(BaseException):
    pass


class Violation:
    def __init__(self, signature, label, detail):
        self.signature = signature
        self.label = label
        self.detail = detail


def run_job(spec):
    """Runs in a worker process.  spec = dict(module, func, kwargs, name, deadline_s, ...)"""
    t0 = time.time()
    res = {'name': spec['name'], 'paths': 0, 'decisions': 0, 'queries': 0, 'solver_s': 0.0,
           'obligations': 0, 'discharged': 0, 'inconclusive': [], 'violations': [],
           'witnesses': 0, 'witness_mismatch': [], 'unsupported': [], 'samples': [],
           'complete': False, 'harness_errors': [], 'fallback_forks': 0, 'exc_paths': 0,
           'vacuous_paths': 0, 'feasible_paths': 0}
    import signal

    def _alarm(signum, frame):
        raise JobTimeout()
    signal.signal(signal.SIGALRM, _alarm)
    signal.setitimer(signal.ITIMER_REAL, spec.get('deadline_s', 600) + 5)
    ex = None
    try:
        mod = __import__(spec['module'], fromlist=['x'])
        fn = getattr(mod, spec['func'])
        path_fn = fn(**spec.get('kwargs', {}))
        ex = core.Explorer(timeout_ms=spec.get('timeout_ms', 20000),
                           max_paths=spec.get('max_paths', 20000), max_decisions=spec.get('max_decisions', 4000),
                           deadline=t0 + spec.get('deadline_s', 600))
        reach = spec.get('reach_twin', False)
        for pr in ex.explore(path_fn):
            ctx = pr.ctx
            if pr.status == 'unsupported':
                res['unsupported'].append(str(pr.error)[:300])
                continue
            if pr.status in ('inconclusive', 'limit'):
                res['inconclusive'].append('path: %s' % str(pr.error)[:200])
                continue
            if pr.status == 'exception':
                tb = ''.join(traceback.format_exception(pr.error))[-1500:]
                res['harness_errors'].append('uncaught exception on a path: %s' % tb)
                continue
            if pr.status == 'vacuous':
                res['vacuous_paths'] += 1
                continue
            po = pr.value
            if po is None:       # path rejected by a precondition
                continue
            # reachability twin: the path condition (incl. harness assumptions) must be satisfiable
            try:
                model0 = ctx.get_model(exact=True)
            except core.Vacuous:
                res['vacuous_paths'] += 1
                continue
            except core.Inconclusive as e:
                res['inconclusive'].append('path feasibility: %s' % e)
                continue
            res['feasible_paths'] += 1
            if po.prefer:
                model0 = preferred_model(ctx, po.prefer, model0)
            # --- obligations ---------------------------------------------------------
            wraps = {}
            for dtn, cnd in getattr(ctx, 'wrap_obligations', []):
                wraps.setdefault(dtn, []).append(cnd)
            extra_obs = [('no-silent-integer-wrap: every value stored into a %s array fits it' % dtn, core.sand(*cs))
                         for dtn, cs in sorted(wraps.items())] if (po.exc is None or po.exc not in ('OverflowError',)) else []
            for label, prop in list(po.obligations) + extra_obs:
                res['obligations'] += 1
                status, model = ctx.prove(prop)
                if status == 'proved':
                    res['discharged'] += 1
                elif status == 'unknown':
                    res['inconclusive'].append('obligation %s: solver unknown' % label)
                else:
                    hint = None if os.environ.get('VERIF_NO_HINTS') else getattr(po, 'refute_hints', {}).get(label)
                    if hint is not None:
                        # the harness knows a clear-cut region for this obligation: look for the refutation there first
                        try:
                            st_h, m_h = ctx.prove(core.sor(prop, core.snot(hint)))
                            if st_h == 'refuted' and m_h is not None:
                                model = m_h
                        except Exception:
                            pass
                    v = confirm(spec, po, label, model)
                    # a refuting model can fail to reproduce by coincidence (e.g. an integer wrap whose result happens to have
                    # the same magnitude): ask the solver for up to three further, different refutations before giving up
                    tries = 0
                    if v['kind'] == 'nonrepro' and 'UB-CANDIDATE' not in v['detail']:
                        # first a refutation on a COARSE GRID (every real variable the obligation talks about a multiple of 1/8, then
                        # of 1/1024): solver models tend to sit just across the boundary, and a violation of 1e-6 is lost in the
                        # float tolerance of the replay; on a coarse grid a violated equality is violated by a visible margin
                        try:
                            from z3 import z3util
                            pz = core._b(prop)
                            pv = [x for x in (z3util.get_vars(pz) if isinstance(pz, z3.ExprRef) else []) if x.sort().kind() == z3.Z3_REAL_SORT]
                            for den in (8, 1024):
                                if not pv:
                                    break
                                grid = z3.And(*[x * den == z3.ToReal(z3.Int('grid!%d' % i)) for i, x in enumerate(pv)])
                                st_g, m_g = ctx.prove(core.sor(prop, core.SBool.mk(z3.Not(grid))))
                                if st_g == 'refuted' and m_g is not None:
                                    vg = confirm(spec, po, label, m_g)
                                    if vg['kind'] != 'nonrepro':
                                        v, model = vg, m_g
                                        break
                        except Exception:
                            if os.environ.get('VERIF_DEBUG'):
                                traceback.print_exc()
                    while v['kind'] == 'nonrepro' and 'UB-CANDIDATE' not in v['detail'] and tries < 3:
                        tries += 1
                        try:
                            eqs = []
                            from z3 import z3util
                            pz = core._b(prop)
                            pvars = z3util.get_vars(pz) if isinstance(pz, z3.ExprRef) else []
                            for x in pvars:            # the next refutation must differ on a variable the obligation talks about
                                if x.sort().kind() in (z3.Z3_INT_SORT, z3.Z3_REAL_SORT):
                                    eqs.append(x == model.eval(x, model_completion=True))
                            if not eqs:
                                break
                            status2, model2 = ctx.prove(core.sor(prop, core.SBool.mk(z3.And(*eqs))))
                        except Exception:
                            if os.environ.get('VERIF_DEBUG'):
                                traceback.print_exc()
                            break
                        if os.environ.get('VERIF_DEBUG'):
                            print('retry', tries, status2, file=sys.stderr)
                        if status2 != 'refuted' and status2 != 'disproved' and model2 is None:
                            break
                        if model2 is None:
                            break
                        model = model2
                        v2 = confirm(spec, po, label, model)
                        if v2['kind'] != 'nonrepro':
                            v = v2
                    if v['kind'] == 'violation':
                        res['violations'].append(v)
                    elif v['kind'] == 'harness_error':
                        res['harness_errors'].append(v['detail'])
                    else:
                        res['inconclusive'].append(v['detail'])
            # --- witness differential (also shows the path is reachable) -----------------
            if po.witness is not None and (res['witnesses'] < spec.get('max_witness', 40)):
                try:
                    w = po.witness(model0)
                    res['witnesses'] += 1
                    exp = jsonable(ev(model0, po.sym_out))
                    got = jsonable(w.get('out'))
                    if po.exc is not None:
                        if w.get('exception') is None or po.exc not in w['exception']:
                            res['witness_mismatch'].append({'inputs': w.get('inputs'), 'expected_exception': po.exc,
                                                            'got': w.get('exception'), 'out': got})
                    elif w.get('violated'):
                        # the REAL code's output on this concrete witness fails the concrete oracle
                        sig = spec.get('sig_prefix', spec['name'].split('[')[0]) + ':' + (w.get('signature') or w['violated'][0])
                        res['violations'].append({'kind': 'violation', 'signature': sig, 'label': w['violated'][0],
                                                  'job': spec['name'], 'inputs': w.get('inputs'), 'real_output': got,
                                                  'exception': w.get('exception'), 'violated': w['violated'],
                                                  'found_by': 'concrete oracle on a path witness',
                                                  'replay_spec': {'module': spec['module'], 'func': spec['func'],
                                                                  'kwargs': spec.get('kwargs', {}), 'inputs': w.get('inputs')}})
                    elif w.get('skip_compare') or abstract_inconsistent(ctx, model0):
                        res['witness_compare_skipped'] = res.get('witness_compare_skipped', 0) + 1
                    elif w.get('exception') is not None or not close(exp, got, spec.get('tol', 1e-6)):
                        res['witness_mismatch'].append({'inputs': w.get('inputs'), 'symbolic': exp, 'real': got,
                                                        'exception': w.get('exception')})
                    if len(res['samples']) < 3:
                        res['samples'].append({'job': spec['name'], 'path': res['paths'], 'desc': po.desc,
                                               'witness_inputs': w.get('inputs'),
                                               'real_output': got if po.exc is None else w.get('exception')})
                except core.Inconclusive as e:
                    res['inconclusive'].append('witness: %s' % e)
            if po.exc is not None:
                res['exc_paths'] += 1
        res['paths'] = ex.stats['paths']
        res['decisions'] = ex.stats['decisions']
        res['queries'] = ex.stats['queries']
        res['solver_s'] = ex.stats['solver_s']
        res['fallback_forks'] = ex.stats.get('fallback_forks', 0)
        res['complete'] = ex.complete
        if not ex.complete:
            res['inconclusive'].append('exploration stopped before all paths were visited (budget)')
        if res['feasible_paths'] == 0:
            if res['unsupported'] and not res['inconclusive'] and ex.complete:
                # nothing of this job could be encoded: the check has lost its coverage of this code and must not
                # report success (this never happens on the tree the harness was built for)
                res['harness_errors'].append('encoding lost: every path of the job ended in a construct the front end '
                                             'does not model (first: %s)' % res['unsupported'][0])
            elif res['unsupported'] or res['inconclusive']:
                res['inconclusive'].append('no path reached the assertions (all ended in an unsupported construct / solver unknown)')
            else:
                res['harness_errors'].append('vacuous job: no feasible path reached the assertions')
    except JobTimeout:
        res['inconclusive'].append('job exceeded its time budget of %ss (a path did not terminate in time)'
                                   % spec.get('deadline_s', 600))
        if ex is not None:
            res['paths'] = ex.stats['paths']
            res['decisions'] = ex.stats['decisions']
            res['queries'] = ex.stats['queries']
            res['solver_s'] = ex.stats['solver_s']
    except (Exception, core.Unsupported, core.Inconclusive, core.Vacuous, core.PathLimit):
        tb = traceback.format_exc()
        if 'JobTimeout' in tb:
            # the alarm went off inside a ctypes call of the solver API, which re-raises it as ctypes.ArgumentError
            res['inconclusive'].append('job exceeded its time budget of %ss (a path did not terminate in time)'
                                       % spec.get('deadline_s', 600))
        else:
            res['harness_errors'].append(tb[-2000:])
    finally:
        signal.setitimer(signal.ITIMER_REAL, 0)
    res['wall_s'] = time.time() - t0
    return res


def abstract_inconsistent(ctx, model):
    """log() is abstracted without refinement: a model may give the abstraction a value the real function
    does not have; such a witness cannot be compared output-by-output with the real run."""
    import math as _m
    for kind, var, arg in getattr(ctx, 'abstract_terms', []):
        try:
            a = ev(model, arg)
            v = ev(model, var)
            if kind == 'log' and (float(a) <= 0 or abs(_m.log(float(a)) - float(v)) > 1e-9 * max(1.0, abs(float(v)))):
                return True
        except Exception:
            return True
    return False


def preferred_model(ctx, prefer, fallback):
    """A model of the path condition that also satisfies as many of the soft constraints as possible
    (greedy).  Only used to pick witnesses that are robust against float rounding."""
    s = ctx.solver
    s.push()
    try:
        for d in ctx.refine:
            s.add(d)
        model = fallback
        cs = [c for c in (core._b(c) for c in prefer) if not isinstance(c, bool)]
        s.push()
        s.add(*cs) if cs else None
        r = s.check()
        ctx.stats['queries'] += 1
        if r == z3.sat:
            return s.model()
        s.pop()
        for c in prefer:
            c = core._b(c)
            if isinstance(c, bool):
                continue
            s.push()
            s.add(c)
            r = s.check()
            ctx.stats['queries'] += 1
            if r == z3.sat:
                model = s.model()       # keep the constraint (leave the push in place)
            else:
                s.pop()
                s.push()                # balance
        return model
    finally:
        # pop everything pushed above
        while s.num_scopes() > ctx_scopes(ctx):
            s.pop()


def ctx_scopes(ctx):
    return getattr(ctx, '_base_scopes', 0)


def confirm(spec, po, label, model):
    """A solver model refuting an obligation: replay on the real code before reporting."""
    if 'independence:' in label:
        # a data race between prange iterations is undefined behaviour that no run can confirm deterministically
        return {'kind': 'nonrepro', 'detail': 'UB-CANDIDATE (not replayable, reported separately): %s in %s -- two '
                'prange iterations can touch the same location' % (label, spec['name'])}
    if po.witness is None:
        return {'kind': 'harness_error', 'detail': 'refuted obligation %s but harness has no replay' % label}
    try:
        try:
            w = po.witness(model, label=label)
        except TypeError:
            w = po.witness(model)
    except Exception:
        return {'kind': 'harness_error', 'detail': 'replay crashed: ' + traceback.format_exc()[-800:]}
    bad = w.get('violated')
    if bad is None:
        return {'kind': 'harness_error', 'detail': 'witness gave no concrete oracle result for %s' % label}
    if bad:
        sig = spec.get('sig_prefix', spec['name'].split('[')[0]) + ':' + (w.get('signature') or label)
        return {'kind': 'violation', 'signature': sig, 'label': label, 'job': spec['name'],
                'inputs': w.get('inputs'), 'real_output': jsonable(w.get('out')),
                'exception': w.get('exception'), 'violated': bad,
                'replay_spec': {'module': spec['module'], 'func': spec['func'], 'kwargs': spec.get('kwargs', {}),
                                'inputs': w.get('inputs')}}
    return {'kind': 'nonrepro', 'detail': 'model refuting %s in %s did not reproduce on the real code '
            '(inputs %s) - treated as inconclusive' % (label, spec['name'], json.dumps(w.get('inputs'))[:300])}


# ----------------------------------------------------------------------------------------------
# top level
# ----------------------------------------------------------------------------------------------

def _job_entry(spec, conn):
    try:
        r = run_job(spec)
    except BaseException:
        r = _dead(spec, traceback.format_exc()[-1500:])
    try:
        conn.send(r)
    finally:
        conn.close()


def run_jobs_hard(jobs, nproc=16):
    """one forked process per job, at most nproc at a time; a job that overruns its budget by more than 45 s (a solver
    call that ignores its timeout) is killed and reported as inconclusive"""
    ctxm = mp.get_context('fork')
    pending = list(jobs)
    running = []
    results = []
    while pending or running:
        while pending and len(running) < nproc:
            spec = pending.pop(0)
            pc, cc = ctxm.Pipe(duplex=False)
            p = ctxm.Process(target=_job_entry, args=(spec, cc))
            p.start()
            cc.close()
            running.append((p, pc, spec, time.time()))
        still = []
        for p, pc, spec, t0 in running:
            done = False
            if pc.poll(0):
                try:
                    results.append(pc.recv())
                except EOFError:
                    results.append(_dead(spec, 'worker died without a result'))
                done = True
                p.join(5)
            elif not p.is_alive():
                results.append(_dead(spec, 'worker exited without a result (exit code %s)' % p.exitcode))
                done = True
            elif time.time() - t0 > spec.get('deadline_s', 600) + 45:
                p.kill()
                p.join(5)
                results.append(_dead(spec, 'job killed after exceeding its time budget of %ss (a solver call ignored its '
                                           'timeout)' % spec.get('deadline_s', 600), inconclusive=True))
                done = True
            if not done:
                still.append((p, pc, spec, t0))
        running = still
        if running:
            time.sleep(0.05)
    return results


def _dead(spec, msg, inconclusive=False):
    r = {'name': spec['name'], 'paths': 0, 'decisions': 0, 'queries': 0, 'solver_s': 0.0, 'obligations': 0, 'discharged': 0,
         'inconclusive': [], 'violations': [], 'witnesses': 0, 'witness_mismatch': [], 'unsupported': [], 'samples': [],
         'complete': False, 'harness_errors': [], 'fallback_forks': 0, 'exc_paths': 0, 'vacuous_paths': 0, 'feasible_paths': 0,
         'wall_s': float(spec.get('deadline_s', 0))}
    (r['inconclusive'] if inconclusive else r['harness_errors']).append(msg)
    return r


def load_known(prop):
    out = {'known': {}, 'fixed': {}}
    p = os.path.join(VERIF, 'known_findings.jsonl')
    if os.path.exists(p):
        for line in open(p):
            line = line.strip()
            if not line:
                continue
            d = json.loads(line)
            if d.get('property') != prop:
                continue
            out['fixed' if d.get('status') == 'fixed' else 'known'][d['signature']] = d
    return out


def run_property(prop, jobs, meta, tier, nproc=16):
    """jobs: list of spec dicts.  Writes evidence, prints verdict lines, returns exit code."""
    t0 = time.time()
    os.makedirs(REPLAYS, exist_ok=True)
    seed = int(os.environ.get('VERIF_SEED', '0') or 0)
    if seed:
        import random
        random.Random(seed).shuffle(jobs)
    for mname in sorted({j['module'] for j in jobs}):
        m = __import__(mname, fromlist=['x'])
        if hasattr(m, 'preload'):
            m.preload()      # import /repo modules once, before forking the workers
    results = run_jobs_hard(jobs, nproc)
    known = load_known(prop)
    agg = {k: 0 for k in ('paths', 'decisions', 'queries', 'obligations', 'discharged', 'witnesses',
                          'fallback_forks', 'exc_paths', 'vacuous_paths', 'feasible_paths')}
    solver_s = 0.0
    viol, inconc, herr, unsup, mism, samples = [], [], [], [], [], []
    incomplete = []
    for r in results:
        for k in agg:
            agg[k] += r.get(k, 0)
        solver_s += r['solver_s']
        viol += r['violations']
        inconc += ['%s: %s' % (r['name'], x) for x in r['inconclusive']]
        herr += ['%s: %s' % (r['name'], x) for x in r['harness_errors']]
        unsup += ['%s: %s' % (r['name'], x) for x in r['unsupported']]
        mism += [dict(job=r['name'], **m) for m in r['witness_mismatch']]
        samples += r['samples']
        if not r['complete']:
            incomplete.append(r['name'])
    # classify violations against the committed known-findings file
    new_viol, known_hit = [], {}
    for v in viol:
        if v['signature'] in known['known']:
            known_hit.setdefault(v['signature'], v)
        else:
            new_viol.append(v)
    lines = []
    for sig, v in sorted(known_hit.items()):
        lines.append('KNOWN-FINDING: property=%s %s -- %s' % (prop, sig, known['known'][sig].get('what', '')))
    seen = set()
    exit_code = 0
    for v in new_viol:
        if v['signature'] in seen:
            continue
        seen.add(v['signature'])
        h = hashlib.sha256(json.dumps(v, sort_keys=True, default=str).encode()).hexdigest()[:10]
        path = os.path.join(REPLAYS, '%s-%s.json' % (prop, h))
        with open(path, 'w') as f:
            json.dump(dict(v, property=prop), f, indent=1, default=str)
        lines.append('VIOLATION property=%s replay=%s' % (prop, path))
        lines.append('  signature=%s violated=%s inputs=%s' % (v['signature'], v['violated'],
                                                            json.dumps(v['inputs'], default=str)[:400]))
        exit_code = 1
    for x in sorted(set(inconc))[:40]:
        lines.append('INCONCLUSIVE property=%s %s' % (prop, x[:300]))
    for x in sorted(set(unsup))[:40]:
        lines.append('INCONCLUSIVE property=%s unsupported construct: %s' % (prop, x[:300]))
    if mism:
        for m in mism[:5]:
            lines.append('HARNESS-ERROR property=%s shim and real code disagree on a witness: %s' %
                         (prop, json.dumps(m, default=str)[:600]))
    for x in herr[:5]:
        lines.append('HARNESS-ERROR property=%s %s' % (prop, x[-900:]))
    if (herr or mism) and exit_code == 0:
        exit_code = 2
    if agg['paths'] == 0 and exit_code == 0:
        lines.append('HARNESS-ERROR property=%s vacuous: no path explored' % prop)
        exit_code = 2
    wall = time.time() - t0
    n_inconc = len(inconc) + len(unsup)
    evidence = {
        'property_id': prop, 'tier': tier, 'seed': seed, 'level': 'model_checking',
        'coverage': {
            'states': max(agg['paths'], 0), 'transitions': max(agg['decisions'], 0) + agg['obligations'],
            'branch_decisions': agg['decisions'],
            'traces_validated_against_impl': agg['witnesses'],
            'samples': samples[:6] or [{'note': 'no sample recorded'}],
            'obligations': agg['obligations'], 'discharged': agg['discharged'],
            'inconclusive': n_inconc, 'inconclusive_detail': sorted(set(inconc + unsup))[:30],
            'jobs': len(jobs), 'jobs_incomplete': incomplete,
            'solver_queries': agg['queries'], 'solver_s': round(solver_s, 3),
            'paths_ending_in_exception': agg['exc_paths'],
            'reachability': {'feasible_paths': agg['feasible_paths'], 'vacuous_paths': agg['vacuous_paths']},
            'mask_concretisation_forks': agg['fallback_forks'],
            'known_findings_confirmed': sorted(known_hit),
            'witness_mismatches': len(mism),
            'exhaustive': (not incomplete and n_inconc == 0),
            'explanation': 'states = feasible paths of the real /repo functions explored symbolically '
                           '(every path within the bound when exhaustive is true); transitions = solver-decided steps '
                           '(branch points + property obligations); obligations = property assertions checked with z3 on each path '
                           '(unsat of path-condition /\\ not(property)); traces_validated = path witnesses re-run on '
                           'the real code with real NumPy and compared with the symbolic outputs.',
            'functions_encoded': meta.get('functions', []),
            'bounds': meta.get('bounds', {}).get(tier, meta.get('bounds')),
            'outside_claim': meta.get('outside', []),
            'stubs': meta.get('stubs', []),
            'source_hashes': loader.source_hashes(meta.get('files', [])),
            'per_job': [{k: r[k] for k in ('name', 'paths', 'queries', 'obligations', 'discharged', 'complete', 'wall_s')}
                        for r in sorted(results, key=lambda r: r['name'])][:400],
        },
        'assumptions': meta.get('assumptions', []),
        'wall_s': round(wall, 2),
        'violations': len(seen),
    }
    if evidence['coverage']['states'] < 1:
        evidence['coverage']['states'] = 0
    with open(os.path.join(EVID, '%s.json' % prop), 'w') as f:
        json.dump(evidence, f, indent=1, default=str)
    for ln in lines:
        print(ln)
    print('%s %s: jobs=%d paths=%d obligations=%d discharged=%d inconclusive=%d violations=%d '
          'known=%d witnesses=%d queries=%d solver=%.1fs wall=%.1fs' %
          (prop, tier, len(jobs), agg['paths'], agg['obligations'], agg['discharged'], n_inconc, len(seen),
           len(known_hit), agg['witnesses'], agg['queries'], solver_s, wall))
    return exit_code


def generic_replay(spec, record):
    """Re-run a recorded violation: rebuild the job, re-derive the same symbolic path is not
    needed -- the job's witness function is driven with the recorded concrete inputs through
    the module-level `replay_inputs` hook of the harness module."""
    mod = __import__(spec['module'], fromlist=['x'])
    fn = getattr(mod, 'replay_inputs', None)
    if fn is None:
        print('no replay hook in %s; recorded inputs:' % spec['module'])
        print(json.dumps(record.get('inputs'), indent=1))
        return False
    out = fn(spec, record['inputs'])
    print(json.dumps(jsonable(out), indent=1))
    return bool(out.get('violated'))
