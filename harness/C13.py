"""C13  Distance kernels are exact for every dtype, memory layout and thread count."""
from harness import kernels

preload = kernels.preload

META = {
    'files': ['enspara/geometry/libdist.pyx', 'enspara/cluster/util.py'],
    'functions': ['libdist._prepare_for_2d_to_1d_distance/_check_is_1d/_check_is_2d', 'libdist._euclidean/_manhattan/_hamming '
                  '(every fused specialisation, from the typed Cython tree)', 'libdist.euclidean/manhattan/hamming (wrappers)',
                  'enspara.cluster.util._get_distance_method'],
    'bounds': {'quick': 'functional: 2 rows x 2 features per element type, symbolic contents over the full range of the type ((double) of a 64-bit integer modelled with '
                        'its rounding: exact to 2^53, nearest even to 2^54, relative 2^-53 beyond), with and '
                        'without out=; memory safety + prange independence: UNBOUNDED symbolic extents, ranks X in {1,2,3}, y in {1,2}, '
                        'out in {none,1,2}', 'thorough': 'functional 2x3'},
    'stubs': ['sqrt = r>=0 & r*r=x', 'Cython buffer acquisition (dtype / ndim validation of np.ndarray[T, ndim=k] arguments) is '
              'trusted generated code and modelled as: wrong ndim or dtype raises'],
    'assumptions': ['float32/float64 elements are real numbers (rounding and summation order outside the claim)',
                    'C integer arithmetic: exact integers + one representability obligation per operation in the C type Cython '
                    'assigned to the node (a refuted obligation is a concrete overflowing input, replayed on the compiled kernel)',
                    'layouts: buffer access is stride based, the translation indexes logically; witnesses are replayed on C, '
                    'Fortran and strided layouts and with 1, 4, 16 OpenMP threads on the extension built from the current source',
                    'thread count: result is schedule independent once the iteration-independence obligations hold'],
    'outside': ['float rounding / summation order', 'the OpenMP runtime itself'],
}


def metric_lookup_job():
    """_get_distance_method: names map to the right kernels, callables to themselves, unknown names are rejected"""
    from symnp import loader, core
    from harness.common import PathOut

    def path(ctx):
        cu = loader.load('enspara.cluster.util')
        ld = __import__('sys').modules['enspara.geometry.libdist']
        f = lambda X, y: None
        obs = [('euclidean->euclidean', cu._get_distance_method('euclidean') is ld.euclidean),
               ('manhattan->manhattan', cu._get_distance_method('manhattan') is ld.manhattan),
               ('cityblock->manhattan', cu._get_distance_method('cityblock') is ld.manhattan),
               ('callable->itself', cu._get_distance_method(f) is f)]
        try:
            cu._get_distance_method('no-such-metric')
            obs.append(('unknown-name-rejected', False))
        except Exception as e:
            obs.append(('unknown-name-rejected', type(e).__name__ == 'ImproperlyConfigured'))
        return PathOut(obs, {}, None, desc='_get_distance_method')
    return path


def jobs(tier):
    J = kernels.jobs_for('C13', tier)
    J.append(dict(module='harness.C13', func='metric_lookup_job', name='metric-lookup', kwargs={}, sig_prefix='kernel',
                  deadline_s=60))
    return J
