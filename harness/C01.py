"""C01  Clustering results are self-consistent for every algorithm and input."""
from harness import cluster

preload = cluster.preload

META = {
    'files': cluster.FILES,
    'functions': ['enspara.cluster.kcenters.kcenters/_kcenters_iteration/KCenters.fit',
                  'enspara.cluster.kmedoids.kmedoids/_kmedoids_inputs_tree/_kmedoids_iterations/_kmedoids_pam_update/'
                  '_propose_new_center_amongst/KMedoids.fit', 'enspara.cluster.hybrid.hybrid/KHybrid.fit',
                  'enspara.cluster.util.assign_to_nearest_center/find_cluster_centers/ClusterResult + labels_/distances_/'
                  'center_indices_/centers_', 'enspara.mpi.ops.striped_array_mean (world size 1)'],
    'bounds': {'quick': 'k-centers: N<=5, k<=3, warm<=2; k-medoids / hybrid (function + estimator): N<=3 (PAM inductive sweep also '
                        'N=4,k=2), 1-2 sweeps; cold and warm (centers / labels+distances / all three)',
               'thorough': 'k-centers N<=6; k-medoids / hybrid N<=4 all forms, inductive PAM sweep N<=4 k<=3, 2 sweeps'},
    'stubs': ['metric = uninterpreted function D (zero diagonal, symmetric, positive)',
              'sklearn check_random_state / numpy default_rng = nondeterministic generator (every draw a fresh admissible value; '
              'array draws assumed duplicate-free so the rejection loop is collapsed)',
              'np.square kept opaque (SQ >= 0) with exact refinement for witnesses', 'logging disabled'],
    'assumptions': ['exact real arithmetic (float rounding outside the claim; the <0.001 slack in kmedoids only sees exact zeros)',
                    'points pairwise distinct', 'token abstraction of frames',
                    'warm-start state supplied by the caller is consistent (centers distinct frames, labels = a nearest center)',
                    'k-medoids history clause: one PAM sweep from an ARBITRARY consistent state re-establishes the oracle '
                    '(inductive step), hence any number of sweeps'],
    'outside': ["metric='rmsd' (mdtraj C code)", 'N beyond the bound', 'args.save_intermediates file output'],
}


def jobs(tier):
    J = []
    q = tier == 'quick'
    dl = 280 if q else 1700

    def kc(name, **kw):
        J.append(dict(module='harness.cluster', func='kcenters_job', name='kc[%s]' % name,
                      kwargs=dict(kw, props=('C01',)), sig_prefix='kcenters', deadline_s=dl))

    def km(name, **kw):
        J.append(dict(module='harness.cluster', func='kmedoids_job', name='km[%s]' % name,
                      kwargs=dict(kw, props=('C01',)), sig_prefix='kmedoids', deadline_s=dl))
    for N in ([2, 3, 4, 5] if q else [2, 3, 4, 5, 6]):
        for k in range(1, min(3, N) + 1):
            kc('N=%d,both,k=%d' % (N, k), N=N, mode='both', k=k)
        kc('N=%d,r' % N, N=N, mode='r')
        if N <= 4:
            kc('N=%d,estimator,k=2' % N, N=N, mode='n', k=2, entry='estimator')
            kc('N=%d,estimator,k=N+2(more clusters than frames)' % N, N=N, mode='n', k=N + 2, entry='estimator')
            kc('N=%d,n-None,k=N+1' % N, N=N, mode='n-None', k=N + 1)
            for w in range(1, min(2, N) + 1):
                kc('N=%d,r,warm=%d' % (N, w), N=N, mode='r', warm=w)
                kc('N=%d,n,k=%d,warm=%d' % (N, w + 1, w), N=N, mode='n', k=w + 1, warm=w)
    Nk = [(2, 1), (2, 2), (3, 1), (3, 2), (3, 3)] if q else [(2, 1), (2, 2), (3, 1), (3, 2), (3, 3), (4, 2), (4, 3)]
    for N, k in Nk:
        km('pam,N=%d,k=%d' % (N, k), N=N, k=k, entry='pam')
        km('pam,N=%d,k=%d,proposals' % (N, k), N=N, k=k, entry='pam', proposals=True)
        km('kmedoids,N=%d,k=%d,cold' % (N, k), N=N, k=k, entry='kmedoids', sweeps=1)
        for w in ('centers', 'labels', 'all'):
            km('kmedoids,N=%d,k=%d,warm=%s' % (N, k, w), N=N, k=k, entry='kmedoids', warm=w, sweeps=1)
        if N <= 3:
            km('kmedoids,N=%d,k=%d,cold,2sweeps' % (N, k), N=N, k=k, entry='kmedoids', sweeps=2)
            km('KMedoids,N=%d,k=%d' % (N, k), N=N, k=k, entry='KMedoids', sweeps=1)
            km('KHybrid,N=%d,k=%d' % (N, k), N=N, k=k, entry='KHybrid', sweeps=1)
        km('hybrid,N=%d,k=%d,n' % (N, k), N=N, k=k, entry='hybrid', sweeps=1, mode='n')
        km('hybrid,N=%d,k=%d,both' % (N, k), N=N, k=k, entry='hybrid', sweeps=1, mode='both')
    if q:
        km('pam,N=4,k=2', N=4, k=2, entry='pam')
        km('pam,N=4,k=3', N=4, k=3, entry='pam')
    return J
