"""C02  K-centers: farthest point, monotone radius, exact stop, 2-approximation, shortcut."""
from harness import cluster

META = {
    'files': cluster.FILES,
    'functions': ['enspara.cluster.kcenters.kcenters', 'enspara.cluster.kcenters._kcenters_iteration',
                  'enspara.cluster.kcenters.KCenters.fit',
                  'enspara.cluster.util.assign_to_nearest_center', 'enspara.cluster.util.find_cluster_centers'],
    'bounds': {'quick': 'N<=5 frames, n_clusters<=3 (and N+1), symbolic radius cut-off, 0..2 symbolic initial centers taken from the data and '
                        '1..2 initial centers that are NOT frames of the data (N<=4); '
                        '2-approximation over all k-subsets for N<=5; interpreted data (points on a line, |x-y| computed on int64 / float64 values in [-64, 64], '
                        'float64 off-data initial centers and radius multiples of 1/8): N<=4, k<=4',
               'thorough': 'N<=7 frames, n_clusters<=4, 0..3 initial centers; 2-approximation N<=6'},
    'stubs': ['metric = uninterpreted function D (zero diagonal, symmetric, positive; triangle inequality for the '
              'shortcut / approximation jobs)', 'logging disabled'],
    'assumptions': ['exact real arithmetic (float rounding outside the claim)',
                    'points pairwise distinct (D>0 off the diagonal)',
                    'frames observed only through len/indexing/metric (token abstraction)',
                    'off-data initial centers: every initial center attracts at least one frame'],
    'outside': ['random_first_center=True (NotImplementedError by design)', '2-approximation for warm starts',
                'initial centers that attract no frame (they get no center index on this code base: seen, not claimed)',
                'N beyond the bound', "metric='rmsd' on md.Trajectory"],
}


def jobs(tier):
    J = []

    def add(name, **kw):
        J.append(dict(module='harness.cluster', func='kcenters_job', name='kc[%s]' % name, kwargs=kw,
                      sig_prefix='kcenters', deadline_s=240 if tier == 'quick' else 1500))
    Ns = [2, 3, 4, 5] if tier == 'quick' else [2, 3, 4, 5, 6, 7]
    kmax = 3 if tier == 'quick' else 4
    for N in Ns:
        for k in range(1, min(kmax, N + 1) + 1):
            ap = N <= (5 if tier == 'quick' else 6)
            add('N=%d,n,k=%d' % (N, k), N=N, mode='n', k=k, approx=ap)
            if N <= (4 if tier == 'quick' else 6):
                add('N=%d,both,k=%d,shortcut' % (N, k), N=N, mode='both', k=k, shortcut='compare')
            else:
                add('N=%d,both,k=%d' % (N, k), N=N, mode='both', k=k)
        add('N=%d,n,k=N+1' % N, N=N, mode='n', k=N + 1)
        add('N=%d,r' % N, N=N, mode='r', approx=N <= 4)
        if N <= 4:
            add('N=%d,n-None,k=2' % N, N=N, mode='n-None', k=2)
            add('N=%d,r-None' % N, N=N, mode='r-None')
            add('N=%d,estimator,both,k=2' % N, N=N, mode='both', k=2, entry='estimator')
            add('N=%d,estimator,n,k=N+2' % N, N=N, mode='n', k=N + 2, entry='estimator')
            add('N=%d,n-None,k=N+1' % N, N=N, mode='n-None', k=N + 1)
        wmax = 2 if tier == 'quick' else 3
        for w in range(1, min(wmax, N) + 1):
            if N <= (4 if tier == 'quick' else 5):
                add('N=%d,r,warm=%d' % (N, w), N=N, mode='r', warm=w)
                add('N=%d,both,k=%d,warm=%d' % (N, min(N, w + 1), w), N=N, mode='both', k=min(N, w + 1), warm=w)
                add('N=%d,n,k=%d,warm=%d(enough centers)' % (N, w, w), N=N, mode='n', k=w, warm=w)
                # initial centers that are NOT frames of the data set
                add('N=%d,r,warm=%d,off-data init' % (N, w), N=N, mode='r', warm=w, warm_outside=True, props=('C02',))
                add('N=%d,both,k=%d,warm=%d,off-data init' % (N, w + 2, w), N=N, mode='both', k=w + 2, warm=w, warm_outside=True, props=('C02',))
                if N <= 3 or tier != 'quick':
                    add('N=%d,both,k=%d,warm=%d,off-data init,shortcut' % (N, w + 1, w), N=N, mode='both', k=w + 1, warm=w, warm_outside=True,
                        props=('C02',), shortcut='compare')
    # INTERPRETED data (points on a line, metric |x - y| computed on the values): exposes the element types of the frames
    # (int64 / float64) and of off-data initial centers (float64) to the code under test
    for N in ((3, 4) if tier == 'quick' else (3, 4, 5)):
        for dt in ('int', 'float'):
            add('N=%d,both,k=3,%s frames on a line' % (N, dt), N=N, mode='both', k=3, data=dt, props=('C01', 'C02'))
            add('N=%d,both,k=3,warm=1,%s frames on a line,float off-data init,shortcut' % (N, dt), N=N, mode='both', k=3, warm=1,
                warm_outside=True, data=dt, props=('C02',), shortcut='compare')
            if N <= 3 or tier != 'quick':
                add('N=%d,both,k=4,warm=2,%s frames on a line,float off-data init,shortcut' % (N, dt), N=N, mode='both', k=4, warm=2,
                    warm_outside=True, data=dt, props=('C02',), shortcut='compare')
    return J
