"""Shared jobs for C07 (committors, MFPTs) and C08 (reactive flux)."""
import itertools
import math

import numpy as np
import z3

from symnp import core, loader, funcs, stubs
from symnp.core import SVal, SFloat, ite, sand, sor, snot
from symnp.arr import SArr, _raw
from harness.common import PathOut, ev
from harness.cluster import conj, cells, run_oracle


def preload():
    loader.load('enspara.msm.transition_matrices')
    loader.load('enspara.tpt.core')
    loader.load('enspara.tpt.tpt')


def sym_stochastic(ctx, n, zero_pattern=None, positive=True, reversible=False):
    """row-stochastic T (list of lists of SFloat/0.0), optionally with stationary pi in detailed balance"""
    T = [[None] * n for _ in range(n)]
    for i in range(n):
        for j in range(n):
            if zero_pattern is not None and not zero_pattern[i][j]:
                T[i][j] = 0.0
                continue
            t = core.fresh_real('t')
            ctx.add(core.to_z3_real(t) > 0 if (positive or zero_pattern is not None) else core.to_z3_real(t) >= 0)
            T[i][j] = t
    for i in range(n):
        s = sum(T[i][1:], T[i][0])
        ctx.add(core.to_z3_bool(s == 1))
    pi = None
    if reversible is not None:
        pi = [core.fresh_real('pi') for _ in range(n)]
        for p in pi:
            ctx.add(core.to_z3_real(p) > 0)
        ctx.add(core.to_z3_bool(sum(pi[1:], pi[0]) == 1))
        if reversible:
            for i in range(n):
                for j in range(i + 1, n):
                    ctx.add(core.to_z3_bool(pi[i] * T[i][j] == pi[j] * T[j][i]))
        else:
            for j in range(n):
                ctx.add(core.to_z3_bool(sum([pi[i] * T[i][j] for i in range(1, n)], pi[0] * T[0][j]) == pi[j]))
    return T, pi


def reachable_pattern(zp, n):
    r = [[bool(zp[i][j]) or i == j for j in range(n)] for i in range(n)]
    for k in range(n):
        for i in range(n):
            for j in range(n):
                r[i][j] = r[i][j] or (r[i][k] and r[k][j])
    return all(all(row) for row in r)


def first_step_committor(n, T, q, sources, sinks):
    obs = [('zero-on-sources', conj([q[i] == 0 for i in sources])),
           ('one-on-sinks', conj([q[i] == 1 for i in sinks]))]
    mid = [i for i in range(n) if i not in sources and i not in sinks]
    obs.append(('transition-weighted-average-elsewhere',
                conj([q[i] == sum([T[i][j] * q[j] for j in range(1, n)], T[i][0] * q[0]) for i in mid])))
    obs.append(('within-[0,1]', conj([(q[i] >= 0) & (q[i] <= 1) for i in range(n)])))
    return obs


def first_step_mfpt(n, T, m, sinks, lag):
    obs = [('zero-on-sinks', conj([m[i] == 0 for i in sinks]))]
    oth = [i for i in range(n) if i not in sinks]
    obs.append(('one-lag-plus-weighted-average-elsewhere',
                conj([m[i] == lag + sum([T[i][j] * m[j] for j in range(1, n)], T[i][0] * m[0]) for i in oth])))
    return obs


def first_step_mfpt_margin(n, T, m, sinks, lag):
    """clear-cut region of a violated first-step equation (tried first when looking for a refuting model, so that the replay is
    not lost in its float tolerance): some equation is off by more than 1% of a lag time"""
    oth = [i for i in range(n) if i not in sinks]
    alts = []
    for i in oth:
        rhs = lag + sum([T[i][j] * m[j] for j in range(1, n)], T[i][0] * m[0])
        alts += [m[i] - rhs > lag / 100, rhs - m[i] > lag / 100]
    return sor(*alts) if alts else None


def fl(x):
    return float(x)


def model_matrix(model, T):
    return [[fl(ev(model, x)) if isinstance(x, SVal) else float(x) for x in row] for row in T]


def approx_oracle(obs_fn, tol=1e-7):
    """concrete evaluation with a tolerance: equalities a == b are judged as |a-b| <= tol"""
    raise NotImplementedError


class Tol:
    """float wrapper whose == / <= / >= are tolerant (for judging real outputs of the real code)"""
    __slots__ = ('v',)
    TOL = 1e-7

    def __init__(self, v):
        self.v = float(v.v if isinstance(v, Tol) else v)

    def _o(self, o):
        return o.v if isinstance(o, Tol) else float(o)

    def _t(self, o):
        return self.TOL * max(1.0, abs(self.v), abs(self._o(o)))

    def __add__(self, o): return Tol(self.v + self._o(o))
    __radd__ = __add__
    def __sub__(self, o): return Tol(self.v - self._o(o))
    def __rsub__(self, o): return Tol(self._o(o) - self.v)
    def __mul__(self, o): return Tol(self.v * self._o(o))
    __rmul__ = __mul__
    def __truediv__(self, o): return Tol(self.v / self._o(o))
    def __rtruediv__(self, o): return Tol(self._o(o) / self.v)
    def __neg__(self): return Tol(-self.v)
    def __eq__(self, o):
        ov = self._o(o)
        if self.v != self.v or ov != ov:
            return (self.v != self.v) and (ov != ov)     # NaN matches NaN only
        if self.v in (float('inf'), float('-inf')) or ov in (float('inf'), float('-inf')):
            return self.v == ov
        return abs(self.v - ov) <= self._t(o)
    def __ne__(self, o): return not self.__eq__(o)
    def __le__(self, o): return self.v <= self._o(o) + self._t(o)
    def __ge__(self, o): return self.v >= self._o(o) - self._t(o)
    def __lt__(self, o): return self.v < self._o(o) - self._t(o)
    def __gt__(self, o): return self.v > self._o(o) + self._t(o)
    __hash__ = None


def tolm(M):
    return [[Tol(x) for x in row] for row in M]


def tolv(v):
    return [Tol(x) for x in v]


def nonsingular_note(ctx):
    pass


def lay(A, layout):
    """the same matrix in another memory layout: 'F' column-major (what a transposed / time-reversed chain is), 'view' a
    non-contiguous window of a larger buffer"""
    if layout == 'F':
        return A.T.copy().T
    if layout == 'view':
        n, m = A.shape
        if isinstance(A, SArr):
            big = funcs.np_zeros((n, 2 * m), dtype=float)
        else:
            big = np.zeros((n, 2 * m), dtype=float)
        big[:, ::2] = A
        return big[:, ::2]
    return A


def as_container(A, container):
    """the matrix in a scipy.sparse container: symbolic shadow for SArr input, the real scipy class otherwise"""
    if container is None:
        return A
    if isinstance(A, SArr):
        from symnp import sparse as ssp
        return ssp.CLASSES[container](A)
    import scipy.sparse
    return getattr(scipy.sparse, container + '_matrix')(A)


def unchanged(arg, A0):
    """caller's matrix (dense or sparse shadow) still holds the cells of A0"""
    if isinstance(arg, SArr):
        return conj([x == y for x, y in zip(arg.cells(), A0.cells())])
    return conj([x == y for x, y in zip(arg.toarray().cells(), A0.cells())])


def dn(x):
    return np.asarray(x.toarray() if hasattr(x, 'toarray') else x)


def committor_job(n, sources, sinks, zero_pattern=None, reversible=None, layout='C', container=None):
    tc = loader.load('enspara.tpt.core')

    def path(ctx):
        T, pi = sym_stochastic(ctx, n, zero_pattern, reversible=reversible)
        A = lay(funcs.np_array(T, dtype=float), layout)
        A0 = A.copy()
        arg = as_container(A, container)
        exc = None
        try:
            q = tc.committors(arg, list(sources), list(sinks))
            ql = cells(q)
            shape_ok = tuple(q.shape) == (n,)
        except Exception as e:
            exc = e

        def witness(model):
            Tc = model_matrix(model, T)
            out = {'inputs': {'tprob': Tc, 'sources': list(sources), 'sinks': list(sinks), 'memory_layout': layout,
                              'container': container or 'ndarray'}}
            Ac = as_container(lay(np.array(Tc), layout), container)
            with core.concrete_mode():
                try:
                    qc = tc.committors(Ac, list(sources), list(sinks))
                except Exception as e:
                    out.update(exception=repr(e), out=None, violated=['raises ' + type(e).__name__],
                               signature='exception:' + type(e).__name__)
                    return out
            out['out'] = {'committors': [float(x) for x in np.asarray(qc).reshape(-1)]}
            bad = run_oracle(first_step_committor(n, tolm(Tc), tolv(np.asarray(qc).reshape(-1)), sources, sinks))
            if np.shape(qc) != (n,):
                bad.append('committors-not-a-vector-of-length-n')
            if dn(Ac).tolist() != Tc:
                bad.append('transition-matrix-modified')
            out['violated'] = bad
            return out
        if exc is not None:
            return PathOut([('no-exception', False)], {}, witness, exc=type(exc).__name__,
                           desc='raises %s: %s' % (type(exc).__name__, str(exc)[:100]))
        obs = first_step_committor(n, T, ql, sources, sinks)
        obs.append(('committors-are-a-vector-of-length-n', shape_ok))
        obs.append(('transition-matrix-unmodified', unchanged(arg, A0)))
        return PathOut(obs, {'committors': q}, witness, desc='committors n=%d %s->%s %s' % (n, sources, sinks, container or ''))
    return path


def mfpt_job(n, sinks=None, zero_pattern=None, given_pops=True, layout='C', container=None, reuse=False):
    tc = loader.load('enspara.tpt.core')

    def path(ctx):
        T, pi = sym_stochastic(ctx, n, zero_pattern, reversible=False)
        lag = core.fresh_real('lag')
        ctx.add(core.to_z3_real(lag) > 0)
        if not given_pops:
            # populations=None: mfpts computes them itself (eigen-decomposition = Perron contract of the eig stub)
            from symnp import stubs as _st
            _st.EIG_CONTRACT[0] = _st.perron_contract
        if reuse:
            # history: the SAME array object held another chain before and was analysed with the same arguments; it is then overwritten
            # in place.  The times must describe the current contents (no state carried between calls)
            T_old, pi_old = sym_stochastic(ctx, n, zero_pattern, reversible=False)
            A = lay(funcs.np_array(T_old, dtype=float), layout)
            P_old = funcs.np_array(pi_old, dtype=float) if (pi_old is not None and given_pops) else None
            if sinks is None:
                tc.mfpts(A, populations=P_old, lagtime=lag)
            else:
                tc.mfpts(A, sinks=list(sinks), populations=P_old, lagtime=lag)
            A[...] = funcs.np_array(T, dtype=float)
        else:
            A = lay(funcs.np_array(T, dtype=float), layout)
        A0 = A.copy()
        arg = as_container(A, container)
        P = funcs.np_array(pi, dtype=float) if pi is not None else None
        if not given_pops:
            P = None
        exc = None
        try:
            if sinks is None:
                M = tc.mfpts(arg, populations=P, lagtime=lag)
                M = M.toarray() if hasattr(M, 'toarray') else M
                Ml = [[_raw(M)[i, j] for j in range(n)] for i in range(n)]
            else:
                m = tc.mfpts(arg, sinks=list(sinks), populations=P, lagtime=lag)
                ml = cells(m)
        except Exception as e:
            exc = e

        def oracle(T_, lag_, res):
            if sinks is not None:
                return first_step_mfpt(n, T_, res, sinks, lag_)
            obs = []
            for j in range(n):
                col = [res[i][j] for i in range(n)]
                for lab, c in first_step_mfpt(n, T_, col, [j], lag_):
                    obs.append(('all-pairs column %d = single sink {%d}: %s' % (j, j, lab), c))
            return obs

        def witness(model):
            Tc = model_matrix(model, T)
            lc = fl(ev(model, lag))
            out = {'inputs': {'tprob': Tc, 'sinks': list(sinks) if sinks is not None else None, 'lagtime': lc, 'memory_layout': layout,
                              'container': container or 'ndarray'}}
            Ac = as_container(lay(np.array(Tc), layout), container)
            pc = np.array([fl(ev(model, p)) for p in pi]) if (pi is not None and given_pops) else None
            if pc is not None:
                out['inputs']['populations'] = pc.tolist()
            if reuse:
                To = model_matrix(model, T_old)
                po_ = np.array([fl(ev(model, p)) for p in pi_old]) if (pi_old is not None and given_pops) else None
                out['inputs']['earlier contents of the same array (analysed first, then overwritten in place)'] = {
                    'tprob': To, 'populations': po_.tolist() if po_ is not None else None}
                Ac = lay(np.array(To), layout)
                with core.concrete_mode():
                    try:
                        if sinks is None:
                            tc.mfpts(Ac, populations=po_, lagtime=lc)
                        else:
                            tc.mfpts(Ac, sinks=list(sinks), populations=po_, lagtime=lc)
                    except Exception as e:
                        out.update(exception=repr(e), out=None, violated=['raises ' + type(e).__name__], signature='exception:' + type(e).__name__)
                        return out
                Ac[...] = np.array(Tc)
            with core.concrete_mode():
                try:
                    if sinks is None:
                        r = dn(tc.mfpts(Ac, populations=pc, lagtime=lc))
                        res = tolm(r.tolist())
                        out['out'] = {'mfpts': r.tolist()}
                    else:
                        r = np.asarray(tc.mfpts(Ac, sinks=list(sinks), populations=pc, lagtime=lc)).reshape(-1)
                        res = tolv(r)
                        out['out'] = {'mfpts': [float(x) for x in r]}
                except Exception as e:
                    out.update(exception=repr(e), out=None, violated=['raises ' + type(e).__name__],
                               signature='exception:' + type(e).__name__)
                    return out
            bad = run_oracle(oracle(tolm(Tc), Tol(lc), res))
            if sinks is None:
                # the clause itself, on the real code: every column of the table equals the single-sink computation (the first-step
                # residual alone is ill-conditioned for rarely visited targets: times of 1e8 lag times hide an error of a few)
                with core.concrete_mode():
                    for j in range(n):
                        try:
                            col = np.asarray(tc.mfpts(Ac, sinks=[j], populations=pc, lagtime=lc)).reshape(-1)
                        except Exception:
                            continue
                        if not np.allclose(r[:, j], col, rtol=1e-6, atol=1e-9 * max(1.0, abs(lc))):
                            bad.append('all-pairs column %d = single sink {%d}: one-lag-plus-weighted-average-elsewhere' % (j, j))
                bad = sorted(set(bad))
            if dn(Ac).tolist() != Tc:
                bad.append('transition-matrix-modified')
            out['violated'] = bad
            return out
        if exc is not None:
            return PathOut([('no-exception', False)], {}, witness, exc=type(exc).__name__,
                           desc='raises %s: %s' % (type(exc).__name__, str(exc)[:100]))
        obs = oracle(T, lag, Ml if sinks is None else ml)
        obs.append(('transition-matrix-unmodified', unchanged(arg, A0)))
        po = PathOut(obs, {'mfpts': M if sinks is None else m}, witness, desc='mfpts n=%d sinks=%s %s' % (n, sinks, container or ''))
        hints = {}
        if sinks is None:
            for j in range(n):
                h = first_step_mfpt_margin(n, T, [Ml[i][j] for i in range(n)], [j], lag)
                if h is not None:
                    hints['all-pairs column %d = single sink {%d}: one-lag-plus-weighted-average-elsewhere' % (j, j)] = h
        else:
            h = first_step_mfpt_margin(n, T, ml, sinks, lag)
            if h is not None:
                hints['one-lag-plus-weighted-average-elsewhere'] = h
        po.refute_hints = hints
        return po
    return path


# ---- C08 ------------------------------------------------------------------------------------------

def flux_oracle(n, T, pi, q, F, NF, RP, sources, sinks):
    obs = []
    obs.append(('flux-definition-off-diagonal-zero-on-diagonal',
                conj([F[i][j] == (pi[i] * (1 - q[i]) * T[i][j] * q[j] if i != j else 0) for i in range(n) for j in range(n)])))
    pos = []
    for i in range(n):
        for j in range(n):
            d = F[i][j] - F[j][i]
            pos.append(NF[i][j] == ite(d > 0, d, 0) if isinstance(d, SVal) else NF[i][j] == (d if d > 0 else 0))
    obs.append(('net-flux-is-positive-part-of-flux-minus-transpose', conj(pos)))
    obs.append(('at-most-one-direction-carries-net-flux', conj([(NF[i][j] == 0) | (NF[j][i] == 0)
                                                                 for i in range(n) for j in range(i, n)])))
    mid = [i for i in range(n) if i not in sources and i not in sinks]

    def rs(i): return sum([NF[i][j] for j in range(1, n)], NF[i][0])

    def cs(i): return sum([NF[j][i] for j in range(1, n)], NF[0][i])
    obs.append(('net-flux-conserved-at-intermediates', conj([rs(i) == cs(i) for i in mid])))
    obs.append(('nothing-flows-into-sources', conj([cs(i) == 0 for i in sources])))
    obs.append(('nothing-flows-out-of-sinks', conj([rs(i) == 0 for i in sinks])))
    out_src = sum([rs(i) for i in sources[1:]], rs(sources[0]))
    in_snk = sum([cs(i) for i in sinks[1:]], cs(sinks[0]))
    obs.append(('source-outflow-equals-sink-inflow', out_src == in_snk))
    if RP is not None and mid:
        # the reactive density pi_i q+_i q-_i can vanish on EVERY state although intermediates exist (each intermediate
        # touches only the source side or only the sink side): then no probability vector can vanish on sources and sinks,
        # the normalisation is 0/0 and the clause is unsatisfiable for any implementation - it applies when the total
        # density is positive
        dens = [pi[i] * q[i] * (1 - q[i]) for i in mid]
        total = sum(dens[1:], dens[0])
        symbolic = isinstance(RP[0], SVal) or isinstance(total, SVal)
        if symbolic:
            guard = total > 0
            c1 = conj([x >= 0 for x in RP]) & (sum(RP[1:], RP[0]) == 1)
            c2 = conj([RP[i] == 0 for i in list(sources) + list(sinks)])
            obs.append(('reactive-populations-nonnegative-sum-to-one', sor(snot(guard), c1)))
            obs.append(('reactive-populations-vanish-on-sources-and-sinks', sor(snot(guard), c2)))
        elif (total.v if isinstance(total, Tol) else total) > 1e-9:
            obs.append(('reactive-populations-nonnegative-sum-to-one', all(x >= 0 for x in RP) and sum(RP[1:], RP[0]) == 1))
            obs.append(('reactive-populations-vanish-on-sources-and-sinks', conj([RP[i] == 0 for i in list(sources) + list(sinks)])))
    return obs


def flux_job(n, sources, sinks, zero_pattern=None, container=None, layout='C', reuse=False):
    tc = loader.load('enspara.tpt.core')
    tt = loader.load('enspara.tpt.tpt')

    def path(ctx):
        T, pi = sym_stochastic(ctx, n, zero_pattern, reversible=True)
        if reuse:
            # history: the SAME array objects held another model before and were analysed with the same sources / sinks; they are then
            # overwritten in place.  The results must describe the current contents (no state carried between calls)
            T_old, pi_old = sym_stochastic(ctx, n, zero_pattern, reversible=True)
            A = lay(funcs.np_array(T_old, dtype=float), layout)
            P = funcs.np_array(pi_old, dtype=float)
            tt.reactive_fluxes(A, list(sources), list(sinks), populations=P)
            tt.net_fluxes(A, list(sources), list(sinks), populations=P)
            tt.reactive_populations(A, list(sources), list(sinks), populations=P)
            A[...] = funcs.np_array(T, dtype=float)
            P[...] = funcs.np_array(pi, dtype=float)
        else:
            A = lay(funcs.np_array(T, dtype=float), layout)
            P = funcs.np_array(pi, dtype=float)
        A0, P0 = A.copy(), P.copy()
        arg = as_container(A, container)
        exc = None
        try:
            q = tc.committors(arg, list(sources), list(sinks))
            F = tt.reactive_fluxes(arg, list(sources), list(sinks), populations=P)
            NF = tt.net_fluxes(arg, list(sources), list(sinks), populations=P)
            RP = tt.reactive_populations(arg, list(sources), list(sinks), populations=P)
            Fd = F.toarray() if hasattr(F, 'toarray') else F
            NFd = NF.toarray() if hasattr(NF, 'toarray') else NF
            Fl = [[_raw(Fd)[i, j] for j in range(n)] for i in range(n)]
            NFl = [[_raw(NFd)[i, j] for j in range(n)] for i in range(n)]
            sparse_ok = container is None or (hasattr(F, 'toarray') and hasattr(NF, 'toarray'))
        except Exception as e:
            if __import__('os').environ.get('VERIF_DEBUG'):
                import traceback
                traceback.print_exc()
            exc = e

        def witness(model):
            Tc = model_matrix(model, T)
            pc = [fl(ev(model, p)) for p in pi]
            out = {'inputs': {'tprob': Tc, 'populations': pc, 'sources': list(sources), 'sinks': list(sinks), 'container': container or 'ndarray',
                              'memory_layout': layout}}
            Ac, Pc = as_container(lay(np.array(Tc), layout), container), np.array(pc)
            if reuse:
                To, po = model_matrix(model, T_old), [fl(ev(model, p)) for p in pi_old]
                out['inputs']['earlier contents of the same arrays (analysed first, then overwritten in place)'] = {'tprob': To, 'populations': po}
                Ac, Pc = lay(np.array(To), layout), np.array(po)
                with core.concrete_mode():
                    try:
                        tt.reactive_fluxes(Ac, list(sources), list(sinks), populations=Pc)
                        tt.net_fluxes(Ac, list(sources), list(sinks), populations=Pc)
                        tt.reactive_populations(Ac, list(sources), list(sinks), populations=Pc)
                    except Exception as e:
                        out.update(exception=repr(e), out=None, violated=['raises ' + type(e).__name__], signature='exception:' + type(e).__name__)
                        return out
                Ac[...] = np.array(Tc)
                Pc[...] = np.array(pc)
            with core.concrete_mode():
                try:
                    qc = tc.committors(Ac, list(sources), list(sinks))
                    Fc = tt.reactive_fluxes(Ac, list(sources), list(sinks), populations=Pc)
                    NFc = tt.net_fluxes(Ac, list(sources), list(sinks), populations=Pc)
                    RPc = tt.reactive_populations(Ac, list(sources), list(sinks), populations=Pc)
                except Exception as e:
                    out.update(exception=repr(e), out=None, violated=['raises ' + type(e).__name__],
                               signature='exception:' + type(e).__name__)
                    return out
            sp_ok = container is None or (hasattr(Fc, 'toarray') and hasattr(NFc, 'toarray'))
            Fc, NFc, qc, RPc = dn(Fc), dn(NFc), np.asarray(qc).reshape(-1), np.asarray(RPc).reshape(-1)
            out['out'] = {'fluxes': Fc.tolist(), 'net_fluxes': NFc.tolist(), 'reactive_populations': RPc.tolist()}
            Tol.TOL = 1e-7
            bad = run_oracle(flux_oracle(n, tolm(Tc), tolv(pc), tolv(qc), tolm(Fc.tolist()), tolm(NFc.tolist()),
                                         tolv(RPc), list(sources), list(sinks)))
            # the net-flux clause is also judged EXACTLY on the real outputs: the library forms it from its own flux matrix with one float
            # subtraction per cell, so positive-part(F - F^T) of the returned F is bit-identical to the returned net flux (a tolerance would
            # hide an absolute cut-off applied to small fluxes)
            if 'net-flux-is-positive-part-of-flux-minus-transpose' not in bad and not np.array_equal(NFc, np.maximum(Fc - Fc.T, 0)):
                bad.append('net-flux-is-positive-part-of-flux-minus-transpose')
            if not sp_ok:
                bad.append('sparse-input-gives-dense-flux-matrix')
            if dn(Ac).tolist() != Tc or Pc.tolist() != pc:
                bad.append('inputs-modified')
            out['violated'] = bad
            return out
        if exc is not None:
            return PathOut([('no-exception', False)], {}, witness, exc=type(exc).__name__,
                           desc='raises %s: %s' % (type(exc).__name__, str(exc)[:100]))
        obs = flux_oracle(n, T, pi, cells(q), Fl, NFl, cells(RP), list(sources), list(sinks))
        obs.append(('inputs-unmodified', unchanged(arg, A0) & conj([x == y for x, y in zip(P.cells(), P0.cells())])))
        obs.append(('sparse-input-gives-sparse-flux-matrices', sparse_ok))
        return PathOut(obs, {'fluxes': Fd, 'net_fluxes': NFd, 'reactive_populations': RP}, witness,
                       desc='fluxes n=%d %s->%s %s' % (n, sources, sinks, container or ''))
    return path


def source_sink_sets(n, maxsize=2):
    out = []
    nodes = range(n)
    for a in range(1, maxsize + 1):
        for S in itertools.combinations(nodes, a):
            rest = [v for v in nodes if v not in S]
            for b in range(1, maxsize + 1):
                for K in itertools.combinations(rest, b):
                    out.append((list(S), list(K)))
    return out
