"""C03  Transition counts equal the exact number of lagged state pairs."""
import itertools

import numpy as np

from symnp import core, loader, funcs
from symnp.core import SVal, ite, sand
from symnp.arr import SArr, _raw
from harness.common import PathOut, ev
from harness.cluster import conj, cells, run_oracle

META = {
    'files': ['enspara/msm/transition_matrices.py', 'enspara/ra/ra.py'],
    'functions': ['enspara.msm.transition_matrices.assigns_to_counts', 'enspara.msm.transition_matrices._transitions_helper',
                  'enspara.ra.ra.RaggedArray (construction, row iteration, shape)'],
    'bounds': {'quick': '<=3 trajectories, each length 1..4 (all length vectors), lag 1..5, <=3 states, sliding window on/off, '
                        'ragged / padded-rectangular input, explicit or inferred state count; state ids symbolic; 3 trajectories of 70..120 frames with 2 symbolic '
                        'frames each (pair counts beyond 8 bits); int8 state ids with 12 states',
               'thorough': '<=3 trajectories of length 1..7 (lag 1..8) and 4 trajectories of length 1..3; 4 states up to 7 frames, 3 up to 10, 2 beyond'},
    'stubs': ['scipy.sparse.coo_matrix((data,(i,j)),shape) = SymCOO: duplicates summed, out-of-range indices rejected'],
    'assumptions': ['state ids in [0, n_states) (interior -1 entries are outside the property)',
                    'additivity over trajectory sets and invariance under reordering follow from the per-trajectory sum '
                    'formula every input form is proved equal to'],
    'outside': ["scipy's COO implementation itself", 'interior (non-trailing) -1 entries'],
}


def preload():
    loader.load('enspara.msm.transition_matrices')
    loader.load('enspara.ra.ra')


def oracle_counts(dense, trajs, lag, S, sliding):
    obs = [('square-with-requested-or-observed-number-of-states', len(dense) == S and all(len(r) == S for r in dense))]
    if not obs[0][1]:
        return obs
    conds = []
    total = 0
    for i in range(S):
        for j in range(S):
            acc = 0
            for tr in trajs:
                ts = range(0, len(tr) - lag) if sliding else range(0, len(tr) - lag, lag)
                for t in ts:
                    acc = acc + ite(sand(tr[t] == i, tr[t + lag] == j), 1, 0)
            conds.append(dense[i][j] == acc)
            total = total + dense[i][j]
    obs.append(('entry-ij-is-the-number-of-lagged-pairs-within-one-trajectory', conj(conds)))
    if sliding and S <= 6:        # (implied by the cell-wise clause; stated separately only where the solver can add S*S cells)
        obs.append(('total-is-sum-of-max(0,len-lag)', total == sum(max(0, len(tr) - lag) for tr in trajs)))
    return obs


def counts_job(lengths, lag, S, sliding=True, form='ragged', explicit=True, order=None, dtype='int64', nsym=None):
    # dtype: element type of the state assignments (narrow integer types are common for state ids)
    # nsym: long trajectories - only nsym evenly spaced frames per trajectory are symbolic, the others are state 0 (the count of
    #       the pair (0, 0) then exceeds every narrow integer range although no single trajectory is long)
    dt = np.dtype(dtype)
    tm = loader.load('enspara.msm.transition_matrices')
    ra = loader.load('enspara.ra.ra')
    lengths = list(lengths)

    def build(vals_rows, concrete):
        rows = vals_rows
        if form == 'ragged':
            if concrete:
                return ra.RaggedArray([np.array(r, dtype=dt) for r in rows])
            return ra.RaggedArray([funcs.np_array(r, dtype=dt) for r in rows])
        L = max(lengths)
        padded = [list(r) + [-1] * (L - len(r)) for r in rows]
        return np.array(padded, dtype=dt) if concrete else funcs.np_array(padded, dtype=dt)

    def path(ctx):
        if nsym:
            trajs = [[(core.fresh_int('s', 0, S - 1) if (t % max(1, n // nsym) == 0 and t // max(1, n // nsym) < nsym) else 0)
                      for t in range(n)] for n in lengths]
        else:
            trajs = [[core.fresh_int('s', 0, S - 1) for _ in range(n)] for n in lengths]
        if not explicit:
            # inferred number of states = largest id + 1: make state S-1 occur so that the oracle size is S
            flat = [x for tr in trajs for x in tr]
            ctx.add(core.to_z3_bool(core.sor(*[x == S - 1 for x in flat])))
        A = build(trajs, False)
        exc = None
        try:
            C = tm.assigns_to_counts(A, lag_time=lag, max_n_states=S if explicit else None, sliding_window=sliding)
            dense = C.toarray()
            dl = [[_raw(dense)[i, j] for j in range(dense.shape[1])] for i in range(dense.shape[0])]
        except Exception as e:
            exc = e

        def witness(model):
            cv = [[int(ev(model, x)) if isinstance(x, SVal) else int(x) for x in tr] for tr in trajs]
            out = {'inputs': {'trajectories': cv if not nsym else [tr[:8] + ['...'] for tr in cv], 'lengths': lengths, 'lag': lag, 'max_n_states': S if explicit else None,
                              'sliding_window': sliding, 'form': form, 'element_type': str(dt)}}
            with core.concrete_mode():
                try:
                    Cc = tm.assigns_to_counts(build(cv, True), lag_time=lag, max_n_states=S if explicit else None,
                                              sliding_window=sliding)
                    dc = np.asarray(Cc.toarray()).tolist()
                except Exception as e:
                    out.update(exception=repr(e), out=None, violated=['raises ' + type(e).__name__],
                               signature='exception:' + type(e).__name__)
                    return out
            out['out'] = dc
            out['violated'] = run_oracle(oracle_counts(dc, cv, lag, S, sliding))
            return out
        if exc is not None:
            return PathOut([('no-exception', False)], {}, witness, exc=type(exc).__name__,
                           desc='raises %s: %s' % (type(exc).__name__, str(exc)[:80]))
        return PathOut(oracle_counts(dl, trajs, lag, S, sliding), dl, witness,
                       desc='counts lengths=%s lag=%d' % (lengths, lag))
    return path


def jobs(tier):
    J = []
    q = tier == 'quick'
    Lmax = 4 if q else 7
    Smax = 3 if q else 4

    def add(name, **kw):
        J.append(dict(module='harness.C03', func='counts_job', name='counts[%s]' % name, kwargs=kw,
                      sig_prefix='assigns_to_counts', deadline_s=250 if q else 1500))
    vecs = []
    for nt in ((1, 2, 3) if q else (1, 2, 3, 4)):
        if nt == 4:
            vecs += [v for v in itertools.product(range(1, 4), repeat=4)]
            continue
        for v in itertools.product(range(1, Lmax + 1), repeat=nt):
            vecs.append(v)
    # every length vector up to reordering for the big sweep, plus all orderings for a few
    seen = set()
    for v in vecs:
        key = tuple(sorted(v))
        full = (v[0] != key[0]) and len(v) <= 2
        if key in seen and not full:
            continue
        seen.add(key)
        for lag in range(1, max(v) + 2):
            if q and len(v) == 3 and (lag > 2 or max(v) > 3):
                continue
            S = (2 if sum(v) > 7 else Smax) if q else (2 if sum(v) > 10 else 3 if sum(v) > 7 else Smax)
            for sliding in (True, False):
                if not sliding and lag == 1:
                    continue
                add('%s,lag=%d,S=%d,%s,ragged' % (list(v), lag, S, 'slide' if sliding else 'stride'),
                    lengths=v, lag=lag, S=S, sliding=sliding, form='ragged')
                add('%s,lag=%d,S=%d,%s,padded' % (list(v), lag, S, 'slide' if sliding else 'stride'),
                    lengths=v, lag=lag, S=S, sliding=sliding, form='padded')
            if sum(v) <= 5:
                add('%s,lag=%d,S=%d,inferred' % (list(v), lag, min(S, 2)), lengths=v, lag=lag, S=2, explicit=False,
                    form='padded')
    # narrow element types with enough states that start*n_states+end does not fit them (int8: 12 states): counts must not
    # depend on the element type of the assignments
    for form_ in ('ragged', 'padded'):
        add('[2, 3],lag=1,S=12,int8,%s' % form_, lengths=(2, 3), lag=1, S=12, sliding=True, form=form_, dtype='int8')
    add('[3],lag=1,S=12,int8,ragged', lengths=(3,), lag=1, S=12, sliding=True, form='ragged', dtype='int8')
    # many frames, few of them symbolic: one pair occurs more often than any 8-bit (and, thorough: 16-bit) integer can hold although
    # every single trajectory is short - the count table must not be accumulated in a type sized by one trajectory
    add('[100, 100, 100],lag=1,S=2,2 symbolic frames each,padded', lengths=(100, 100, 100), lag=1, S=2, sliding=True, form='padded', nsym=2)
    add('[120, 90, 70],lag=2,S=2,2 symbolic frames each,ragged', lengths=(120, 90, 70), lag=2, S=2, sliding=True, form='ragged', nsym=2)
    if not q:
        add('[30000, 30000, 9000],lag=1,S=2,1 symbolic frame each,padded', lengths=(30000, 30000, 9000), lag=1, S=2, sliding=True, form='padded', nsym=1)
    return J
