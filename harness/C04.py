"""C04  Every builder returns a valid, stationary and (where promised) reversible model."""
import itertools

import os

import numpy as np
import z3

from symnp import core, loader, funcs, stubs
from symnp.core import SVal, ite, sand, sor, snot
from symnp.arr import SArr, _raw
from harness.common import PathOut, ev
from harness.cluster import conj, cells, run_oracle
from harness.tptjobs import Tol, tolm, tolv

META = {
    'files': ['enspara/msm/builders.py', 'enspara/msm/transition_matrices.py'],
    'functions': ['enspara.msm.builders.normalize', 'enspara.msm.builders.transpose', 'enspara.msm.builders._row_normalize',
                  'enspara.msm.builders._apply_prior_counts', 'enspara.msm.builders._prinz_mle_py (bounded sweeps + final '
                  'normalisation)', 'enspara.msm.transition_matrices.eq_probs / eigenspectrum (selection + normalisation code)'],
    'bounds': {'quick': 'dense ndarray counts, n<=3, real non-negative symbolic entries, rows with positive sum (zero rows '
                        'allowed for the row-normalisation clause), symbolic prior counts >= 0; MLE: max_iter=1 sweep at n=2; '
                        'normalize/transpose on each of the 7 scipy.sparse containers with integer and float counts, n=2 full and '
                        'n=3 tridiagonal, with/without populations, with prior counts',
               'thorough': 'n<=4 for normalize/transpose; MLE one sweep n<=3, two sweeps n=2'},
    'stubs': ['scipy.linalg.eig = Perron contract (one eigenvalue 1 with eigenvector c*pi, arbitrary order/scale, others '
              'arbitrary with smaller real part)', 'sqrt = r>=0 & r*r=x; log uninterpreted', 'scipy.sparse classes = symbolic shadow symnp/sparse.py (result formats, element types, copy/share rules of the operations used; np.matrix results as 2-D arrays; stored pattern of a matrix built from dense = cells that are not the constant zero); validated against the installed scipy by the `sparse-shadow-conformance` job on every run; replays run the real scipy classes'],
    'assumptions': ['exact real arithmetic', 'counts irreducible where a stationary vector is requested (Perron contract)'],
    'outside': ['the MLE iteration on sparse input beyond one sweep on a matrix with one symbolic count (container handling only; '
                'the sweep itself is decided on dense input)', 'sparse matrices above the small sizes of the bound (eigs path for n>=1000)', 'float rounding', 'convergence of the MLE iteration (see C12)'],
}


def preload():
    loader.load('enspara.msm.transition_matrices')
    loader.load('enspara.msm.builders')


def sym_counts(ctx, n, allow_zero_rows=False, positive=False):
    C = [[core.fresh_real('c') for _ in range(n)] for _ in range(n)]
    for row in C:
        for x in row:
            ctx.add(core.to_z3_real(x) > 0 if positive else core.to_z3_real(x) >= 0)
        if not allow_zero_rows:
            ctx.add(core.to_z3_bool(sum(row[1:], row[0]) > 0))
    return C


def rowsum(row):
    return sum(row[1:], row[0])


def stationarity(n, T, pi):
    return [('populations-are-a-probability-vector', conj([x >= 0 for x in pi]) & (rowsum(pi) == 1)),
            ('populations-stationary-under-T',
             conj([sum([pi[i] * T[i][j] for i in range(1, n)], pi[0] * T[0][j]) == pi[j] for j in range(n)]))]


def builder_job(which, n, prior=False, eq=True, zero_rows=False, pattern=None, container=None, int_counts=False):
    """container: None = ndarray, or one of csr/csc/coo/lil/dok/dia/bsr (symbolic shadow of the scipy.sparse class, see
    symnp/sparse.py; replays use the real scipy class).  int_counts: integer element type, as assigns_to_counts returns."""
    b = loader.load('enspara.msm.builders')
    from symnp import sparse as ssp

    def path(ctx):
        stubs.EIG_CONTRACT[0] = stubs.perron_contract
        ctx.resolve_masks = True
        C = sym_counts(ctx, n, allow_zero_rows=zero_rows, positive=(which == 'normalize' and eq))
        if pattern is not None:
            for i in range(n):
                for j in range(n):
                    if not pattern[i][j]:
                        C[i][j] = 0.0
        pr = None
        prm = None
        if prior == 'matrix':
            # documented form "array, shape=(n_states, n_states)": an arbitrary (NOT necessarily symmetric) matrix of pseudocounts
            prm = [[core.fresh_real('prior') for _ in range(n)] for _ in range(n)]
            for row in prm:
                for x in row:
                    ctx.add(core.to_z3_real(x) >= 0)
            pr = funcs.np_array(prm, dtype=float)
            pr0 = pr.copy()
        elif prior:
            pr = core.fresh_real('prior')
            ctx.add(core.to_z3_real(pr) >= 0)
        if int_counts:
            # integer counts with the same zero pattern / positivity as the real-valued ones
            Ci = []
            for i in range(n):
                row = []
                for j in range(n):
                    if not isinstance(C[i][j], SVal):
                        row.append(int(C[i][j]))
                    else:
                        v = core.fresh_int('ci', 0, None)
                        ctx.add(core.to_z3_real(C[i][j]) == z3.ToReal(core.to_z3_int(v)))
                        row.append(v)
                Ci.append(row)
            C = Ci
        A = funcs.np_array(C, dtype=int if int_counts else float)
        A0 = A.copy()
        dup_entries = None
        if container == 'coo-dup':
            # a COO matrix with repeated coordinates, as assigns_to_counts builds them: every off-diagonal count is split into
            # two stored entries (the matrix value is their sum)
            ent = []
            for i in range(n):
                for j in range(n):
                    c = C[i][j]
                    if not isinstance(c, SVal) and c == 0:
                        continue
                    if i != j and isinstance(c, SVal):
                        part = core.fresh_int('part', 0, None) if int_counts else core.fresh_real('part')
                        ctx.add(core.to_z3_bool(part >= 0))
                        ctx.add(core.to_z3_bool(part <= c))
                        ent += [(part, i, j), (c - part, i, j)]
                    else:
                        ent.append((c, i, j))
            dup_entries = ent
            arg = ssp.CLASSES['coo']((funcs.np_array([e[0] for e in ent], dtype=int if int_counts else float),
                                      (np.array([e[1] for e in ent]), np.array([e[2] for e in ent]))), shape=(n, n))
        else:
            arg = A if container is None else ssp.CLASSES[container](A)
        stored0 = list(arg._data.cells()) if container is not None else None
        exc = None
        try:
            Cout, T, pi = getattr(b, which)(arg, prior_counts=pr, calculate_eq_probs=eq)
            Td = T.toarray() if isinstance(T, ssp.SymSp) else T
            Cd = Cout.toarray() if isinstance(Cout, ssp.SymSp) else Cout
            Tl = [[_raw(Td)[i, j] for j in range(n)] for i in range(n)]
            Cl = [[_raw(Cd)[i, j] for j in range(n)] for i in range(n)]
            pil = cells(pi) if pi is not None else None
            if container is None:
                type_ok = isinstance(T, SArr) and isinstance(Cout, SArr)
            elif prior:
                # adding prior counts to a sparse matrix legitimately densifies it
                type_ok = (type(T) is type(arg) or isinstance(T, SArr)) and (type(Cout) is type(arg) or isinstance(Cout, SArr))
            else:
                type_ok = type(T) is type(arg) and type(Cout) is type(arg)
        except Exception as e:
            if os.environ.get('VERIF_DEBUG'):
                import traceback
                traceback.print_exc()
            exc = e

        def oracle(C_, pr_, Cout_, T_, pi_, type_ok):
            if isinstance(pr_, list):
                Cp = [[C_[i][j] + pr_[i][j] for j in range(n)] for i in range(n)]
            else:
                Cp = [[x + (pr_ if pr_ is not None else 0) for x in row] for row in C_]
            if which == 'transpose':
                S = [[Cp[i][j] + Cp[j][i] for j in range(n)] for i in range(n)]
                exp_C = [[S[i][j] / 2 for j in range(n)] for i in range(n)]
            else:
                S = Cp
                exp_C = Cp
            obs = [('returned-counts-are-the-counts-after-priors' + ('-symmetrised' if which == 'transpose' else ''),
                    conj([Cout_[i][j] == exp_C[i][j] for i in range(n) for j in range(n)]))]
            rows = []
            for i in range(n):
                rs = rowsum(S[i])
                for j in range(n):
                    if isinstance(rs, (SVal,)):
                        rows.append(sor(rs <= 0, T_[i][j] * rs == S[i][j]))
                        rows.append(sor(rs > 0, T_[i][j] == 0))
                    else:
                        rows.append((T_[i][j] * rs == S[i][j]) if rs > 0 else (T_[i][j] == 0))
            obs.append(('T-equals-counts-over-row-totals(rows-sum-to-one-where-counts-exist)', conj(rows)))
            if eq:
                if pi_ is None:
                    obs.append(('populations-returned', False))
                else:
                    obs += stationarity(n, T_, pi_)
                    if which == 'transpose':
                        obs.append(('detailed-balance', conj([pi_[i] * T_[i][j] == pi_[j] * T_[j][i]
                                                              for i in range(n) for j in range(i + 1, n)])))
            else:
                obs.append(('no-populations-when-not-requested', pi_ is None))
            obs.append(('container-type-preserved', type_ok))
            return obs

        def witness(model):
            Cc = [[float(ev(model, x)) if isinstance(x, SVal) else float(x) for x in row] for row in C]
            if prm is not None:
                pcl = [[float(ev(model, x)) for x in row] for row in prm]
                pc = np.array(pcl)
            else:
                pcl = None
                pc = float(ev(model, pr)) if pr is not None else None
            out = {'inputs': {'builder': which, 'counts': Cc, 'prior_counts': pcl if prm is not None else pc, 'calculate_eq_probs': eq,
                              'container': container or 'ndarray', 'element_type': 'int64' if int_counts else 'float64'}}
            Ac = np.array(Cc).astype(int) if int_counts else np.array(Cc)
            if container == 'coo-dup':
                import scipy.sparse
                dv = [(int(ev(model, e[0])) if int_counts else float(ev(model, e[0]))) if isinstance(e[0], SVal) else e[0] for e in dup_entries]
                out['inputs']['stored_entries'] = [[v, e[1], e[2]] for v, e in zip(dv, dup_entries)]
                Ac = scipy.sparse.coo_matrix((np.array(dv, dtype=int if int_counts else float),
                                              (np.array([e[1] for e in dup_entries]), np.array([e[2] for e in dup_entries]))), shape=(n, n))
            elif container is not None:
                import scipy.sparse
                Ac = getattr(scipy.sparse, container + '_matrix')(Ac)
            dn2 = lambda x: np.asarray(x.toarray() if hasattr(x, 'toarray') else x)
            with core.concrete_mode():
                try:
                    Co2, T2, pi2 = getattr(b, which)(Ac, prior_counts=pc, calculate_eq_probs=eq)
                except Exception as e:
                    out.update(exception=repr(e), out=None, violated=['raises ' + type(e).__name__],
                               signature='exception:' + type(e).__name__)
                    return out
            out['out'] = {'C': dn2(Co2).tolist(), 'T': dn2(T2).tolist(),
                          'pi': None if pi2 is None else [float(x) for x in np.asarray(pi2).reshape(-1)]}
            Tol.TOL = 1e-6
            dense_t = (np.ndarray, np.matrix)          # scipy's sparse + dense array gives np.matrix: a dense type as well
            if container is None:
                tok = type(T2) is np.ndarray and type(Co2) is np.ndarray
            elif pc is not None:
                tok = (type(T2) is type(Ac) or type(T2) in dense_t) and (type(Co2) is type(Ac) or type(Co2) in dense_t)
            else:
                tok = type(T2) is type(Ac) and type(Co2) is type(Ac)
            bad = run_oracle(oracle(tolm(Cc), tolm(pcl) if prm is not None else (Tol(pc) if pc is not None else None), tolm(dn2(Co2).tolist()),
                                    tolm(dn2(T2).tolist()), None if pi2 is None else tolv(np.asarray(pi2).reshape(-1)), tok))
            if dn2(Ac).tolist() != Cc:
                bad.append('caller-matrix-modified')
            if prm is not None and pc.tolist() != pcl:
                bad.append('prior-count-matrix-modified')
            if zero_rows or pattern is not None:
                # same arguments, different heap history: free NaN/inf-filled blocks of the sizes the builder allocates
                from harness.C18 import poison_replay
                with core.concrete_mode():
                    seen = poison_replay(lambda: np.asarray(getattr(b, which)(np.array(Cc), prior_counts=pc,
                                                                            calculate_eq_probs=eq)[1]), n, repeats=25)
                if len(seen) > 1:
                    bad.append('result-depends-on-heap-contents')
                    out['signature'] = 'builders:%s:result-depends-on-heap-contents' % which
                    out['heap_outcomes'] = seen[:3]
            out['violated'] = bad
            return out
        if exc is not None:
            return PathOut([('no-exception', False)], {}, witness, exc=type(exc).__name__,
                           desc='raises %s: %s' % (type(exc).__name__, str(exc)[:100]))
        obs = oracle(C, prm if prm is not None else pr, Cl, Tl, pil, type_ok)
        if prm is not None:
            obs.append(('prior-count-matrix-unmodified', conj([a == b_ for a, b_ in zip(pr.cells(), pr0.cells())])))
        from harness.C18 import independent_of_uninitialised
        indep, ng = independent_of_uninitialised(ctx, [c for c in Td.cells() if isinstance(c, core.SFloat)])
        obs.append(('result-independent-of-uninitialised-memory', indep))
        if container is None:
            obs.append(('caller-matrix-unmodified', conj([x == y for x, y in zip(A.cells(), A0.cells())])))
        else:
            now = arg.toarray()
            obs.append(('caller-matrix-unmodified', conj([x == y for x, y in zip(now.cells(), A0.cells())] +
                                                          [x == y for x, y in zip(arg._data.cells(), stored0)])
                        if len(arg._data.cells()) == len(stored0) else False))
        return PathOut(obs, {'C': Cd, 'T': Td, 'pi': pi}, witness, desc='%s n=%d %s' % (which, n, container or ''))
    return path


def mle_job(n, max_iter=1, positive=True, tol=None):
    """_prinz_mle_py with a bounded number of sweeps: the sweep code and the final normalisation are executed;
    the returned (T, pi) must be row-stochastic, stationary and in detailed balance (each sweep keeps X symmetric
    with X_rs its row sums, so this holds after any number of sweeps)."""
    b = loader.load('enspara.msm.builders')

    def path(ctx):
        ctx.resolve_masks = True
        ctx.purify_div = True
        ctx.abstract_log = True
        C = sym_counts(ctx, n, positive=positive)
        A = funcs.np_array(C, dtype=float)
        A0 = A.copy()
        exc = None
        try:
            T, pi = b._prinz_mle_py(A, max_iter=max_iter, **({} if tol is None else {'tol': tol}))
            Tl = [[_raw(T)[i, j] for j in range(n)] for i in range(n)]
            pil = cells(pi)
        except Exception as e:
            exc = e

        def oracle(T_, pi_):
            obs = [('rows-of-T-sum-to-one', conj([rowsum(T_[i]) == 1 for i in range(n)])),
                   ('T-nonnegative', conj([T_[i][j] >= 0 for i in range(n) for j in range(n)]))]
            obs += stationarity(n, T_, pi_)
            obs.append(('detailed-balance', conj([pi_[i] * T_[i][j] == pi_[j] * T_[j][i]
                                                  for i in range(n) for j in range(i + 1, n)])))
            return obs

        def witness(model):
            Cc = [[float(ev(model, x)) for x in row] for row in C]
            out = {'inputs': {'counts': Cc, 'max_iter': max_iter}}
            Ac = np.array(Cc)
            import warnings
            with core.concrete_mode(), warnings.catch_warnings():
                warnings.simplefilter('ignore')
                try:
                    T2, pi2 = b._prinz_mle_py(Ac, max_iter=max_iter, **({} if tol is None else {'tol': tol}))
                except Exception as e:
                    out.update(exception=repr(e), out=None, violated=['raises ' + type(e).__name__],
                               signature='mle:exception:' + type(e).__name__)
                    return out
            out['out'] = {'T': T2.tolist(), 'pi': pi2.tolist()}
            Tol.TOL = 1e-6
            bad = run_oracle(oracle(tolm(T2.tolist()), tolv(pi2)))
            if Ac.tolist() != Cc:
                bad.append('caller-matrix-modified')
            out['violated'] = bad
            return out
        if exc is not None:
            return PathOut([('no-exception', False)], {}, witness, exc=type(exc).__name__,
                           desc='raises %s: %s' % (type(exc).__name__, str(exc)[:100]))
        obs = oracle(Tl, pil)
        obs.append(('caller-matrix-unmodified', conj([x == y for x, y in zip(A.cells(), A0.cells())])))
        return PathOut(obs, {'T': T, 'pi': pi}, witness, desc='mle n=%d max_iter=%d' % (n, max_iter))
    return path


def mle_container_job(n, container, int_counts=False):
    """builders.mle on a sparse container.  The iteration itself is decided elsewhere (mle_job, C12); here the public
    function runs with its inner solver bounded to ONE sweep (harness-side wrapper around _prinz_mle_py: max_iter=1,
    tol=inf, in the symbolic run and in the replay alike), which exercises the container handling around it: densification,
    the sweep on what todense() returns, re-wrapping of counts and T in the caller's container type."""
    b = loader.load('enspara.msm.builders')
    from symnp import sparse as ssp
    import warnings

    def bounded(fn):
        orig = b._prinz_mle_py

        def one_sweep(C, *a, **k):
            return orig(C, tol=float('inf'), max_iter=1)
        b._prinz_mle_py = one_sweep
        try:
            with warnings.catch_warnings():
                warnings.simplefilter('ignore')
                return fn()
        finally:
            b._prinz_mle_py = orig

    def path(ctx):
        ctx.resolve_masks = True
        ctx.purify_div = True
        ctx.abstract_log = True
        # the container handling does not depend on the numbers: one symbolic count, the others fixed (keeps the one-sweep
        # arithmetic within the solver's reach at the quick budget)
        C = [[float(1 + ((2 * i + j) % 3)) for j in range(n)] for i in range(n)]
        c00 = core.fresh_real('c')
        ctx.add(core.to_z3_real(c00) >= 1)
        C[0][0] = c00
        A = funcs.np_array(C, dtype=int if int_counts else float)
        A0 = A.copy()
        dup = None
        if container == 'ndarray-F':          # column-major dense counts (np.asfortranarray, a transposed view, csc.toarray())
            arg = A.T.copy().T
        elif container == 'coo-dup':
            # a COO matrix with REPEATED coordinates, exactly what assigns_to_counts returns (one stored 1 per observed transition):
            # the matrix value is the sum of the stored entries.  Every cell is split into two stored entries.
            dup = []
            for i in range(n):
                for j in range(n):
                    part = core.fresh_real('part')
                    ctx.add(core.to_z3_bool(part >= 0))
                    ctx.add(core.to_z3_bool(part <= C[i][j]))
                    dup += [(part, i, j), (C[i][j] - part, i, j)]
            arg = ssp.CLASSES['coo']((funcs.np_array([e[0] for e in dup], dtype=float),
                                      (np.array([e[1] for e in dup]), np.array([e[2] for e in dup]))), shape=(n, n))
        else:
            arg = ssp.CLASSES[container](A)
        exc = None
        try:
            Cout, T, pi = bounded(lambda: b.mle(arg))
            # (reference run on the dense form of the same argument: for repeated coordinates the cells are the same sums of stored
            # entries in both runs, so that abstracted operations - quotients, squares - get the same arguments)
            _, Tr, pir = bounded(lambda: b.mle(arg.toarray().copy() if dup is not None else A.copy()))
            Trl = [[_raw(Tr)[i, j] for j in range(n)] for i in range(n)]
            pirl = cells(pir)
            Td = T.toarray() if isinstance(T, ssp.SymSp) else T
            Cd = Cout.toarray() if isinstance(Cout, ssp.SymSp) else Cout
            Tl = [[_raw(Td)[i, j] for j in range(n)] for i in range(n)]
            Cl = [[_raw(Cd)[i, j] for j in range(n)] for i in range(n)]
            pil = cells(pi)
            type_ok = type(T) is type(arg) and type(Cout) is type(arg)
        except Exception as e:
            if os.environ.get('VERIF_DEBUG'):
                import traceback
                traceback.print_exc()
            exc = e

        def oracle(C_, Cout_, T_, pi_, Tref, piref, tok):
            # stationarity / detailed balance of the sweep are decided on dense input (mle_job, C12); here: the sparse call gives the
            # SAME numbers as the dense call, returns the counts, and keeps the container type
            obs = [('returned-counts-are-the-counts', conj([Cout_[i][j] == C_[i][j] for i in range(n) for j in range(n)])),
                   ('T-equals-the-dense-result', conj([T_[i][j] == Tref[i][j] for i in range(n) for j in range(n)])),
                   ('populations-equal-the-dense-result', conj([pi_[i] == piref[i] for i in range(n)])),
                   ('container-type-preserved', tok)]
            return obs

        def witness(model):
            Cc = [[float(ev(model, x)) if isinstance(x, SVal) else float(x) for x in row] for row in C]
            out = {'inputs': {'builder': 'mle (one sweep)', 'counts': Cc, 'container': container, 'element_type': 'int64' if int_counts else 'float64'}}
            import scipy.sparse
            if container == 'ndarray-F':
                Ac = np.asfortranarray(np.array(Cc))
            elif container == 'coo-dup':
                dv = [float(ev(model, e[0])) if isinstance(e[0], SVal) else float(e[0]) for e in dup]
                out['inputs']['stored_entries'] = [[v, e[1], e[2]] for v, e in zip(dv, dup)]
                Ac = scipy.sparse.coo_matrix((np.array(dv), (np.array([e[1] for e in dup]), np.array([e[2] for e in dup]))), shape=(n, n))
            else:
                Ac = getattr(scipy.sparse, container + '_matrix')(np.array(Cc).astype(int) if int_counts else np.array(Cc))
            dn2 = lambda x: np.asarray(x.toarray() if hasattr(x, 'toarray') else x)
            with core.concrete_mode():
                try:
                    Co2, T2, pi2 = bounded(lambda: b.mle(Ac))
                    _, Tr2, pir2 = bounded(lambda: b.mle(dn2(Ac).copy()))
                except Exception as e:
                    out.update(exception=repr(e), out=None, violated=['raises ' + type(e).__name__],
                               signature='mle-on-sparse:exception:' + type(e).__name__)
                    return out
            out['out'] = {'C': dn2(Co2).tolist(), 'T': dn2(T2).tolist(), 'pi': [float(x) for x in np.asarray(pi2).reshape(-1)]}
            Tol.TOL = 1e-6
            bad = run_oracle(oracle(tolm(Cc), tolm(dn2(Co2).tolist()), tolm(dn2(T2).tolist()), tolv(np.asarray(pi2).reshape(-1)),
                                    tolm(np.asarray(Tr2).tolist()), tolv(np.asarray(pir2).reshape(-1)),
                                    type(T2) is type(Ac) and type(Co2) is type(Ac)))
            if not np.allclose(dn2(Ac), np.array(Cc), rtol=1e-12, atol=1e-12):
                bad.append('caller-matrix-modified')
            out['violated'] = bad
            return out
        if exc is not None:
            return PathOut([('no-exception', False)], {}, witness, exc=type(exc).__name__,
                           desc='raises %s: %s' % (type(exc).__name__, str(exc)[:100]))
        obs = oracle(C, Cl, Tl, pil, Trl, pirl, type_ok)
        now = arg.toarray() if hasattr(arg, 'toarray') else arg
        obs.append(('caller-matrix-unmodified', conj([x == y for x, y in zip(now.cells(), A0.cells())])))
        return PathOut(obs, {'C': Cd, 'T': Td, 'pi': pi}, witness, desc='mle (one sweep) n=%d %s' % (n, container))
    return path


def jobs(tier):
    J = []
    q = tier == 'quick'

    def add(name, **kw):
        J.append(dict(module='harness.C04', func='builder_job', name='builder[%s]' % name, kwargs=kw, sig_prefix='builders',
                      deadline_s=250 if q else 1500, timeout_ms=40000 if q else 200000, tol=1e-5))
    J.append(dict(module='harness.C04', func='mle_job', name='mle[n=2,max_iter=1,tol=inf]', kwargs=dict(n=2, max_iter=1, tol=float('inf')),
                  sig_prefix='builders', deadline_s=250 if q else 1500, timeout_ms=40000 if q else 200000, tol=1e-5))
    if not q:
        J.append(dict(module='harness.C04', func='mle_job', name='mle[n=2,max_iter=1]', kwargs=dict(n=2, max_iter=1),
                      sig_prefix='builders', deadline_s=1500, timeout_ms=200000, tol=1e-5))
        J.append(dict(module='harness.C04', func='mle_job', name='mle[n=2,max_iter=2]', kwargs=dict(n=2, max_iter=2),
                      sig_prefix='builders', deadline_s=1500, timeout_ms=200000, tol=1e-5))
        J.append(dict(module='harness.C04', func='mle_job', name='mle[n=3,max_iter=1]', kwargs=dict(n=3, max_iter=1),
                      sig_prefix='builders', deadline_s=1500, timeout_ms=200000, tol=1e-5))
    for n in ((1, 2, 3) if q else (1, 2, 3, 4)):
        for which in ('normalize', 'transpose'):
            for prior in (False, True):
                if q and which == 'normalize' and n >= 3:
                    continue       # Perron contract at n=3 needs the thorough solver budget
                add('%s,n=%d,prior=%s,eq' % (which, n, prior), which=which, n=n, prior=prior, eq=True)
            add('%s,n=%d,no-eq' % (which, n), which=which, n=n, eq=False)
        add('normalize,n=%d,zero-rows,no-eq' % n, which='normalize', n=n, eq=False, zero_rows=True)
    # prior counts given as a (not necessarily symmetric) n x n matrix, dense and sparse counts
    for which in ('normalize', 'transpose'):
        add('%s,n=2,prior=matrix,eq' % which, which=which, n=2, prior='matrix', eq=True)
        add('%s,n=3,prior=matrix,no-eq' % which, which=which, n=3, prior='matrix', eq=False)
        add('%s,n=2,csr,prior=matrix,no-eq' % which, which=which, n=2, prior='matrix', eq=False, container='csr')
    # irreducible but periodic count patterns (eigenvalues other than 1 on the unit circle)
    add('normalize,n=2,periodic-2-cycle,eq', which='normalize', n=2, eq=True, pattern=[[0, 1], [1, 0]])
    add('normalize,n=3,periodic-3-cycle,eq', which='normalize', n=3, eq=True, pattern=[[0, 1, 0], [0, 0, 1], [1, 0, 0]])
    add('normalize,n=3,bipartite,eq', which='normalize', n=3, eq=True, pattern=[[0, 0, 1], [0, 0, 1], [1, 1, 0]])
    # every scipy.sparse container (symbolic shadow, symnp/sparse.py), integer counts as assigns_to_counts produces them and
    # float counts (weighted / already converted), with a sparsity pattern
    J.append(dict(module='harness.sparse_conf', func='conformance_job', name='sparse-shadow-conformance', kwargs={}, sig_prefix='trusted-base',
                  deadline_s=250 if q else 1500))
    tri = [[1, 1, 0], [1, 1, 1], [0, 1, 1]]
    for fmt in ('csr', 'csc', 'coo', 'lil', 'dok', 'dia', 'bsr'):
        for which in ('normalize', 'transpose'):
            for ints in (True, False):
                add('%s,n=2,%s,%s,no-eq' % (which, fmt, 'int' if ints else 'float'), which=which, n=2, eq=False, container=fmt, int_counts=ints)
            add('%s,n=3,%s,tridiagonal,int,no-eq' % (which, fmt), which=which, n=3, eq=False, container=fmt, int_counts=True, pattern=tri)
        add('transpose,n=2,%s,float,eq' % fmt, which='transpose', n=2, eq=True, container=fmt)
        if fmt == 'coo':
            for which in ('normalize', 'transpose'):
                add('%s,n=2,coo with repeated coordinates,int,no-eq' % which, which=which, n=2, eq=False, container='coo-dup', int_counts=True)
                add('%s,n=2,coo with repeated coordinates,int,prior,no-eq' % which, which=which, n=2, eq=False, prior=True, container='coo-dup', int_counts=True)
        add('normalize,n=2,%s,float,prior,no-eq' % fmt, which='normalize', n=2, eq=False, prior=True, container=fmt)
        if not q or fmt in ('csr', 'lil'):
            add('normalize,n=2,%s,float,eq' % fmt, which='normalize', n=2, eq=True, container=fmt)
        if fmt == 'csr':
            J.append(dict(module='harness.C04', func='mle_container_job', name='mle[n=2,column-major ndarray,one sweep]', kwargs=dict(n=2, container='ndarray-F'),
                          sig_prefix='builders', deadline_s=250 if q else 1500, timeout_ms=40000 if q else 200000, tol=1e-5))
        if not q or fmt in ('csr', 'lil', 'coo'):
            J.append(dict(module='harness.C04', func='mle_container_job', name='mle[n=2,%s,one sweep]' % fmt, kwargs=dict(n=2, container=fmt),
                          sig_prefix='builders', deadline_s=250 if q else 1500, timeout_ms=40000 if q else 200000, tol=1e-5))
    # the matrix assigns_to_counts hands to the builder: COO with repeated coordinates
    J.append(dict(module='harness.C04', func='mle_container_job', name='mle[n=2,coo with repeated coordinates,one sweep]', kwargs=dict(n=2, container='coo-dup'),
                  sig_prefix='builders', deadline_s=250 if q else 1500, timeout_ms=40000 if q else 200000, tol=1e-5))
    return J
