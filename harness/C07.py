"""C07  Committors and mean first-passage times satisfy their first-step equations."""
import itertools
from harness import tptjobs
from harness.tptjobs import source_sink_sets, reachable_pattern

preload = tptjobs.preload

META = {
    'files': ['enspara/tpt/core.py', 'enspara/msm/transition_matrices.py'],
    'functions': ['enspara.tpt.core._I_m_Q', 'enspara.tpt.core.committors', 'enspara.tpt.core.mfpts'],
    'bounds': {'quick': 'dense T, n<=4 strictly positive (hence irreducible), every disjoint non-empty source/sink pair of '
                        'sets of size <=2; n=3 with every irreducible zero pattern; sink-set MFPT n<=4; all-pairs MFPT table n=2; populations supplied, or derived by mfpts itself (Perron contract; all-pairs n=2, one sink n=3); '
                        'column-major and non-contiguous inputs; each of the 7 scipy.sparse containers at n=3 (one and two sinks), '
                        'n=4 with an intermediate state adjacent to both sinks',
               'thorough': 'n<=5 committors / sink-set MFPT; all-pairs table attempted at n=3 (reported inconclusive if the '
                           'solver gives up)'},
    'stubs': ['scipy.sparse.linalg.spsolve / numpy.linalg.solve on a dense operand = fresh x with A.x = b (A is nonsingular '
              'for irreducible T with a non-empty absorbing set: not re-proved)', 'numpy.linalg.inv = fresh Z with Z.M = M.Z = I',
              'spsolve with a sparse right-hand side: 1 column -> 1-D array, several columns -> csc sparse array (as scipy)', 'scipy.sparse classes = symbolic shadow symnp/sparse.py (result formats, element types, copy/share rules of the operations used; np.matrix results as 2-D arrays; stored pattern of a matrix built from dense = cells that are not the constant zero); validated against the installed scipy by the `sparse-shadow-conformance` job on every run; replays run the real scipy classes'],
    'assumptions': ['exact real arithmetic (QF_NRA)', 'T row-stochastic and irreducible', 'populations passed to mfpts are '
                    'the stationary vector of T', 'linear scaling with the lag time follows from the proved first-step equations '
                    'and uniqueness of their solution'],
    'outside': ['numerical conditioning',
                'all-pairs MFPT identity for n>=3 unless the solver finishes'],
}


def patterns3():
    cells = [(i, j) for i in range(3) for j in range(3) if i != j]
    for r in range(len(cells) + 1):
        for off in itertools.combinations(cells, r):
            zp = [[True] * 3 for _ in range(3)]
            for (i, j) in off:
                zp[i][j] = False
            if reachable_pattern(zp, 3):
                yield zp


def jobs(tier):
    J = []
    q = tier == 'quick'
    dl = 200 if q else 1500
    to = 30000 if q else 120000

    def add(func, name, **kw):
        J.append(dict(module='harness.tptjobs', func=func, name=name, kwargs=kw, sig_prefix=func, deadline_s=dl,
                      timeout_ms=to, tol=1e-5))
    for n in ((2, 3, 4) if q else (2, 3, 4, 5)):
        for S, K in source_sink_sets(n, 2 if n <= 4 else 1):
            add('committor_job', 'committors[n=%d,%s->%s]' % (n, S, K), n=n, sources=S, sinks=K)
        for r in (1, 2):
            for K in itertools.combinations(range(n), r):
                if len(K) < n:
                    add('mfpt_job', 'mfpt[n=%d,sinks=%s]' % (n, list(K)), n=n, sinks=list(K))
    for k, zp in enumerate(patterns3()):
        tag = ''.join('1' if x else '0' for row in zp for x in row)
        add('committor_job', 'committors[n=3,pattern=%s]' % tag, n=3, sources=[0], sinks=[2], zero_pattern=zp)
        add('mfpt_job', 'mfpt[n=3,pattern=%s,sink=1]' % tag, n=3, sinks=[1], zero_pattern=zp)
    # other memory layouts of the same matrix (a transposed / time-reversed chain is column-major): results and the
    # caller's array must not depend on them
    for layout in ('F', 'view'):
        for n in (2, 3):
            add('committor_job', 'committors[n=%d,%s-layout]' % (n, layout), n=n, sources=[0], sinks=[n - 1], layout=layout)
            add('mfpt_job', 'mfpt[n=%d,sink=0,%s-layout]' % (n, layout), n=n, sinks=[0], layout=layout)
    add('mfpt_job', 'mfpt[n=2,all-pairs,F-layout]', n=2, layout='F')
    # scipy.sparse containers (symbolic shadow symnp/sparse.py; replays on the real scipy classes)
    J.append(dict(module='harness.sparse_conf', func='conformance_job', name='sparse-shadow-conformance', kwargs={}, sig_prefix='trusted-base',
                  deadline_s=dl))
    for fmt in ('csr', 'csc', 'coo', 'lil', 'dok', 'dia', 'bsr'):
        add('committor_job', 'committors[n=3,%s,[0]->[2]]' % fmt, n=3, sources=[0], sinks=[2], container=fmt)
        add('committor_job', 'committors[n=3,%s,[0]->[1,2]]' % fmt, n=3, sources=[0], sinks=[1, 2], container=fmt)
        add('mfpt_job', 'mfpt[n=3,%s,sink=2]' % fmt, n=3, sinks=[2], container=fmt)
        # an intermediate state with transitions into BOTH sinks
        add('committor_job', 'committors[n=4,%s,[0]->[2,3]]' % fmt, n=4, sources=[0], sinks=[2, 3], container=fmt)
        if fmt in ('csr', 'lil') or not q:
            add('committor_job', 'committors[n=4,%s,[0,1]->[2,3]]' % fmt, n=4, sources=[0, 1], sinks=[2, 3], container=fmt)
            add('mfpt_job', 'mfpt[n=2,%s,all-pairs]' % fmt, n=2, container=fmt)
    add('mfpt_job', 'mfpt[n=2,all-pairs]', n=2)
    # history: the same array object analysed before with other contents, then overwritten in place (no state may be carried between calls)
    add('mfpt_job', 'mfpt[n=2,all-pairs,populations=None,array re-used after an earlier analysis]', n=2, given_pops=False, reuse=True)
    add('mfpt_job', 'mfpt[n=2,all-pairs,array re-used after an earlier analysis]', n=2, reuse=True)
    add('mfpt_job', 'mfpt[n=3,sink=2,array re-used after an earlier analysis]', n=3, sinks=[2], reuse=True)
    # populations not supplied: mfpts derives them from the matrix
    add('mfpt_job', 'mfpt[n=2,all-pairs,populations=None]', n=2, given_pops=False)
    if not q:
        add('mfpt_job', 'mfpt[n=3,all-pairs,populations=None]', n=3, given_pops=False)      # (does not finish within the quick budget)
    add('mfpt_job', 'mfpt[n=3,sink=1,populations=None]', n=3, sinks=[1], given_pops=False)
    if not q:
        add('mfpt_job', 'mfpt[n=3,all-pairs]', n=3)
    return J
