import os
"""C16  MSM estimator = function pipeline; spectrum; timescales; propagation."""
import itertools
import math

import numpy as np
import z3

from symnp import core, loader, funcs, stubs
from symnp.core import SVal, ite, sand, sor, snot
from symnp.arr import SArr, _raw
from harness.common import PathOut, ev
from harness.cluster import conj, cells, run_oracle
from harness.tptjobs import Tol, tolm, tolv, sym_stochastic, model_matrix

META = {
    'files': ['enspara/msm/msm.py', 'enspara/msm/transition_matrices.py', 'enspara/msm/timescales.py',
              'enspara/msm/synthetic_data.py', 'enspara/msm/builders.py'],
    'functions': ['enspara.msm.msm.MSM.__init__/fit/from_assignments', 'enspara.msm.transition_matrices.eigenspectrum/eq_probs/'
                  'assigns_to_counts/trim_disconnected', 'enspara.msm.timescales.calc_imp_times',
                  'enspara.msm.synthetic_data.synthetic_ensemble'],
    'bounds': {'quick': 'fit vs pipeline: 2 trajectories (lengths 3,2 / 4), 2 states (3 states with the state count inferred on both sides), lag 1..2, trim on/off, sliding on/off, '
                        'builders normalize(no eq)/transpose through the public callable-method API on dense counts AND on the sparse (coo) counts the default path hands them; spectrum n<=3 '
                        '(n_eigs, left/right); timescales n=2; ensemble n<=3, steps<=3',
               'thorough': 'fit vs pipeline for length vectors up to 7 frames in <=3 trajectories, lag<=3, 2 states; spectrum n<=3 (n=4: solver unknown, not claimed); ensembles n<=4, <=5 steps'},
    'stubs': ['scipy.linalg.eig = Perron contract', 'COO contract (SymCOO) + scipy.sparse shadow symnp/sparse.py (conformance-checked in the C04/C07/C08/C11 checks)', 'connected_components contract',
              'aslinearoperator(T).rmatvec(p) = T^T.p', 'log uninterpreted'],
    'assumptions': ['exact real arithmetic', 'transition matrices irreducible for the spectral part'],
    'outside': ['save/load round trip through the file system (Matrix-Market text, pickle); the state mapping\'s csv text form IS checked in memory', 'ARPACK path (n >= 1000)',
                'synthetic_trajectory (random sampling)'],
}


def preload():
    loader.load('enspara.msm.transition_matrices')
    loader.load('enspara.msm.builders')
    loader.load('enspara.msm.msm')
    loader.load('enspara.msm.timescales')
    loader.load('enspara.msm.synthetic_data')
    loader.load('enspara.ra.ra')


def dense_builder(name):
    b = loader.load('enspara.msm.builders')

    def method(C):
        if name.endswith('-sparse'):
            # the default MSM path: the builder receives the sparse counts (coo) from assigns_to_counts / trim_disconnected
            # (symbolic shadow of scipy.sparse inside a symbolic run, the real classes in replays)
            if name.startswith('normalize'):
                return b.normalize(C, calculate_eq_probs=False)
            return b.transpose(C)
        Cd = C.toarray() if hasattr(C, 'toarray') else C
        if core.active() and isinstance(Cd, np.ndarray) and not isinstance(Cd, SArr):
            # a count matrix without a single symbolic entry comes back from scipy as a plain ndarray; inside a symbolic run
            # every array is an SArr (type(C)(...) in the builders must see one array type, as the real code does)
            Cd = SArr.from_typed(Cd)
        if name == 'normalize-noeq':
            return b.normalize(Cd, calculate_eq_probs=False)
        return getattr(b, name)(Cd)
    method.__name__ = 'dense_' + name
    return method


def dn(x):
    if x is None:
        return None
    if hasattr(x, 'toarray'):
        x = x.toarray()
    if isinstance(x, SArr):
        return _raw(x).tolist()
    return np.asarray(x).tolist()


def feq(a, b):
    """cell equality where NaN matches NaN (both pipelines legitimately produce 0/0 for an empty model)"""
    from symnp.ufuncs import s_isnan
    if isinstance(a, Tol) or isinstance(b, Tol):
        return a == b
    if isinstance(a, SVal) or isinstance(b, SVal):
        return sor(a == b, sand(s_isnan(a), s_isnan(b)))
    if isinstance(a, float) and isinstance(b, float) and a != a and b != b:
        return True
    return a == b


def flat(x):
    if x is None:
        return []
    out = []
    for r in x:
        if isinstance(r, list):
            out += r
        else:
            out.append(r)
    return out


def mapping_roundtrip(tm, mapping):
    """the state mapping written with TrimMapping.write (what MSM.save stores as mapping.csv) and read back is the same mapping;
    in memory - the rest of save/load goes through the file system and is outside the claim"""
    import io
    buf = io.StringIO()
    mapping.write(buf)
    buf.seek(0)
    back = tm.TrimMapping.read(buf)
    return bool(back == mapping) and dict(back.to_original) == dict(mapping.to_original)


def fit_job(lengths, S, lag, builder, trim, sliding, late_params=False, explicit=True):
    tm = loader.load('enspara.msm.transition_matrices')
    mm = loader.load('enspara.msm.msm')
    ra = loader.load('enspara.ra.ra')
    lengths = list(lengths)
    Sarg = S if explicit else None      # explicit=False: the number of states is inferred (largest id + 1) by MSM.fit and by the pipeline

    def build(rows, concrete):
        L = max(lengths)
        padded = [list(r) + [-1] * (L - len(r)) for r in rows]
        return np.array(padded, dtype=int) if concrete else funcs.np_array(padded, dtype=int)

    def pipeline(A, method):
        C = tm.assigns_to_counts(A, lag_time=lag, max_n_states=Sarg, sliding_window=sliding)
        if trim:
            mapping, C = tm.trim_disconnected(C)
        else:
            mapping = tm.TrimMapping(zip(range(C.shape[0]), range(C.shape[0])))
        Cb, T, pi = method(C)
        return Cb, T, pi, mapping

    def path(ctx):
        ctx.resolve_masks = True
        trajs = [[core.fresh_int('s', 0, S - 1) for _ in range(n)] for n in lengths]
        if not explicit:
            # the inferred size is S: state S-1 occurs somewhere (possibly only in a trajectory that is too short to contribute a pair)
            ctx.add(core.to_z3_bool(core.sor(*[x == S - 1 for tr in trajs for x in tr])))
        method = dense_builder(builder)
        exc = None
        try:
            if late_params:
                # the counting parameters are changed AFTER construction (set_params / attribute assignment, the grid-search idiom):
                # fit must use the estimator's current parameters
                m = mm.MSM(lag_time=lag + 1, method=method, trim=trim, sliding_window=not sliding, max_n_states=S + 1)
                if hasattr(m, 'set_params'):
                    m.set_params(lag_time=lag, sliding_window=sliding)
                else:
                    m.lag_time, m.sliding_window = lag, sliding
                m.max_n_states = S
            else:
                m = mm.MSM(lag_time=lag, method=method, trim=trim, sliding_window=sliding, max_n_states=Sarg)
            m.fit(build(trajs, False))
            got = (dn(m.tcounts_), dn(m.tprobs_), dn(m.eq_probs_), dict(m.mapping_.to_original))
            exp = pipeline(build(trajs, False), method)
            exp = (dn(exp[0]), dn(exp[1]), dn(exp[2]), dict(exp[3].to_original))
            cfg_ok = (m.config['lag_time'] == lag and m.config['trim'] == trim and m.config['sliding_window'] == sliding)
            rt_ok = mapping_roundtrip(tm, m.mapping_)
        except Exception as e:
            if os.environ.get('VERIF_DEBUG'):
                import traceback
                traceback.print_exc()
            exc = e

        def compare(got_, exp_, tol=False):
            obs = []
            for name, g, e in zip(('tcounts_', 'tprobs_', 'eq_probs_'), got_[:3], exp_[:3]):
                fg, fe = flat(g), flat(e)
                ok = len(fg) == len(fe)
                if ok and tol:
                    fg, fe = tolv(fg), tolv(fe)
                obs.append(('%s-equals-function-pipeline' % name, conj([feq(a, b) for a, b in zip(fg, fe)]) if ok else False))
            obs.append(('mapping_-equals-function-pipeline',
                        {int(k): int(v) for k, v in got_[3].items()} == {int(k): int(v) for k, v in exp_[3].items()}))
            return obs

        def witness(model):
            cv = [[int(ev(model, x)) for x in tr] for tr in trajs]
            out = {'inputs': {'trajectories': cv, 'lag_time': lag, 'builder': builder, 'trim': trim,
                              'sliding_window': sliding, 'max_n_states': Sarg}}
            with core.concrete_mode():
                try:
                    if late_params:
                        m2 = mm.MSM(lag_time=lag + 1, method=method, trim=trim, sliding_window=not sliding, max_n_states=S + 1)
                        if hasattr(m2, 'set_params'):
                            m2.set_params(lag_time=lag, sliding_window=sliding)
                        else:
                            m2.lag_time, m2.sliding_window = lag, sliding
                        m2.max_n_states = S
                    else:
                        m2 = mm.MSM(lag_time=lag, method=method, trim=trim, sliding_window=sliding, max_n_states=Sarg)
                    m2.fit(build(cv, True))
                    g2 = (dn(m2.tcounts_), dn(m2.tprobs_), dn(m2.eq_probs_), dict(m2.mapping_.to_original))
                    e2 = pipeline(build(cv, True), method)
                    e2 = (dn(e2[0]), dn(e2[1]), dn(e2[2]), dict(e2[3].to_original))
                    cfg2 = (m2.config['sliding_window'] == sliding)
                    rt2 = mapping_roundtrip(tm, m2.mapping_)
                except Exception as e:
                    out.update(exception=repr(e), out=None, violated=['raises ' + type(e).__name__],
                               signature='exception:' + type(e).__name__)
                    return out
            out['out'] = {'tcounts_': g2[0], 'tprobs_': g2[1], 'eq_probs_': g2[2], 'mapping_': {str(k): int(v) for k, v in g2[3].items()}}
            bad = run_oracle(compare(g2, e2, tol=True))
            if not cfg2:
                bad.append('config-does-not-report-the-requested-sliding_window')
            if not rt2:
                bad.append('state-mapping-changed-by-write/read')
            out['violated'] = bad
            out['skip_compare'] = True
            return out
        if exc is not None:
            return PathOut([('no-exception', False)], {}, witness, exc=type(exc).__name__,
                           desc='raises %s: %s' % (type(exc).__name__, str(exc)[:100]))
        obs = compare(got, exp)
        obs.append(('config-reports-the-requested-settings', cfg_ok))
        obs.append(('state-mapping-survives-write/read (the text form MSM.save stores)', rt_ok))
        return PathOut(obs, {'tcounts_': got[0], 'tprobs_': got[1], 'eq_probs_': got[2]}, witness,
                       desc='fit lengths=%s lag=%d %s trim=%s sliding=%s' % (lengths, lag, builder, trim, sliding))
    return path


def spectrum_job(n, n_eigs=None, left=True):
    tm = loader.load('enspara.msm.transition_matrices')

    def path(ctx):
        stubs.EIG_CONTRACT[0] = stubs.perron_contract
        ctx.resolve_masks = True
        T, _ = sym_stochastic(ctx, n, reversible=None)
        A = funcs.np_array(T, dtype=float)
        A0 = A.copy()
        exc = None
        try:
            vals, vecs = tm.eigenspectrum(A, n_eigs=n_eigs, left=left)
            vl = cells(vals)
            v0 = [_raw(vecs)[i, 0] for i in range(vecs.shape[0])]
        except Exception as e:
            if os.environ.get('VERIF_DEBUG'):
                import traceback
                traceback.print_exc()
            exc = e
        k = n if n_eigs is None else min(n_eigs, n)

        def oracle(T_, vl_, v0_, nvec):
            obs = [('number-of-eigenvalues-respected', len(vl_) == k and nvec == k),
                   ('leading-eigenvalue-is-one', vl_[0] == 1),
                   ('eigenvalues-descending', conj([vl_[i] >= vl_[i + 1] for i in range(len(vl_) - 1)])),
                   ('first-vector-sums-to-one', sum(v0_[1:], v0_[0]) == 1)]
            if left:
                obs.append(('first-left-vector-is-stationary',
                            conj([sum([v0_[i] * T_[i][j] for i in range(1, n)], v0_[0] * T_[0][j]) == v0_[j] for j in range(n)])))
            else:
                obs.append(('first-right-vector-is-fixed-by-T',
                            conj([sum([T_[i][j] * v0_[j] for j in range(1, n)], T_[i][0] * v0_[0]) == v0_[i] for i in range(n)])))
            return obs

        def witness(model):
            Tc = model_matrix(model, T)
            out = {'inputs': {'T': Tc, 'n_eigs': n_eigs, 'left': left}}
            Ac = np.array(Tc)
            with core.concrete_mode():
                try:
                    v2, w2 = tm.eigenspectrum(Ac, n_eigs=n_eigs, left=left)
                except Exception as e:
                    out.update(exception=repr(e), out=None, violated=['raises ' + type(e).__name__],
                               signature='exception:' + type(e).__name__)
                    return out
            out['out'] = {'vals': [float(x) for x in v2], 'first_vector': [float(x) for x in w2[:, 0]]}
            Tol.TOL = 1e-6
            bad = run_oracle(oracle(tolm(Tc), tolv(v2), tolv(w2[:, 0]), w2.shape[1]))
            if Ac.tolist() != Tc:
                bad.append('matrix-modified')
            out['violated'] = bad
            out['skip_compare'] = True     # eigenvector scale / order of the non-leading part are unspecified
            return out
        if exc is not None:
            if n_eigs is not None and n_eigs < 2 and type(exc).__name__ == 'ValueError':
                return PathOut([('n_eigs-below-2-rejected', True)], {}, witness, exc='ValueError')
            return PathOut([('no-exception', False)], {}, witness, exc=type(exc).__name__,
                           desc='raises %s: %s' % (type(exc).__name__, str(exc)[:100]))
        obs = oracle(T, vl, v0, vecs.shape[1])
        obs.append(('matrix-unmodified', conj([x == y for x, y in zip(A.cells(), A0.cells())])))
        return PathOut(obs, {'vals': vals}, witness, desc='eigenspectrum n=%d n_eigs=%s left=%s' % (n, n_eigs, left))
    return path


def timescales_job(lengths, lag):
    tm = loader.load('enspara.msm.transition_matrices')
    ts = loader.load('enspara.msm.timescales')
    S = 2
    lengths = list(lengths)

    def build(rows, concrete):
        L = max(lengths)
        padded = [list(r) + [-1] * (L - len(r)) for r in rows]
        return np.array(padded, dtype=int) if concrete else funcs.np_array(padded, dtype=int)

    def path(ctx):
        stubs.EIG_CONTRACT[0] = stubs.perron_contract
        ctx.resolve_masks = True
        trajs = [[core.fresh_int('s', 0, S - 1) for _ in range(n)] for n in lengths]
        method = dense_builder('transpose')
        # both states must exchange counts, otherwise T is not irreducible (outside the spectral precondition)
        flat_ = [x for tr in trajs for x in tr]
        exc = None
        try:
            C = tm.assigns_to_counts(build(trajs, False), lag_time=lag, max_n_states=S, sliding_window=True).toarray()
            ctx.add(core.to_z3_bool(_raw(C)[0, 1] + _raw(C)[1, 0] > 0))
            ctx.add(core.to_z3_bool(_raw(C)[0, 0] + _raw(C)[1, 1] > 0))
            if not ctx.feasible(True) or not ctx._check():
                return None
            imp = ts.calc_imp_times(build(trajs, False), lag, S, 1, method, True, False)
            _, T, _ = method(tm.assigns_to_counts(build(trajs, False), lag_time=lag, max_n_states=S, sliding_window=True))
            vals, _v = tm.eigenspectrum(T, n_eigs=2)
            expect = -lag / funcs.NP.log(vals[1:])
        except Exception as e:
            if os.environ.get('VERIF_DEBUG'):
                import traceback
                traceback.print_exc()
            exc = e

        def witness(model):
            cv = [[int(ev(model, x)) for x in tr] for tr in trajs]
            out = {'inputs': {'trajectories': cv, 'lag_time': lag}}
            with core.concrete_mode():
                try:
                    i2 = ts.calc_imp_times(build(cv, True), lag, S, 1, method, True, False)
                    _, T2, _ = method(tm.assigns_to_counts(build(cv, True), lag_time=lag, max_n_states=S, sliding_window=True))
                    v2, _w = tm.eigenspectrum(np.asarray(T2), n_eigs=2)
                except Exception as e:
                    out.update(exception=repr(e), out=None, violated=['raises ' + type(e).__name__],
                               signature='exception:' + type(e).__name__)
                    return out
            out['out'] = {'implied_timescales': [float(x) for x in i2]}
            bad = []
            if len(i2) != 1:
                bad.append('number-of-timescales')
            elif v2[1] > 0 and v2[1] < 1 and abs(float(i2[0]) - (-lag / math.log(v2[1]))) > 1e-6 * max(1, abs(float(i2[0]))):
                bad.append('timescale-is-minus-lag-over-log-eigenvalue')
            out['violated'] = bad
            out['skip_compare'] = True
            return out
        if exc is not None:
            return PathOut([('no-exception', False)], {}, witness, exc=type(exc).__name__,
                           desc='raises %s: %s' % (type(exc).__name__, str(exc)[:100]))
        il, el = cells(imp), cells(expect)
        obs = [('one-timescale-per-requested-eigenvalue', len(il) == 1 and len(el) == 1),
               ('timescale-is-minus-lag-over-log-of-the-matching-eigenvalue', conj([feq(a, b) for a, b in zip(il, el)]))]
        return PathOut(obs, {}, witness, desc='calc_imp_times lengths=%s lag=%d' % (lengths, lag))
    return path


def ensemble_job(n, steps, observable=False, int_pops=False):
    sd = loader.load('enspara.msm.synthetic_data')

    def path(ctx):
        T = [[core.fresh_real('t') for _ in range(n)] for _ in range(n)]
        # int_pops: the start vector is an INTEGER array (walker counts / a one-hot indicator): propagation is still real-valued
        p0 = [core.fresh_int('p', 0, None) if int_pops else core.fresh_real('p') for _ in range(n)]
        ob = [core.fresh_real('o') for _ in range(n)] if observable else None
        A = funcs.np_array(T, dtype=float)
        P = funcs.np_array(p0, dtype=int if int_pops else float)
        O = funcs.np_array(ob, dtype=float) if ob else None
        A0, P0 = A.copy(), P.copy()
        exc = None
        try:
            pf, obs_ = sd.synthetic_ensemble(A, P, steps, observable_per_state=O)
        except Exception as e:
            if os.environ.get('VERIF_DEBUG'):
                import traceback
                traceback.print_exc()
            exc = e

        def expected(T_, p_, ob_):
            rows = []
            cur = list(p_)
            for s in range(steps):
                rows.append(cur)
                cur = [sum([cur[i] * T_[i][j] for i in range(1, n)], cur[0] * T_[0][j]) for j in range(n)]
            if ob_ is not None:
                return [sum([r[i] * ob_[i] for i in range(1, n)], r[0] * ob_[0]) for r in rows], rows[-1]
            return rows, rows[-1]

        def oracle(obs_l, pf_l, T_, p_, ob_):
            exp_rows, exp_final = expected(T_, p_, ob_)
            o = [('n_steps-rows', len(obs_l) == steps)]
            if len(obs_l) != steps:
                return o
            if ob_ is not None:
                o.append(('observable-trace-is-p.T^s.obs', conj([a == b for a, b in zip(obs_l, exp_rows)])))
            else:
                o.append(('row-s-is-p.T^s', conj([a == b for ra_, rb in zip(obs_l, exp_rows) for a, b in zip(ra_, rb)])))
            o.append(('final-populations', conj([a == b for a, b in zip(pf_l, exp_final)])))
            return o

        def witness(model):
            Tc = model_matrix(model, T)
            pc = [(int(ev(model, x)) if int_pops else float(ev(model, x))) for x in p0]
            oc = [float(ev(model, x)) for x in ob] if ob else None
            out = {'inputs': {'T': Tc, 'init_pops': pc, 'init_pops_dtype': 'int64' if int_pops else 'float64', 'n_steps': steps,
                              'observable_per_state': oc}}
            Ac, Pc = np.array(Tc), np.array(pc, dtype=int if int_pops else float)
            with core.concrete_mode():
                try:
                    pf2, ob2 = sd.synthetic_ensemble(Ac, Pc, steps, observable_per_state=np.array(oc) if oc else None)
                except Exception as e:
                    out.update(exception=repr(e), out=None, violated=['raises ' + type(e).__name__],
                               signature='exception:' + type(e).__name__)
                    return out
            out['out'] = {'final': pf2.tolist(), 'observations': ob2.tolist()}
            Tol.TOL = 1e-7
            obl = tolv(ob2) if oc else tolm(ob2.tolist())
            bad = run_oracle(oracle(obl, tolv(pf2), tolm(Tc), tolv(pc), tolv(oc) if oc else None))
            if Ac.tolist() != Tc or Pc.tolist() != pc:
                bad.append('inputs-modified')
            out['violated'] = bad
            return out
        if exc is not None:
            return PathOut([('no-exception', False)], {}, witness, exc=type(exc).__name__,
                           desc='raises %s: %s' % (type(exc).__name__, str(exc)[:100]))
        ol = cells(obs_) if observable else [[_raw(obs_)[s, j] for j in range(n)] for s in range(steps)]
        o = oracle(ol, cells(pf), T, p0, ob)
        o.append(('inputs-unmodified', conj([x == y for x, y in zip(A.cells() + P.cells(), A0.cells() + P0.cells())])))
        return PathOut(o, {'final': pf, 'observations': obs_}, witness, desc='ensemble n=%d steps=%d' % (n, steps))
    return path


def jobs(tier):
    J = []
    q = tier == 'quick'

    def add(func, name, **kw):
        J.append(dict(module='harness.C16', func=func, name=name, kwargs=kw, sig_prefix=func, deadline_s=250 if q else 1500,
                      timeout_ms=40000 if q else 200000, tol=1e-5))
    lens = [(3, 2), (4,)] if q else [(3, 2), (4,), (4, 3), (2, 2, 2), (5,), (3, 3), (2, 1, 3)]
    for L in lens:
        for lag in ((1, 2) if q else (1, 2, 3)):
            for builder in ('transpose', 'normalize-noeq') + (('transpose-sparse', 'normalize-sparse') if L in ((3, 2), (4,)) else ()):
                for trim in (False, True):
                    for sliding in (True, False):
                        if not sliding and lag == 1:
                            continue
                        add('fit_job', 'fit[%s,lag=%d,%s,trim=%s,sliding=%s]' % (list(L), lag, builder, trim, sliding),
                            lengths=L, S=2, lag=lag, builder=builder, trim=trim, sliding=sliding)
                        if builder == 'transpose' and L == (3, 2):
                            add('fit_job', 'fit[%s,lag=%d,%s,trim=%s,sliding=%s,parameters set after construction]' % (list(L), lag, builder, trim, sliding),
                                lengths=L, S=2, lag=lag, builder=builder, trim=trim, sliding=sliding, late_params=True)
                        if builder in ('transpose', 'normalize-noeq') and L in ((3, 2), (2, 2, 2)):
                            # number of states inferred from the data (max_n_states=None) on both sides; 3 states so that the largest
                            # id can occur in one place only
                            add('fit_job', 'fit[%s,lag=%d,%s,trim=%s,sliding=%s,inferred state count]' % (list(L), lag, builder, trim, sliding),
                                lengths=L, S=3, lag=lag, builder=builder, trim=trim, sliding=sliding, explicit=False)
    # four states in two trajectories: the count graph can fall into several strongly connected pieces although every state has
    # transitions in and out (two back-and-forth pairs) - fit with trimming must keep exactly what trim_disconnected keeps
    for builder in ('normalize-noeq', 'transpose'):
        add('fit_job', 'fit[[3, 3],4 states,lag=1,%s,trim=True]' % builder, lengths=(3, 3), S=4, lag=1, builder=builder, trim=True, sliding=True)
    add('fit_job', 'fit[[3, 3],4 states inferred,lag=1,normalize-noeq,trim=True]', lengths=(3, 3), S=4, lag=1, builder='normalize-noeq', trim=True,
        sliding=True, explicit=False)
    for n in (2, 3):       # n=4 was tried: every query ends `unknown` (quartic characteristic polynomial), so it is not claimed
        if n <= 2 or not q:
            add('spectrum_job', 'spectrum[n=%d,all,left]' % n, n=n)
        add('spectrum_job', 'spectrum[n=%d,n_eigs=2,left]' % n, n=n, n_eigs=2)
        if n <= 2 or not q:
            add('spectrum_job', 'spectrum[n=%d,all,right]' % n, n=n, left=False)
    add('spectrum_job', 'spectrum[n=2,n_eigs=1]', n=2, n_eigs=1)
    add('timescales_job', 'timescales[3,2;lag=1]', lengths=(3, 2), lag=1)
    if not q:
        add('timescales_job', 'timescales[4;lag=1]', lengths=(4,), lag=1)
    for n in ((2, 3) if q else (2, 3, 4)):
        for st in ((1, 2, 3) if q else (1, 2, 3, 4, 5)):
            add('ensemble_job', 'ensemble[n=%d,steps=%d]' % (n, st), n=n, steps=st)
        add('ensemble_job', 'ensemble[n=%d,steps=3,observable]' % n, n=n, steps=3, observable=True)
        add('ensemble_job', 'ensemble[n=%d,steps=3,integer start vector]' % n, n=n, steps=3, int_pops=True)
        add('ensemble_job', 'ensemble[n=%d,steps=2,integer start vector,observable]' % n, n=n, steps=2, int_pops=True, observable=True)
    return J
