"""C08  Reactive flux obeys its definition and is conserved."""
import itertools
from harness import tptjobs
from harness.tptjobs import source_sink_sets, reachable_pattern

preload = tptjobs.preload

META = {
    'files': ['enspara/tpt/tpt.py', 'enspara/tpt/core.py'],
    'functions': ['enspara.tpt.tpt._get_data_from_tprob', 'enspara.tpt.tpt.reactive_fluxes', 'enspara.tpt.tpt.net_fluxes',
                  'enspara.tpt.tpt.reactive_populations', 'enspara.tpt.core.committors'],
    'bounds': {'quick': 'reversible T with its stationary populations (given), n<=3 dense, every disjoint source/sink set pair; '
                        'n=4 on a nearest-neighbour chain pattern; each of the 7 scipy.sparse containers at n=3; column-major and non-contiguous dense input',
               'thorough': 'n=4 dense, chain, ring and star patterns with one- and two-state source/sink sets; n=5 chains (reported inconclusive where z3 gives up)'},
    'stubs': ['spsolve on a dense operand = fresh x with A.x = b', 'scipy.sparse classes = symbolic shadow symnp/sparse.py (result formats, element types, copy/share rules of the operations used; np.matrix results as 2-D arrays; stored pattern of a matrix built from dense = cells that are not the constant zero); validated against the installed scipy by the `sparse-shadow-conformance` job on every run; replays run the real scipy classes'],
    'assumptions': ['exact real arithmetic (QF_NRA)', 'detailed balance pi_i T_ij = pi_j T_ji, pi>0, sum pi = 1, T row-stochastic'],
    'outside': ['non-reversible chains for the conservation clauses (the code uses q- = 1 - q+)'],
}


def jobs(tier):
    J = []
    q = tier == 'quick'
    dl = 250 if q else 1700
    to = 40000 if q else 300000

    def add(name, **kw):
        J.append(dict(module='harness.tptjobs', func='flux_job', name='flux[%s]' % name, kwargs=kw, sig_prefix='flux',
                      deadline_s=dl, timeout_ms=to, tol=1e-5))
    for n in (2, 3):
        for S, K in source_sink_sets(n, 2):
            add('n=%d,%s->%s' % (n, S, K), n=n, sources=S, sinks=K)
    J.append(dict(module='harness.sparse_conf', func='conformance_job', name='sparse-shadow-conformance', kwargs={}, sig_prefix='trusted-base',
                  deadline_s=dl))
    for fmt in ('csr', 'csc', 'coo', 'lil', 'dok', 'dia', 'bsr'):
        add('n=3,%s,[0]->[2]' % fmt, n=3, sources=[0], sinks=[2], container=fmt)
        if fmt in ('csr', 'csc') or not q:
            add('n=3,%s,[0]->[1,2]' % fmt, n=3, sources=[0], sinks=[1, 2], container=fmt)
    # column-major / non-contiguous dense input (a transposed or time-reversed chain, pandas .values, loadmat output)
    for layout in ('F', 'view'):
        add('n=3,[0]->[2],%s-layout' % layout, n=3, sources=[0], sinks=[2], layout=layout)
    # the same array objects analysed before with other contents, then overwritten in place: no state may be carried between calls
    add('n=3,[0]->[2],arrays re-used after an earlier analysis', n=3, sources=[0], sinks=[2], reuse=True)
    add('n=3,[0]->[1,2],arrays re-used after an earlier analysis', n=3, sources=[0], sinks=[1, 2], reuse=True)
    chain = [[abs(i - j) <= 1 for j in range(4)] for i in range(4)]
    add('n=4,chain,[0]->[3]', n=4, sources=[0], sinks=[3], zero_pattern=chain)
    if not q:
        add('n=4,chain,[1]->[2]', n=4, sources=[1], sinks=[2], zero_pattern=chain)
        ring = [[(abs(i - j) in (0, 1, 3)) for j in range(4)] for i in range(4)]
        add('n=4,ring,[0]->[2]', n=4, sources=[0], sinks=[2], zero_pattern=ring)
        add('n=4,dense,[0]->[3]', n=4, sources=[0], sinks=[3])
        add('n=4,dense,[0,1]->[3]', n=4, sources=[0, 1], sinks=[3])
        add('n=4,dense,[0]->[2,3]', n=4, sources=[0], sinks=[2, 3])
        add('n=4,ring,[0,1]->[3]', n=4, sources=[0, 1], sinks=[3], zero_pattern=ring)
        add('n=4,chain,[0]->[2]', n=4, sources=[0], sinks=[2], zero_pattern=chain)
        star = [[(i == j or i == 0 or j == 0) for j in range(4)] for i in range(4)]
        add('n=4,star,[1]->[2]', n=4, sources=[1], sinks=[2], zero_pattern=star)
        chain5 = [[abs(i - j) <= 1 for j in range(5)] for i in range(5)]
        add('n=5,chain,[0]->[4]', n=5, sources=[0], sinks=[4], zero_pattern=chain5)
        add('n=5,chain,[1]->[3]', n=5, sources=[1], sinks=[3], zero_pattern=chain5)
    return J
