"""C05  Reading a ragged array equals reading the list of its rows."""
from harness import ragged

preload = ragged.preload

META = {
    'files': ragged.FILES,
    'functions': ['RaggedArray.__init__/__getitem__/__len__/shape/size/starts/dtype/flatten/iteration', 'ra.where',
                  '_convert_from_1d/_convert_from_2d/_handle_negative_indices/_slice_to_list/_get_iis_from_slices/'
                  '_get_iis_from_list/partition_list'],
    'bounds': {'quick': 'every lengths vector with <=3 rows of length 1..3 (both constructor forms for a subset); element access with '
                        'SYMBOLIC integer indices (all integers at once); boolean ragged masks with symbolic truth values; row / '
                        '(row, column) slices on a grid of bounds {None, -n-1, -n, -1, 0, 1, n, n+1} x steps {None,1,2,-1,-2} (full grid for '
                        '1-D, rotating pairs for 2-D); element values symbolic; vector-valued elements (frames x 2) with a reduced index set',
               'thorough': 'complete 2-D slice product with bounds -L-1..L+1 and steps {None,1,2,3,-1,-2,-3}'},
    'stubs': [],
    'assumptions': ['slice bounds are enumerated, not symbolic (stated grid); element values and scalar indices are symbolic',
                    'deviations are classified into regions of the index grammar; regions listed in known_findings.jsonl are known '
                    'findings, every other deviation is a violation'],
    'outside': ['elements of dtype=object with ragged 2nd/3rd dimension', '__repr__/__str__', 'elements with more than one extra dimension'],
}


def jobs(tier):
    J = []
    q = tier == 'quick'

    def add(func, name, **kw):
        J.append(dict(module='harness.ragged', func=func, name=name, kwargs=kw, sig_prefix='ragged', deadline_s=280 if q else 1700,
                      max_witness=400))
    for lv in ragged.length_vectors(3, 3):
        add('getitem_job', 'getitem[%s,nested]' % list(lv), lengths=lv, form='nested', tier=tier)
        if len(lv) <= 2 or not q:
            add('getitem_job', 'getitem[%s,flat]' % list(lv), lengths=lv, form='flat', tier=tier)
        add('element_job', 'element[%s]' % list(lv), lengths=lv, form='nested' if sum(lv) % 2 else 'flat')
        if len(lv) <= 2 or sum(lv) <= 5:
            add('elements2d_job', 'vector-elements[%s]' % list(lv), lengths=lv, form='nested' if sum(lv) % 2 else 'flat')
        if len(lv) >= 2 and sum(lv) <= 6:
            add('index_args_job', 'ndarray-index-arguments[%s]' % list(lv), lengths=lv)
        if sum(lv) <= (5 if q else 7):
            add('mask_job', 'mask[%s]' % list(lv), lengths=lv, form='nested')
    # lengths handed over as a NumPy array of a narrow integer type that cannot hold the total number of elements
    for lv, dt_ in (((60, 50, 40), 'int8'), ((50, 50, 50), 'int8'), ((100, 100, 90), 'uint8'), ((60, 50, 40), 'int16')):
        add('narrow_lengths_job', 'lengths as %s array %s' % (dt_, list(lv)), lengths=lv, dtype=dt_)
    # arrays WITH EMPTY ROWS (first, interior, several in a row): masks and ra.where must still address the later rows
    for lv in ((2, 0, 1), (0, 2, 1), (1, 0, 0, 2)) + (() if q else ((2, 0, 0), (0, 0, 3), (1, 0, 2, 0, 1))):
        add('mask_job', 'mask[%s,flat]' % list(lv), lengths=lv, form='flat')
    return J
