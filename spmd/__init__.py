"""SPMD simulator: a fake `mpi4py` whose COMM_WORLD runs W ranks as cooperative threads, exactly one at
a time, handing over only inside collectives (deterministic, so the decision-trail re-execution of E1 works).

MPI semantics implemented: allgather, bcast, Bcast (in-place buffer), allreduce(MAX|SUM), Barrier/barrier.
Collective MATCHING is checked: the k-th collective of every rank must be the same operation with the same
root; a mismatch, or a rank finishing while others wait, is reported as a deadlock.  Given matching, MPI
guarantees results independent of arrival order - the "all arrival orders" quantifier rests on that."""
import threading
import types

import numpy as _np

from symnp import core
from symnp.arr import SArr, _raw


class Deadlock(Exception):
    pass


class _Abort(BaseException):
    pass


SUM = 'SUM'
MAX = 'MAX'
MIN = 'MIN'


class World:
    def __init__(self):
        self.W = 1
        self.active = False
        self.tls = threading.local()
        self.reset(1)

    def reset(self, W):
        self.W = W
        self.cv = threading.Condition()
        self.turn = None
        self.waiting = {}         # rank -> (seq, kind, root, value, extra)
        self.results = {}
        self.finished = set()
        self.seq = [0] * W
        self.error = None
        self.log = []             # matched collectives (kind, root)

    # ---- rank identity ---------------------------------------------------------------------------
    def rank(self):
        return getattr(self.tls, 'rank', 0)

    # ---- scheduling --------------------------------------------------------------------------------
    def _next_runnable(self):
        for r in range(self.W):
            if r not in self.finished and r not in self.waiting:
                return r
        return None

    def _wait_turn(self, r):
        while self.turn != r:
            if self.error is not None:
                raise _Abort()
            self.cv.wait(timeout=0.5)
        if self.error is not None:
            raise _Abort()

    def collective(self, kind, root, value, extra=None):
        if not self.active or self.W == 1:
            return self._single(kind, root, value, extra)
        r = self.rank()
        with self.cv:
            self.seq[r] += 1
            self.waiting[r] = (self.seq[r], kind, root, value, extra)
            alive = [x for x in range(self.W) if x not in self.finished]
            if all(x in self.waiting for x in alive):
                if len(alive) != self.W:
                    self.error = Deadlock('rank(s) %s returned while rank %d waits in %s' %
                                          (sorted(self.finished), r, kind))
                    self.cv.notify_all()
                    raise _Abort()
                self._complete()
                nxt = min(self.waiting_ranks_done())
            else:
                nxt = self._next_runnable()
            self.turn = nxt
            self.cv.notify_all()
            self._wait_turn(r)
            res = self.results.pop(r)
        return res

    def waiting_ranks_done(self):
        return list(range(self.W))

    def _complete(self):
        entries = [self.waiting[x] for x in range(self.W)]
        kinds = {(e[1]) for e in entries}
        seqs = {e[0] for e in entries}

        def rootkey(x):
            return x if not isinstance(x, core.SVal) else 'sym'
        if len(kinds) != 1 or len(seqs) != 1:
            self.error = Deadlock('collective mismatch: ranks are in %s' % [(e[0], e[1]) for e in entries])
            self.cv.notify_all()
            raise _Abort()
        kind = entries[0][1]
        roots = [e[2] for e in entries]
        if kind in ('bcast', 'Bcast'):
            rs = []
            for x in roots:
                rs.append(int(x))         # a symbolic root is concretised (forks over the feasible owners)
            if len(set(rs)) != 1:
                self.error = Deadlock('collective mismatch: %s with different roots %s' % (kind, rs))
                self.cv.notify_all()
                raise _Abort()
            root = rs[0]
            if not 0 <= root < self.W:
                self.error = Deadlock('%s with root %d outside the world' % (kind, root))
                self.cv.notify_all()
                raise _Abort()
        vals = [e[3] for e in entries]
        self.log.append((kind, roots[0] if not isinstance(roots[0], core.SVal) else 'symbolic'))
        if kind == 'allgather':
            out = [list(vals) for _ in range(self.W)]
        elif kind == 'bcast':
            out = [_copy(vals[root]) if x != root else vals[root] for x in range(self.W)]
        elif kind == 'Bcast':
            src = vals[root]
            for x in range(self.W):
                if x != root:
                    _copy_into(vals[x], src)
            out = [None] * self.W
        elif kind == 'allreduce':
            op = entries[0][4]
            acc = vals[0]
            for v in vals[1:]:
                if op == SUM:
                    acc = acc + v
                elif op == MAX:
                    acc = core.ite(acc < v, v, acc) if (isinstance(acc, core.SVal) or isinstance(v, core.SVal)) else max(acc, v)
                elif op == MIN:
                    acc = core.ite(v < acc, v, acc) if (isinstance(acc, core.SVal) or isinstance(v, core.SVal)) else min(acc, v)
                else:
                    raise core.Unsupported('allreduce op %r' % (op,))
            out = [acc] * self.W
        elif kind == 'barrier':
            out = [None] * self.W
        else:
            raise core.Unsupported('collective %s' % kind)
        for x in range(self.W):
            self.results[x] = out[x]
        self.waiting.clear()

    def _single(self, kind, root, value, extra):
        if kind == 'allgather':
            return [value]
        if kind in ('bcast', 'allreduce'):
            return value
        return None

    # ---- running a SPMD program ------------------------------------------------------------------------
    def run(self, W, fn):
        """fn(rank) executed on W ranks; returns the list of results.  Must be called from the thread that owns
        the symbolic context."""
        self.reset(W)
        self.active = True
        results = [None] * W
        errors = [None] * W

        def body(r):
            self.tls.rank = r
            try:
                with self.cv:
                    self._wait_turn(r)
                results[r] = fn(r)
            except _Abort:
                pass
            except BaseException as e:      # includes the engine's control exceptions
                errors[r] = e
                with self.cv:
                    if self.error is None:
                        self.error = e
                    self.cv.notify_all()
                return
            with self.cv:
                self.finished.add(r)
                if self.error is None:
                    alive = [x for x in range(self.W) if x not in self.finished]
                    if alive and all(x in self.waiting for x in alive):
                        self.error = Deadlock('rank %d returned while ranks %s wait in %s' %
                                              (r, alive, [self.waiting[x][1] for x in alive]))
                    else:
                        self.turn = self._next_runnable()
                self.cv.notify_all()
        threads = [threading.Thread(target=body, args=(r,), daemon=True) for r in range(W)]
        for t in threads:
            t.start()
        with self.cv:
            self.turn = 0
            self.cv.notify_all()
        for t in threads:
            t.join()
        self.active = False
        self.tls.rank = 0
        if self.error is not None:
            raise self.error
        return results


def _copy(v):
    if isinstance(v, _np.ndarray):
        return v.copy()
    if isinstance(v, list):
        return [_copy(x) for x in v]
    return v


def _copy_into(dst, src):
    if isinstance(dst, SArr) or isinstance(src, SArr):
        if not isinstance(dst, SArr):
            raise core.Unsupported('Bcast of symbolic data into a real ndarray')
        _raw(dst)[...] = _raw(src) if isinstance(src, SArr) else _raw(SArr.from_typed(_np.asarray(src)))
    elif isinstance(dst, _np.ndarray):
        dst[...] = src
    else:
        raise TypeError('Bcast needs a buffer, got %s' % type(dst).__name__)


WORLD = World()


class Comm:
    def Get_rank(self):
        return WORLD.rank()

    def Get_size(self):
        return WORLD.W if WORLD.active else 1

    def allgather(self, v):
        return WORLD.collective('allgather', None, v)

    def bcast(self, v, root=0):
        return WORLD.collective('bcast', root, v)

    def Bcast(self, buf, root=0):
        return WORLD.collective('Bcast', root, buf)

    def allreduce(self, v, op=SUM):
        return WORLD.collective('allreduce', None, v, op)

    def Barrier(self):
        return WORLD.collective('barrier', None, None)

    barrier = Barrier

    def Abort(self, *a):
        raise RuntimeError('MPI_Abort')


def fake_mpi4py():
    """module object to install as sys.modules['mpi4py'] before enspara is imported"""
    MPI = types.ModuleType('mpi4py.MPI')
    MPI.COMM_WORLD = Comm()
    MPI.SUM, MPI.MAX, MPI.MIN = SUM, MAX, MIN
    pkg = types.ModuleType('mpi4py')
    pkg.MPI = MPI
    pkg.__verif_simulator__ = True
    return pkg, MPI
